#!/venv/bin/python
"""Developer driver: run a property's stages B/C without stage A. Usage: dev.py <ID> [tier] [replay]"""
import sys, os, importlib
REPO = os.environ.get("OPC_REPO", "/repo")
os.environ["PYTHONPATH"] = REPO
os.environ.setdefault("PYTHONHASHSEED", "0")
sys.path.insert(0, os.path.dirname(os.path.abspath(__file__)))
sys.path.insert(0, REPO)
from lib.common import Run
pid = sys.argv[1]; tier = sys.argv[2] if len(sys.argv) > 2 else "quick"
run = Run(pid, tier, int(os.environ.get("VERIF_SEED", "0")))
mod = importlib.import_module(f"props.{pid.lower()}")
mod.run(run, tier, replay=sys.argv[3] if len(sys.argv) > 3 else None)
for fid, what in sorted(run.known_hits.items()):
    print("KNOWN-FINDING:", fid, what[:300])
print("violations:", len(run.violations))
import json
import collections
print(collections.Counter((v['kind'], v.get('label'), v.get('cls')) for v in run.violations).most_common(40))
for v in run.violations[:int(os.environ.get('NV','6'))]:
    v = {k: x for k, x in v.items() if k != "doc"}
    print(json.dumps(v, default=str, ensure_ascii=False)[:1500]); print("---")
print("evals", run.evals, "corr", run.corr, run.extra, run.hist)
