#!/usr/bin/env python3
"""Writes /verif/MANIFEST.json from the table below (kept in one place so it is always valid)."""
import json
CHECK = "/venv/bin/python /verif/harness/check.py"
ALL = [f"C{i:02d}" for i in range(1, 21)]
CLAIMS = {}
def claim(pid, text, note, technique, design_ref):
    CLAIMS[pid] = dict(text=text, note=note, technique=technique, design_ref=design_ref)

claim("C09",
  "Coq theorem python_identifier_valid: for every string and every good prefix, under the guard g_xid, the model of PythonIdentifier returns a valid non-keyword identifier "
  "(unbounded; table facts re-proved by vm_compute reflection on Unicode/keyword tables regenerated from the interpreter and /repo on every run); refutation witnesses for the guard's complement "
  "(a², raw-name fallback). The model Names.v is tied to utils.py by a correspondence check evaluated inside Coq on ~25k (function,string) cases per quick run, and an oracle "
  "(isidentifier/iskeyword, per-scope distinctness through the real parser) classifies failures by the Coq guard into known findings vs violations.",
  "Trusted: Coq kernel+vm_compute; gen_tables.py translator; CPython str/re semantics; the hand-written model's regex semantics (validated by correspondence only); scope-level collision logic is checked by oracle, not proved.",
  "Coq proof (induction + table reflection) + in-Coq differential correspondence", "4/C09")

claim("C19",
  "Coq theorems on the file-tree state machine Fs.v (model of Project.build): no_overwrite_untouched; build_postcondition (after one generation every generated path holds fresh content, "
  "nothing else remains under models/ and api/, every other path is untouched); overwrite_converges and user_files_untouched for EVERY history of generations and user writes (induction over histories, "
  "no length bound); writes_confined + derived_component_safe/derived_module_safe/project_name_chars (every path component derived from any document string through PythonIdentifier/kebab_case "
  "is non-empty, not a dot segment and free of / \\ NUL . quotes: Unicode table facts re-proved on regenerated tables). The model is tied to the code by comparing, after every step of random "
  "histories x metadata flavours, the real directory tree with Fs.run applied to the module/tag names the parser produced (evaluated inside Coq); an oracle compares bytes with a fresh generation and "
  "checks sentinel files around the output directory for hostile titles/tags/names.",
  "Trusted: Coq kernel+vm_compute; OS filesystem semantics (pathlib/shutil) are not modelled; the model abstracts file contents to (generation id | user tag); user files inside models/ and api/ are deleted by design (rmtree) and the theorem says so; project_name_override/package_name_override are configuration and used raw.",
  "Coq proof (invariant over histories) + in-Coq differential correspondence on directory histories", "4/C19")

claim("C13",
  "Coq theorems on Values.v (model of every property class's convert_value) and PyEval.v (evaluator of the emitted default-expression sub-language): default_sound (for the ten scalar kinds and EVERY JSON value "
  "inside the guard default_class = 0, an accepted default's emitted Python expression evaluates to the typed value the document declares: int, bool, float token, string, date/date-time via isoparse, UUID), "
  "default_complete (inside the guard a value that denotes nothing of the kind is rejected with a PropertyError), default_null; unguarded per-kind characterisations conv_int/bool/float_sound+complete "
  "(what the lenient conversions accept is exactly int_meaning/bool_meaning/float_meaning), conv_date/datetime/uuid_sound, conv_enum/litenum/const_sound, conv_union_first; one `_refuted` witness per non-zero "
  "guard class (float_token, string/int/bool lenient, default_dq, nonfinite crash, uuid raw, union_first_match, enum_default_dq). float()/isoparse/UUID are record fields (explicit premises, no axioms). "
  "The model is tied to the code by evaluating Values.convert_value inside Coq on ~8.5k (kind, value) cases per quick run against the real classes (direct convert_value and property_from_data with `default`), the "
  "oracle record being instantiated from the real float()/isoparse/UUID results; stage C generates documents with defaults in model properties and query/header/cookie parameters, executes the generated code in a fresh "
  "interpreter (attribute after no-arg construction, to_dict, inspect.signature defaults) and classifies every deviation by the Coq guard into listed findings or VIOLATION.",
  "Trusted: Coq kernel+vm_compute; the oracles float()/str(float)/isoparse/UUID (only their tabulated results and the token class of str(float), sampled each run); the model's string-literal lexer does not decode "
  "\\x/\\u escapes, so defaults that are not repr-printable (class 9) and list/dict defaults of Any are covered by correspondence+oracle only; $ref/allOf re-conversion routes are exercised by C15/C20, not proved here.",
  "Coq proof (case analysis over kinds x JSON constructors, literal round-trip lemmas) + in-Coq differential correspondence + executed-client oracle", "4/C13")

claim("C14",
  "Coq theorems on Values.values_from_list and Enums.v (model of enum build, the generated Enum/IntEnum classes, Literal sets, check_ functions, nullable-enum union decoder and const check): vfl_members_sub "
  "(no invented member, any input), vfl_exact + keys_nodup (under g_enum_sanitised_distinct the table is exactly the declared values), enum_exact_str (under g_no_bs_nl and g_enum_sanitised_distinct: the class "
  "exists, every listed string decodes to a member whose .value is that string, whatever decodes is a listed string, everything else raises, no other members), enum_exact_int (no guard; int tables never raise), "
  "enum_dup_reported (a raw key equal to an earlier stored name raises, is never merged), literal_enum_exact, null_makes_nullable / no_null_plain / nullable_accepts_null, const_exact + py_eq_same_type; "
  "`_refuted` witnesses: enum_silent_merge, enum_dup_crash, enum_backslash, nullable_passthrough, numeric alias (enum and const), const quote. All for unbounded lists/strings (induction), Unicode table facts "
  "regenerated. Tied to the code by (a) EnumProperty.values_from_list / EnumProperty.build / LiteralEnumProperty.build vs the model on hostile value lists, (b) generated classes of both enum styles imported in a fresh "
  "interpreter: members, *_VALUES sets and the from_dict decode of every probe value (listed, same-type unlisted, Python-equal of another type, other types, null) and const checks vs the model, all evaluated inside Coq; "
  "stage C evaluates the property's predicate on the generated classes and classifies deviations by the Coq guards.",
  "Trusted: Coq kernel+vm_compute; CPython Enum value lookup / set membership / == as modelled by enum_lookup / literal_check / py_eq (correspondence only); identifiers are NFKC-normalised by CPython (member names are "
  "compared modulo that map); g_repr_printable and brace-free consts delimit the model's literal lexer (not defect classes); inline vs referenced enums share EnumProperty.build and are not distinguished.",
  "Coq proof (induction over value lists, literal round-trip lemmas) + in-Coq differential correspondence on parser and executed generated classes", "4/C14")

claim("C02",
  "Coq theorem CodecThm.roundtrip (exported as C02_roundtrip): for EVERY class table, property kind, JSON instance and nesting depth, if the schema is inside the static guard (k_ok/table_ok: union members "
  "pairwise distinguishable by JSON tag, no const inside a multi-member union, no File in a JSON model) and the instance is schema-valid with canonical date/date-time/uuid text, then the model of the generated "
  "from_dict accepts it and the model of to_dict re-encodes the decoded object to the SAME JSON value (objects are finite maps); corollaries decode_reencoded, additional_preserved, wire_names_exact; four "
  "`_refuted` witnesses show each guard conjunct is necessary (each is a listed known finding of the generated union code) and a non-vacuity example. Proof by induction on decoder fuel with one lemma per generated loop "
  "(list / model field loop / additional properties / union try-chain and isinstance-chain). Which kinds have construct/transform/check macros is read from GenKinds.v, regenerated from the real templates on every run. "
  "The model Codec.v is tied to the code by executing the GENERATED from_dict/to_dict in a fresh interpreter on ~1600 (quick) instances over an atlas of documents (every kind x position, all ordered union pairs, recursion, "
  "additionalProperties variants, allOf) plus random schema graphs, and comparing decoded object structure and re-encoded output (or exception) with Codec.dec/enc evaluated by vm_compute on the property trees abstracted from "
  "the implementation's own parse; an oracle checks to_dict(from_dict(j)) == j, from_dict(to_dict(x)) == x and json.dumps on every instance inside the theorem's guard (guard evaluated in Coq).",
  "Trusted: Coq kernel+vm_compute; gen_kinds.py translator; the abstraction function harness/lib/absprop.py and the value serialiser harness/lib/client_runner.py; dateutil.isoparse/uuid.UUID as oracles (canonical re-formatting "
  "supplied per shard); floats are opaque non-integral tokens; attrs __eq__ = structural equality; wrong container types in direct (non-union) positions are outside the model and never generated; multipart encoding not modelled.",
  "Coq proof (fuel induction over a denotational codec model) + in-Coq differential correspondence against executed generated code", "4/C02")

claim("C05",
  "Coq theorems (PyLitThm.v, SitesThm.v; all Closed under the global context). Lexer level, for ALL strings and continuations: dq_literal_roundtrip (text through remove_string_escapes between double "
  "quotes re-lexes character for character and the lexer resumes after the closing quote, guard no_bs_nl), raw_in_dq / raw_in_dq_quote_breaks, docstring_safe / docstring_escaped_safe (helpers.jinja "
  "safe_docstring yields one literal for every content without a triple quote; escaped text never has one), repr_roundtrip_printable, lit_site (an inert image between plain template text inside one "
  "literal: composition lemma by induction), identifier_slot_safe (PythonIdentifier / ClassName / kebab_case / enum-key images contain, inside ASCII, only word characters and '-': Unicode case-map facts "
  "re-proved by vm_compute on regenerated tables). Site level: the table gen_sites (slot x file kind x lexical context x sanitiser class) is REGENERATED ON EVERY RUN from the generator's output "
  "(canary probes, tokenize / TOML scanner); all_sites_safe : forallb site_safe gen_sites = true by vm_compute; site_sound : for every acceptable site and every payload inside its computable slot_guard the "
  "emitted text re-lexes (PyLit lexers) to exactly the payload / the sanitised identifier with the lexer resuming after the literal. Sites that are safe only on a narrow domain are listed one by one in "
  "Sites.known_narrow with a finding id and a ..._refuted witness (desc_code_exec, meta_injection, path_injection, content_type_injection, const_fstring; class-level: name_backslash, nul_char, "
  "default_not_verbatim, xid_gap); a new raw interpolation / comment / code context / unescaped path makes a regenerated row unacceptable and the obligation all_sites_safe fails. "
  "Correspondence (evaluated inside Coq): escape_dq, py_repr, lex_string, safe_docstring (against the REAL Jinja macro), lex_docstring, TOML guard vs utils.remove_string_escapes / repr / tokenize+"
  "ast.literal_eval / tomllib on ~8k hostile cases per quick run; the site table vs a second, differently shaped probe document. Oracle: ~900 generated trees per quick run (every emitted slot x 13 payload "
  "classes x metadata flavours / option settings, packed absent slots, random multi-slot combinations): compile()/tomllib, AST shape equal to the canary-only rendering, payload marker only inside string "
  "tokens or sanitised identifiers, run-time-meaningful constants equal to the document text; every failure is classified by evaluating the Coq slot_guard of the sites of that slot in that file.",
  "Trusted: Coq kernel+vm_compute; translator gen_sites.py and the probe grammar harness/lib/probe.py (slot coverage = 130 probed slots; 29 pydantic str positions it does not fill are listed in evidence as "
  "unreached_fields); the sanitiser class of a site is inferred from one benign-specials probe and confirmed only by the oracle; CPython's tokenizer beyond string literals, f-string replacement fields "
  "(modelled as: a brace in document text is code), Jinja wordwrap/indent (assumed whitespace-only) and octal/\\x/\\u/\\N escape decoding are not modelled (lexer answers None; repr round trip proved for "
  "printable strings only); identifier VALIDITY of ClassName / enum keys rests on C09 (here only the character-class theorem).",
  "Coq proof (induction on strings + reflection on a regenerated site table) + in-Coq differential correspondence + generated-tree oracle classified by the Coq guard", "4/C05")

claim("C12",
  "Coq theorems (OrderThm.v): the Python string order str_leb is a total order (refl/total/antisym/trans); for the stable insertion sort ksort: py_sorted_perm_invariant "
  "(Permutation l l' -> sorted(l) = sorted(l'), all lists, no guard) and jinja_sort_perm_invariant (the Jinja `| sort` filter = stable sort on str.lower: same, under the guard keys_distinct lower l; "
  "jinja_sort_case_tie_refuted gives the witness for the guard's complement); sorted_emission_deterministic (a renderer whose loop sites all sort is invariant under ANY permutation of every set's enumeration order) "
  "and unsorted_refuted (any site list with one unsorted site has two enumerations with different output); on the table gen/GenLoops.v regenerated from the Jinja ASTs of all templates and an ast scan of "
  "openapi_python_client/**/*.py (every for/join/list/pop/f-string over a set-typed expression; set-typedness inferred from annotations): all_loops_sorted_except_known (vm_compute), all_loops_sorted_if_fixed, and "
  "rendering_verdict (if the lazy_imports loops are sorted then deterministic else a concrete pair of differing enumerations exists - holds before and after the fix). Order part (RetryThm.v): the "
  "retry-until-no-progress loop of _create_schemas/_process_models on an abstract dependency graph handles exactly the least fixed point Derivable (process_sound, process_complete with fuel |todo|+1), hence "
  "order_independent and clean_run_order_independent for every permutation of the to-do list. Correspondence: Coq sort models vs the real Jinja filter/sorted() on random lists, and for every generated module the lines "
  "written by each loop site == Order.emit (sorted flag from the regenerated table) of the set in the generating process's own enumeration order. Oracle: byte comparison of whole trees generated in fresh interpreters "
  "across PYTHONHASHSEEDs and across permutations of components.schemas/paths (diagnostic-free documents), thorough also with the ruff post-hooks; differences are classified line-exactly into the known findings "
  "lazy_unsorted, sort_case_tie, addl_lazy_order, module_collision_order, anything else is a violation with (documents, seeds, first differing file) as replay.",
  "Trusted: Coq kernel+vm_compute; gen_loops.py (name-based, conservative set-typedness inference; sites whose order only reaches diagnostic text (EDiag) or whose body commutes (ENone) are accepted); CPython's set iteration order is "
  "not modelled (theorems quantify over all orders, the oracle samples 6/16 hash seeds); str.lower() final-sigma rule; the abstract retry model Retry.v is tied to the code only by the permutation oracle (no abstraction function is run), "
  "and order independence of the CONTENTS of generated classes is checked by oracle, not proved; .ruff_cache is excluded from tree comparison. On the unchanged tree all_loops_sorted is false (known finding lazy_unsorted; fix in /verif/fixes/C12_lazy_sorted.diff).",
  "Coq proof (sorting/permutation, table reflection, least-fixed-point of the retry loop) + in-Coq emission correspondence + differential tree oracle over hash seeds and permutations", "4/C12")

claim("C15",
  "Coq theorems about Merge.v, an executable model of merge_properties.py (merge, _merge_common_attributes, _merge_with_enum, _merge_with_literal_enum, _merge_same_type incl. the list item recursion) "
  "and of the property-collection fold of _process_properties, for ALL property records (16 kinds, arbitrary enum tables / defaults / nested lists; no size bound): merge_required_or (merged property is required "
  "iff a member requires it), merge_kind_narrowest (result kind = narrow_kind: integer over number, date/date-time/file over string, enum or literal enum over its base type, any yields), merge_wf, "
  "merge_type_symmetric (under the guard g_merge both member orders give the same type: kind, enum value SET, the smaller enum, item type), merge_incompatible_symmetric (no common kind => a diagnostic in both orders), "
  "collect_names / collect_required (the composed class has exactly the members' property names, each once, required iff some declaration is), merge_nonvacuous; refutation witnesses for the guard's complement and for "
  "what the theorems deliberately do not claim: merge_first_wins_refuted, collect_order_refuted (three declarations: fold order matters), merge_enum_default_stale_refuted. The model is tied to the code on every run by "
  "(1) ~24k (quick) / ~90k (thorough) calls of the real merge_properties on real property objects built by property_from_data - every ordered pair of 46 variants covering the 16 kinds x required x default, plus "
  "hostile defaults - compared inside Coq with Merge.merge (MOk/MErr/MCrash, kind, required, default code + raw value, description/example, enum table / literal set / item / const / union / model identity), and "
  "(2) the real _process_properties on random allOf lists (referenced, composed and inline members, required lists) compared with Merge.collect. Stage C generates exhaustive two-member and random chained documents "
  "(parents declared after children) in both member orders and checks the composed class in a fresh interpreter: attributes = union of member properties, required = OR over members, same annotation in both orders or a "
  "diagnostic in both, narrowest annotation, values outside the smaller enum refused, round trip of instances valid against all members, member classes unchanged by composition. Seven defect classes of the unchanged "
  "code are listed as known findings and classified by the Coq guard / exact structural tests.",
  "Trusted: Coq kernel+vm_compute; float()/isoparse/UUID enter Merge.merge as an oracle record tabulated from the real functions per run; union member identity and model identity are abstract tags (equality classes) in the model; "
  "the translation document -> declaration list (which required list applies to which property; single-$ref pass-through) is NOT modelled - it is covered by the collect correspondence and the end-to-end oracle, which is where "
  "allof_required_unapplied and allof_single_ref_drops_own were found; the accepted-set reading (C02 validity relation) of 'narrowest' is stated on kinds/payloads, not on JSON instances; description/default/example are order-dependent by design.",
  "Coq proof (case analysis over kinds + induction over nested lists / enum tables / member lists) + in-Coq differential correspondence + end-to-end oracle", "4/C15")

claim("C03",
  "Coq theorems on Endpoint.v, a model of the generated _get_kwargs: query/header/cookie placement (each argument appears under exactly its wire name, in its own location, with its encoded value), "
  "*_nothing_else (no other key is sent), *_unset_absent (unset optional arguments are not sent), method_literal, content_type_matches, security_demands_auth, and path_slots: for ALL path templates and "
  "parameter lists inside the guard (distinct names, plain python names, no python name equal to another parameter's wire name) the sequential str.replace placeholder rewrite of sort_parameters followed by "
  "str.format fills every {wire name} slot with its own argument; refutation witness multi_body_same_type. The model is tied to the code by executing the GENERATED _get_kwargs in a fresh interpreter on an atlas "
  "of operations (every parameter kind x location, out-of-order path parameters, path-item overrides, one name in several locations, reserved names, bodies, security) plus random operations and comparing "
  "method/url/params/cookies/headers/json/data with Endpoint.get_kwargs evaluated by vm_compute; an oracle compares the request captured behind httpx.MockTransport (sync and asyncio variants, with the generated "
  "client building its own httpx client incl. credential header) with an expectation computed from the document.",
  "Trusted: Coq kernel+vm_compute; gen_kinds.py; abstraction harness/lib/epwork.py+absprop.py; client_runner.py; httpx request encoding is outside the model (the theorem stops at the kwargs dict; the captured request is compared by the "
  "oracle only); multipart/octet-stream bodies are not modelled; str.format is modelled for plain {identifier} fields only.",
  "Coq proof (list/map invariants; string-rewrite theorem) + in-Coq differential correspondence against executed generated code", "4/C03")
claim("C04",
  "Coq theorems on Endpoint.v's model of the generated _parse_response: documented_status_decoded (a documented status is decoded from the documented source json/text/bytes/none with the documented schema's decoder, "
  "first declaration wins), no_schema_no_value, undocumented_status (None, or UnexpectedStatus when raise_on_unexpected_status), parsed_value_typed (the parsed value inhabits the annotated type; uses the C02/C11 codec theorems), "
  "status_alias refutation. Tied to the code by executing the GENERATED _parse_response on canned httpx.Response objects (every documented status x valid / near-valid / non-JSON / text / bytes / empty bodies, undocumented "
  "statuses, both flag settings) and comparing parsed value / None / UnexpectedStatus / other exception with Endpoint.parse evaluated by vm_compute; an oracle compares sync_detailed / asyncio_detailed results behind "
  "httpx.MockTransport (status, headers, content verbatim; parsed per document; variants agree) with an expectation computed from the document.",
  "Trusted: Coq kernel+vm_compute; abstraction epwork.py/absprop.py; client_runner.py; httpx's response.json()/text/content are oracles supplied per case; a File value is identified with its payload bytes.",
  "Coq proof (induction over the response list) + in-Coq differential correspondence against executed generated code", "4/C04")

claim("C10",
  "Coq theorems (all inputs): optional_absent_unset / unset_not_encoded / required_always_emitted / required_absent_error (an absent optional property reads back as UNSET and UNSET is never transmitted; a required one is always "
  "emitted and its absence is an error) on the Codec.v model of generated from_dict/to_dict; null_decodes_to_none / none_encodes_to_null / null_invalid_when_not_nullable; type_admits_none_iff_nullable (Types.v: the declared "
  "type admits None exactly when the kind has a null member) and optional_admits_unset; mandatory_iff_required_nodefault; query/header/cookie_unset_absent on Endpoint.v. Tied to the code on every run: get_type_string of every "
  "property compared (as a set) with Types.type_of, the document's nullability compared with Types.nullable of the parsed tree, and absent/present/null instances executed through the generated from_dict/to_dict compared with "
  "Codec.dec/enc (vm_compute), over the exhaustive grid kind x {required, optional, +default} x {none, 3.0 nullable, 3.1 type list, anyOf null, oneOf null, enum null member}; oracle on constructor / endpoint signatures and on "
  "requests captured with optional arguments omitted.",
  "Trusted: Coq kernel+vm_compute; tyabs.py (annotation text -> Types.ty), absprop.py, client_runner.py; parameter calls that httpx refuses (non-string cookie/header values, findings of C03) are unobservable and counted as such.",
  "Coq proof + in-Coq differential correspondence (annotations, nullability, executed generated code) over an exhaustive grid", "4/C10")
claim("C11",
  "PARTIAL by nature: mypy's accept/reject judgement is an external checker whose type system is not modelled - `mypy --strict` runs as the search stage only (its errors are violations or listed findings, its silence is not claimed as proof). "
  "Proved in Coq for all inputs: decode_inhabits_annotation (every value the model of from_dict produces from schema-valid data inhabits the modelled annotation type_of k), decoded_fields_inhabit (every attribute of a decoded object "
  "against its own, possibly optional, declaration), parsed_value_typed (response values against the return annotation member), and decoded values are accepted by the encoder (roundtrip). Tied to the code: every property / "
  "parameter / body / response annotation text is parsed and compared with Types.type_of, and every attribute of every object returned by the GENERATED from_dict on valid instances (atlas + random schema graphs, literal_enums off/on) "
  "is checked inside Coq to inhabit the modelled annotation.",
  "Trusted: Coq kernel+vm_compute; tyabs.py, absprop.py, client_runner.py; the denotation Types.inhabits (bool <: int <: float, datetime <: date); a 3-line stub for dateutil.parser.isoparse stands in for types-python-dateutil "
  "(not installable offline). The half 'every value admitted by a parameter annotation is accepted by the encoder' is proved only for values the decoder produces.",
  "Coq proof (typing of the decoder model) + in-Coq check of observed run-time values + mypy as search", "4/C11")

claim("C01",
  "PARTIAL by nature (aggregator): 'the whole file is in CPython's grammar / imports' has no model - compile(), static name resolution, import of every module in a fresh interpreter and tomllib are the search stage. "
  "Proved in Coq: python_identifier_valid (C09; every derived identifier is a valid non-keyword identifier under g_xid), all_sites_safe + site_sound (C05; on the regenerated interpolation-site table every site is safe and a "
  "safe site re-lexes to exactly its payload), attrs_order_ok + attrs_order_perm (the two class-body loops put every mandatory field before every defaulted one and lose none), module_names_closed (a module assembled from ANY "
  "list of properties reads only names provided by the header or the properties' own imports, given each property's fragments are closed) and the regenerated fact all_probe_modules_closed (GenClosed.v: in ~470 modules of probe "
  "packages covering every kind in every position, parameters in every location, bodies, responses and both enum styles, no name is read that nothing provides and every relative import resolves). Stage B: the written file set == "
  "Fs.gen_files on the parser's module/tag names (vm_compute). Stage C over atlas x flavours x switches, random documents and documents whose every name comes from the identifier-hostile quote-free alphabet.",
  "Trusted: Coq kernel+vm_compute; translators gen_closed.py/gen_sites.py/gen_tables.py; harness/lib/pyscope.py (pyflakes-like name resolution); CPython's compile/import as the judge of validity (not modelled).",
  "Coq proof of the ingredients + regenerated closure facts + in-Coq file-set correspondence; compile/import/tomllib as search", "4/C01")

claim("C17",
  "PARTIAL. Coq theorems about Norm.v, an executable model of the schema-level normalisations (pydantic after-validators handle_nullable / handle_exclusive_min_max; "
  "property_from_data dispatch order; EnumProperty/LiteralEnumProperty null extraction; UnionProperty member order anyOf, oneOf, type list with names <name>_type_<i> and flattening; "
  "ListProperty <name>_item; single-reference passthrough with default re-validation; inline class naming) producing an abstract property tree, for ALL schemas, environments, names and "
  "positions (no size bound): nullable_forms_equal / nullable_typelist_equal ({type:T,nullable:true} == {type:[T,null]}), nullable_oneof_equal / nullable_anyof_equal (nullable union == explicit null "
  "member appended - twice where the validators run twice), nullable_allof_equal (== oneOf[null,{allOf}], null first), typelist_anyof_equal (type list == anyOf of the single types), enum_null_equal "
  "(under g_enum_null: enum containing null == oneOf[{type:null},{enum: rest}] in exactly that member order with the same derived names / classes, any outer annotations), single_ref_wrapper + wrapper_exact "
  "(under g_wrapper: allOf|oneOf|anyOf:[$ref R] with ANY other keywords == $ref R; with a default: exactly the referenced class renamed and the default re-validated), excl_bool_numeric_equal, hx_idempotent, "
  "loader: parser_choice / json_parser_iff (JSON parser iff content type is exactly application/json), loader_dispatch / file_url_same / url_without_header_same (file and URL sources reach the same loader). "
  "Refutation witnesses for each guard complement and for non-congruence: enum_null_typelist_refuted, nullable_union_top_refuted, wrapper_default_refuted, wrapper_nullable_refuted, wrapper_not_congruent_refuted. "
  "Tie to the code on every run: B1 the real pydantic validators at the position the schema sits == Norm.pre_at/hx (~500 schemas quick); B2 the property objects built by build_schemas at component-root and "
  "attribute positions, default and literal_enums config == Norm.norm (~450 trees quick); B3 the parser _get_document really runs for 22 file/URL/content-type variants == Norm.choose_parser; a static check that "
  "`.nullable` is read only by the validator. Stage C (metamorphic, bytes): atlas + site-rich + random documents, every rewrite family (JSON vs YAML text, file vs in-process-patched URL with header variants, JSON text "
  "through the YAML loader, version string, nullable notations, type list vs anyOf, enum-null vs explicit union, wrapper vs bare $ref at attribute/items/additionalProperties/union-member/parameter/body/response "
  "positions, exclusive bounds) at random subsets of applicable positions, whole trees compared byte for byte (~120 pairs quick, ~1500 thorough); differences classified by the Coq guards (re-evaluated in Coq on every "
  "rewritten site) and the position class into six listed findings or VIOLATION with (documents, rewrite, positions, first differing file+line).",
  "Trusted / not proved: json.loads and ruamel YAML(typ=safe) are oracles WITHOUT law - their agreement on a document is sampled, not proved (that is why the claim is partial); mimetypes.guess_type and httpx are "
  "runtime oracles (httpx.get is patched in-process); the tree abstracts a property to kind, names, class names, member order, enum values and raw default: Jinja rendering of a tree to bytes is covered only by the "
  "byte-level sampling; default conversion (C13), enum member keys (C14), properties inside inline models (C15) and class-name collisions are other properties' subjects and carried opaquely; the double run of the "
  "after-validators under non-Schema parents is an observed behaviour of the pinned pydantic, modelled and checked by B1. Unquoted YAML scalars that a JSON serialisation cannot express (e.g. response key 200 as an integer) "
  "are different documents, not notation variants.",
  "Coq proof (structural, all schemas) + in-Coq differential correspondence (validators, parser trees, loader) + byte-level metamorphic search classified by the Coq guards", "4/C17")

def main():
    checks = []
    for pid in ALL:
        if pid not in CLAIMS:
            continue
        c = CLAIMS[pid]
        checks.append({
            "property_id": pid,
            "quick_cmd": f"{CHECK} {pid} --tier quick",
            "thorough_cmd": f"{CHECK} {pid} --tier thorough",
            "evidence_file": f"/verif/evidence/{pid}.json",
            "replay_cmd_template": f"{CHECK} {pid} --replay {{path}}",
            "engine": "coq-proof+correspondence",
            "level_claimed": {"category": "proof", "text": c["text"], "design_ref": c["design_ref"]},
            "level_note": c["note"],
            "technique": c["technique"],
        })
    m = {
        "version": 1,
        "setup_cmd": "/venv/bin/python /verif/harness/setup.py",
        "hooks": {"guard": "OPENAPI_PYTHON_CLIENT_VERIF", "enable": "no hooks are needed: the harness imports /repo directly (PYTHONPATH=/repo) and observes generated clients from outside",
                  "baseline_off_cmd": "cd /repo && /venv/bin/python -m pytest -ra -q -p no:cacheprovider --timeout=900 --continue-on-collection-errors",
                  "source_commits": [], "add_only": True},
        "engines": [{"name": "coq-proof+correspondence", "path": "/verif/coq + /verif/harness", "serves_properties": sorted(CLAIMS),
                     "kind_free_text": "Coq 8.16 development (hand-written executable model + theorems, facts regenerated from /repo) and a Python harness that evaluates the model inside Coq on the implementation's observed behaviour"}],
        "checks": checks,
        "not_applicable": [{"property_id": p, "reason": "check under construction in this session (DESIGN.md section 8 build order); not yet claimed"} for p in ALL if p not in CLAIMS],
        "notes": "See DESIGN.md. Every check: stage A regenerate+prove, stage B correspondence, stage C oracle; known findings in /verif/known_findings.json.",
    }
    json.dump(m, open("/verif/MANIFEST.json", "w"), indent=1)
    print("claimed:", sorted(CLAIMS))

if __name__ == "__main__":
    main()
