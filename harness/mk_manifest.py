#!/usr/bin/env python3
"""Writes /verif/MANIFEST.json from the table below (kept in one place so it is always valid)."""
import json
CHECK = "/venv/bin/python /verif/harness/check.py"
ALL = [f"C{i:02d}" for i in range(1, 21)]
CLAIMS = {}
def claim(pid, text, note, technique, design_ref):
    CLAIMS[pid] = dict(text=text, note=note, technique=technique, design_ref=design_ref)

claim("C09",
  "Coq theorem python_identifier_valid: for every string and every good prefix, under the guard g_xid, the model of PythonIdentifier returns a valid non-keyword identifier "
  "(unbounded; table facts re-proved by vm_compute reflection on Unicode/keyword tables regenerated from the interpreter and /repo on every run); refutation witnesses for the guard's complement "
  "(a², raw-name fallback). The model Names.v is tied to utils.py by a correspondence check evaluated inside Coq on ~25k (function,string) cases per quick run, and an oracle "
  "(isidentifier/iskeyword, per-scope distinctness through the real parser) classifies failures by the Coq guard into known findings vs violations.",
  "Trusted: Coq kernel+vm_compute; gen_tables.py translator; CPython str/re semantics; the hand-written model's regex semantics (validated by correspondence only); scope-level collision logic is checked by oracle, not proved.",
  "Coq proof (induction + table reflection) + in-Coq differential correspondence", "4/C09")

claim("C19",
  "Coq theorems on the file-tree state machine Fs.v (model of Project.build): no_overwrite_untouched; build_postcondition (after one generation every generated path holds fresh content, "
  "nothing else remains under models/ and api/, every other path is untouched); overwrite_converges and user_files_untouched for EVERY history of generations and user writes (induction over histories, "
  "no length bound); writes_confined + derived_component_safe/derived_module_safe/project_name_chars (every path component derived from any document string through PythonIdentifier/kebab_case "
  "is non-empty, not a dot segment and free of / \\ NUL . quotes: Unicode table facts re-proved on regenerated tables). The model is tied to the code by comparing, after every step of random "
  "histories x metadata flavours, the real directory tree with Fs.run applied to the module/tag names the parser produced (evaluated inside Coq); an oracle compares bytes with a fresh generation and "
  "checks sentinel files around the output directory for hostile titles/tags/names.",
  "Trusted: Coq kernel+vm_compute; OS filesystem semantics (pathlib/shutil) are not modelled; the model abstracts file contents to (generation id | user tag); user files inside models/ and api/ are deleted by design (rmtree) and the theorem says so; project_name_override/package_name_override are configuration and used raw.",
  "Coq proof (invariant over histories) + in-Coq differential correspondence on directory histories", "4/C19")

def main():
    checks = []
    for pid in ALL:
        if pid not in CLAIMS:
            continue
        c = CLAIMS[pid]
        checks.append({
            "property_id": pid,
            "quick_cmd": f"{CHECK} {pid} --tier quick",
            "thorough_cmd": f"{CHECK} {pid} --tier thorough",
            "evidence_file": f"/verif/evidence/{pid}.json",
            "replay_cmd_template": f"{CHECK} {pid} --replay {{path}}",
            "engine": "coq-proof+correspondence",
            "level_claimed": {"category": "proof", "text": c["text"], "design_ref": c["design_ref"]},
            "level_note": c["note"],
            "technique": c["technique"],
        })
    m = {
        "version": 1,
        "setup_cmd": "/venv/bin/python /verif/harness/setup.py",
        "hooks": {"guard": "OPENAPI_PYTHON_CLIENT_VERIF", "enable": "no hooks are needed: the harness imports /repo directly (PYTHONPATH=/repo) and observes generated clients from outside",
                  "baseline_off_cmd": "cd /repo && /venv/bin/python -m pytest -ra -q -p no:cacheprovider --timeout=900 --continue-on-collection-errors",
                  "source_commits": [], "add_only": True},
        "engines": [{"name": "coq-proof+correspondence", "path": "/verif/coq + /verif/harness", "serves_properties": sorted(CLAIMS),
                     "kind_free_text": "Coq 8.16 development (hand-written executable model + theorems, facts regenerated from /repo) and a Python harness that evaluates the model inside Coq on the implementation's observed behaviour"}],
        "checks": checks,
        "not_applicable": [{"property_id": p, "reason": "check under construction in this session (DESIGN.md section 8 build order); not yet claimed"} for p in ALL if p not in CLAIMS],
        "notes": "See DESIGN.md. Every check: stage A regenerate+prove, stage B correspondence, stage C oracle; known findings in /verif/known_findings.json.",
    }
    json.dump(m, open("/verif/MANIFEST.json", "w"), indent=1)
    print("claimed:", sorted(CLAIMS))

if __name__ == "__main__":
    main()
