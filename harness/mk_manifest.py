#!/usr/bin/env python3
"""Writes /verif/MANIFEST.json from the table below (kept in one place so it is always valid)."""
import json
CHECK = "/venv/bin/python /verif/harness/check.py"
ALL = [f"C{i:02d}" for i in range(1, 21)]
CLAIMS = {}
def claim(pid, text, note, technique, design_ref):
    CLAIMS[pid] = dict(text=text, note=note, technique=technique, design_ref=design_ref)

claim("C09",
  "Coq theorem python_identifier_valid: for every string and every good prefix, under the guard g_xid, the model of PythonIdentifier returns a valid non-keyword identifier "
  "(unbounded; table facts re-proved by vm_compute reflection on Unicode/keyword tables regenerated from the interpreter and /repo on every run); refutation witnesses for the guard's complement "
  "(a², raw-name fallback). Second half (names of one scope never merge silently), model Scopes.v, theorems in ScopesThm.v, all for name lists of any length: "
  "(a) model attributes (_add_if_no_conflict/_resolve_naming_conflict as a fold): attrs_distinct (under g_no_raw_fallback the fold succeeds, nothing is renamed, python names are pairwise distinct and equal "
  "python_identifier n prefix false) + attrs_valid (then valid non-keyword identifiers under g_xid); attrs_last_pair_distinct (without the guard, exactly what one successful step guarantees: every earlier "
  "property that collided with the new one's default name ends apart from it, and a new property that keeps its default name differs from all) + add_attrs_snoc; refutations attrs_distinct_refuted "
  "(Self, self!, $Self -> two attributes named Self) and raw_fallback_not_identifier_refuted (a-b, a_b -> field_a-b). "
  "(b) endpoint parameters (_check_parameters_for_conflicts with its dictionary, modified set - including the mis-keyed add - and re-run): conflict_check_terminates (fuel length+1, in fact 2, suffices: the re-run test compares "
  "the set with itself); check_params_keys (no parameter lost or re-keyed); params_distinct_quiet (success + last run of the loop quiet => pairwise distinct, none is client/url; run-time guard g_last_pass_quiet); "
  "params_distinct / model_params_distinct (static guard g_no_raw_fallback over all parameter names: success => exactly client/url renamed to <name>_<location>, pairwise distinct); params_distinct_refuted "
  "(path x_header_path, path x_header, query X, header x -> two parameters x_header_path, no error); the two lists of one operation (model_params2: operation-level add_parameters call, then the path-item-level call - "
  "absent list = no check, shadowed keys ignored (compared with the ESCAPED stored name, as the code does), the check runs over ALL parameters with the names the first call left): model_params2_distinct_quiet "
  "(any split of the parameters between the two lists: no error + last run of the last executed check quiet => pairwise distinct, none client/url), model_params2_distinct (static guard), model_params2_keys. "
  "(c) enum member keys: values_from_list_keys_nodup (Values.v). (d) classes: classes_distinct_or_error (generated class names pairwise distinct; every schema generated or reported; of two schemas with one derived "
  "ClassName the later is reported) and modules_unchecked_refuted (AB / Ab: two classes, one module ab); the class-name scope WITH enums (EnumProperty.build: member table first, then `values != existing.values` as dict "
  "equality, equal twin replaces the entry, enum vs model reported): enum_classes_distinct_or_shared (class names pairwise distinct; every generated enum class holds exactly the member table of one declared value list; "
  "two unreported enums with one class name have the same member names with the same values; an enum and a model of one class name are never both kept); the fold is also stated for ANY table builder "
  "(decls_distinct_or_shared_g, Section over tbl with NoDup keys) and instantiated for literal_enums: true, where LiteralEnumProperty.build has its own copy of the guard over value SETS (model_decls_lit, table keyed by the "
  "value itself so that table_eqb is set equality): literal_classes_distinct_or_shared. "
  "(e) attributes of a schema composed with allOf, where merging (Merge.v, C15) and the name-conflict scan interact: ProcProps.v models the loop of _process_properties over the incoming properties "
  "(referenced members' properties with the python names their own processing left on them, own properties, inline members' properties) - merge with the stored property of the same document name "
  "(Merge.add_prop), python name of the merged object = that of whichever side _merge_common_attributes takes as base (base_is_new, branch by branch), scan over the other entries SKIPPING the same-name entry "
  "(Scopes.scan_conflicts reused), store - and the document level (leaf members processed first, required-first order, required-set union). ProcPropsThm.v, for ALL incoming lists: process_names_exact (exactly the "
  "incoming document names, each once, in order of first appearance), process_collect (payloads = Merge.collect, so C15's theorems hold for the real loop), process_python_names_distinct (incoming names default + "
  "g_no_raw_fallback on the distinct document names => never the naming diagnostic, nothing renamed, python names = default names, pairwise distinct), process_quiet_distinct (NO static guard, arbitrary incoming "
  "python names: a successful run without any raw-name fallback - run-time guard g_quiet - ends with pairwise distinct python names; this is where a merged property whose python name reverted to the new "
  "declaration's one must be compared with every other entry), add_pp_guarantee (no guard: what one step guarantees), process_doc_flat / process_doc_quiet_distinct / process_doc_python_names_distinct (the same for the composed "
  "schema of a document), process_step_distinct_refuted (member {fooBar, FooBar}, then Foo_bar, $foo_Bar, foo_Bar, then fooBar re-declared as date: distinct before the merge step, two attributes foo_Bar after it; "
  "confirmed on the real parser; same call site as attr_rename_unchecked), non-vacuity process_merge_fallback (startDate, start_date, startDate re-declared as date) and process_guard_nonvacuous. "
  "Correspondence evaluated inside Coq: ~25k (function,string) cases per quick run for Names.v; ~1.7k name lists per quick run for Scopes.v through the real property_from_data (object schema -> python names or "
  "'Conflicting property names'), Endpoint.add_parameters (python names in iteration order or ParseError) and GeneratorData.from_dict (class names + duplicate-model errors); ~700 splits per quick run of one operation's parameters between the path-item list and the operation list "
  "(0+1, 1+0, 1+1, 1+n, n+1, n+m, absent vs empty list, lone client/url/keyword, names colliding across the lists in the same and in different locations, keys present in both) through the two real "
  "Endpoint.add_parameters calls == Scopes.model_params2, and ~50 of them as documents through the whole generator (endpoint module must compile and _get_kwargs must take exactly those python names, or a diagnostic is printed); "
  "~250 declaration sequences per quick run under literal_enums: true (equal / permuted / proper subset / superset / overlapping / disjoint / other-type value sets, both orders, inline x component x model) through a threaded real "
  "property_from_data == Scopes.model_decls_lit, plus ~100 documents (component enum x inline property x second holder AB{c} vs A{b_c} x enum PARAMETER of an operation) through GeneratorData.from_dict with the oracle: every generated "
  "Literal alias holds exactly one declared value set and every unreported declaration is represented; ~350 declaration sequences (enum twins whose member names coincide while values differ in case / delimiters / VALUE_n form, inline enums, "
  "object schemas) through a threaded real property_from_data and ~120 documents through GeneratorData.from_dict vs Scopes.model_decls; for ~30 generated trees per quick run (operationIds / tags / schema names from a hostile pool: "
  "leading digits, symbols only, empty, keywords) the api/<tag>/, api/<tag>/<operation>.py and models/<class>.py names are compared in Coq with Names.python_identifier of the parsed names (oracles on the same outputs: every generated "
  "enum class holds exactly one declared value list and every unreported declared enum is held by some class; every directory and .py stem of a generated tree is a valid non-keyword identifier); ~1k (quick) / ~14k (thorough) random components-only documents "
  "(composed schema Z = allOf of 2-4 referenced / inline objects + own properties over name families that collide after snake-casing, kinds any/string/date/date-time/integer/number/string and int enums inline and by $ref, "
  "frequent re-declaration with type refinement) through GeneratorData.from_dict: Z's (name, python_name, property class, enum values, required) in required-then-optional order, or which of the three diagnostics "
  "(merge / same python_name / member not processed), == ProcProps.process_doc inside Coq; on the same outputs the oracle demands pairwise distinct valid python names and accepts a duplicate as attr_rename_unchecked only when "
  "the model of the unchanged algorithm itself yields a duplicate on that document and g_quiet is false. The oracle "
  "(isidentifier/iskeyword/pairwise distinct/not reserved on the implementation's own output, plus name sets through the full parser) classifies failures by the Coq guards evaluated on the failing input into known findings vs violations.",
  "Trusted: Coq kernel+vm_compute; gen_tables.py translator; CPython str/re semantics; the hand-written models' regex/dict semantics (validated by correspondence only); str.lower() final-sigma context rule is not modelled "
  "(strings compared modulo sigma fold; scope name lists avoid U+03A3); same-name properties arriving through allOf are modelled in ProcProps.v with these abstractions: `prop1 == prop2` also compares python_name (Merge.merge returns p1 where the code copies it with its own default converted again), referenced members are leaf object schemas and the composed schema is listed before them, so that it is attempted once (a schema listed after its members is re-attempted by _process_models on property objects whose python names the failed first attempt already changed in place - observed: member {a$B}, own aB: diagnostic when Z is listed first, success with python names aB / a_b when listed last; a referenced member's own attribute is renamed in place when a child collides with it); inline enum class-name conflicts are avoided by the generator; class_overrides are outside (C16); tag/operation module scope is checked by oracle only.",
  "Coq proof (induction + table reflection) + in-Coq differential correspondence", "4/C09")

claim("C19",
  "Coq theorems on the file-tree state machine Fs.v (model of Project.build): no_overwrite_untouched; build_postcondition (after one generation every generated path holds fresh content, "
  "nothing else remains under models/ and api/, every other path is untouched); overwrite_converges and user_files_untouched for EVERY history of generations and user writes (induction over histories, "
  "no length bound); writes_confined + derived_component_safe/derived_module_safe/project_name_chars (every path component derived from any document string through PythonIdentifier/kebab_case "
  "is non-empty, not a dot segment and free of / \\ NUL . quotes: Unicode table facts re-proved on regenerated tables). The model is tied to the code by comparing, after every step of random "
  "histories x metadata flavours, the real directory tree with Fs.run applied to the module/tag names the parser produced (evaluated inside Coq); an oracle compares bytes with a fresh generation and "
  "checks sentinel files around the output directory for hostile titles/tags/names.",
  "Trusted: Coq kernel+vm_compute; OS filesystem semantics (pathlib/shutil) are not modelled; the model abstracts file contents to (generation id | user tag); user files inside models/ and api/ are deleted by design (rmtree) and the theorem says so; project_name_override/package_name_override are configuration and used raw.",
  "Coq proof (invariant over histories) + in-Coq differential correspondence on directory histories", "4/C19")

claim("C13",
  "Coq theorems on Values.v (model of every property class's convert_value) and PyEval.v (evaluator of the emitted default-expression sub-language): default_sound (for the ten scalar kinds and EVERY JSON value "
  "inside the guard default_class = 0, an accepted default's emitted Python expression evaluates to the typed value the document declares: int, bool, float token, string, date/date-time via isoparse, UUID), "
  "default_complete (inside the guard a value that denotes nothing of the kind is rejected with a PropertyError), default_null; unguarded per-kind characterisations conv_int/bool/float_sound+complete "
  "(what the lenient conversions accept is exactly int_meaning/bool_meaning/float_meaning), conv_date/datetime/uuid_sound, conv_enum/litenum/const_sound, conv_union_first; one `_refuted` witness per non-zero "
  "guard class (float_token, string/int/bool lenient, default_dq, nonfinite crash, uuid raw, union_first_match, enum_default_dq). float()/isoparse/UUID are record fields (explicit premises, no axioms). "
  "Defaults that travel: ref_default_revalidated / ref_default_not_dropped / ref_default_sound / ref_default_complete on RefDefault.v (model of _property_from_ref: the default declared next to a $ref or a "
  "single-$ref allOf/oneOf/anyOf wrapper is convert_value of the REFERENCED kind on the raw value, a non-null value such as 0, 0.0, false or the empty string is never dropped - conv_ok_none) and merge_default_reconverted / "
  "merge_last_default_wins / merge_last_default_sound on Merge.common (model of _merge_common_attributes: every override default is re-converted by the final narrower kind or the merge is an error; a stored Value is never reused); nullable_default_carried / nullable_default_not_dropped on RefDefault.nullable_enum_default (the oneOf[null, enum] rewrite of an enum with a null member carries the outer default, in both enum styles). "
  "The model is tied to the code by evaluating Values.convert_value inside Coq on ~8.5k (kind, value) cases per quick run against the real classes (direct convert_value and property_from_data with `default`), the "
  "oracle record being instantiated from the real float()/isoparse/UUID results; stage B also covers defaults next to references (every falsy and ill-typed falsy value) and merge_properties on same-class / narrowing pairs (vs Merge.merge); stage C generates documents with defaults in model properties and query/header/cookie parameters (inline, behind single-$ref wrappers, composed through allOf[$ref Base, $ref Ext] in both orders, on enums with a null member in both enum styles, and on two enum sites that share one class name with equal values and different / invalid defaults), executes the generated code in a fresh "
  "interpreter (attribute after no-arg construction, to_dict, inspect.signature defaults) and classifies every deviation by the Coq guard into listed findings or VIOLATION.",
  "Trusted: Coq kernel+vm_compute; the oracles float()/str(float)/isoparse/UUID (only their tabulated results and the token class of str(float), sampled each run); the model's string-literal lexer does not decode "
  "\\x/\\u escapes, so defaults that are not repr-printable (class 9) and list/dict defaults of Any are covered by correspondence+oracle only; the stale first-member default of an enum/enum merge that switches class is the listed finding merge_enum_default_stale_class.",
  "Coq proof (case analysis over kinds x JSON constructors, literal round-trip lemmas) + in-Coq differential correspondence + executed-client oracle", "4/C13")

claim("C14",
  "Coq theorems on Values.values_from_list and Enums.v (model of enum build, the generated Enum/IntEnum classes, Literal sets, check_ functions, nullable-enum union decoder and const check): vfl_members_sub "
  "(no invented member, any input), vfl_exact + keys_nodup (under g_enum_sanitised_distinct the table is exactly the declared values), enum_exact_str (under g_no_bs_nl and g_enum_sanitised_distinct: the class "
  "exists, every listed string decodes to a member whose .value is that string, whatever decodes is a listed string, everything else raises, no other members), enum_exact_int (no guard; int tables never raise), "
  "enum_dup_reported (a raw key equal to an earlier stored name raises, is never merged), literal_enum_exact, null_makes_nullable / no_null_plain / nullable_accepts_null, const_exact + py_eq_same_type; "
  "unreported_enum_class_exact / twins_share_only_equal_tables (on Scopes.model_decls, the model of EnumProperty.build's same-class-name test: an unreported enum holds under its class name exactly its own member table; equal member names with different wire values are reported, never merged); "
  "enum_text_str / enum_text_int (Enums.enum_text: str(member) = format(member) = the text of the declared value - what header and path parameters send); "
  "`_refuted` witnesses: enum_silent_merge, enum_dup_crash, enum_backslash, nullable_passthrough, numeric alias (enum and const), const quote. All for unbounded lists/strings (induction), Unicode table facts "
  "regenerated. Tied to the code by (a) EnumProperty.values_from_list / EnumProperty.build / LiteralEnumProperty.build vs the model on hostile value lists, (a') documents with two enums deriving one class name (inline/inline, inline/component, property/parameter; case, delimiter, VALUE_n and int-vs-string twins) vs Scopes.model_decls plus a document oracle (every enum property generated without a diagnostic accepts exactly the values its own schema lists), (b) generated classes of both enum styles imported in a fresh "
  "interpreter: members, *_VALUES sets and the from_dict decode of every probe value (listed, same-type unlisted, Python-equal of another type, other types, null) and const checks vs the model, all evaluated inside Coq; "
  "(c) str()/format()/f-string of every generated member vs Enums.enum_text, and enum parameters (string and int, component and inline, both styles) in all four locations called once per member behind httpx.MockTransport, the captured path / query / header / cookie compared with the document's value text; stage C evaluates the property's predicate on the generated classes and classifies deviations by the Coq guards.",
  "Trusted: Coq kernel+vm_compute; CPython Enum value lookup / set membership / == as modelled by enum_lookup / literal_check / py_eq (correspondence only); identifiers are NFKC-normalised by CPython (member names are "
  "compared modulo that map); g_repr_printable and brace-free consts delimit the model's literal lexer (not defect classes); inline vs referenced enums share EnumProperty.build and are not distinguished.",
  "Coq proof (induction over value lists, literal round-trip lemmas) + in-Coq differential correspondence on parser and executed generated classes", "4/C14")

claim("C02",
  "Coq theorem CodecThm.roundtrip (exported as C02_roundtrip): for EVERY class table, property kind, JSON instance and nesting depth, if the schema is inside the static guard (k_ok/table_ok: union members "
  "pairwise distinguishable by JSON tag, no const inside a multi-member union, no File in a JSON model) and the instance is schema-valid with canonical date/date-time/uuid text, then the model of the generated "
  "from_dict accepts it and the model of to_dict re-encodes the decoded object to the SAME JSON value (objects are finite maps); corollaries decode_reencoded, additional_preserved, wire_names_exact; four "
  "`_refuted` witnesses show each guard conjunct is necessary (each is a listed known finding of the generated union code) and a non-vacuity example. Proof by induction on decoder fuel with one lemma per generated loop "
  "(list / model field loop / additional properties / union try-chain and isinstance-chain). Which kinds have construct/transform/check macros is read from GenKinds.v, regenerated from the real templates on every run. "
  "The model Codec.v is tied to the code by executing the GENERATED from_dict/to_dict in a fresh interpreter on ~1600 (quick) instances over an atlas of documents (every kind x position, all ordered union pairs, recursion, "
  "additionalProperties variants, allOf) plus random schema graphs, and comparing decoded object structure and re-encoded output (or exception) with Codec.dec/enc evaluated by vm_compute on the property trees abstracted from "
  "the implementation's own parse; an oracle checks to_dict(from_dict(j)) == j, from_dict(to_dict(x)) == x and json.dumps on every instance inside the theorem's guard (guard evaluated in Coq).",
  "Trusted: Coq kernel+vm_compute; gen_kinds.py translator; the abstraction function harness/lib/absprop.py and the value serialiser harness/lib/client_runner.py; dateutil.isoparse/uuid.UUID as oracles (canonical re-formatting "
  "supplied per shard); floats are opaque non-integral tokens; attrs __eq__ = structural equality; wrong container types in direct (non-union) positions are outside the model and never generated; multipart encoding not modelled.",
  "Coq proof (fuel induction over a denotational codec model) + in-Coq differential correspondence against executed generated code", "4/C02")

claim("C05",
  "Coq theorems (PyLitThm.v, SitesThm.v; all Closed under the global context). Lexer level, for ALL strings and continuations: dq_literal_roundtrip (text through remove_string_escapes between double "
  "quotes re-lexes character for character and the lexer resumes after the closing quote, guard no_bs_nl), raw_in_dq / raw_in_dq_quote_breaks, docstring_safe / docstring_escaped_safe (helpers.jinja "
  "safe_docstring yields one literal for every content without a triple quote; escaped text never has one), repr_roundtrip_printable, lit_site (an inert image between plain template text inside one "
  "literal: composition lemma by induction), identifier_slot_safe (PythonIdentifier / ClassName / kebab_case / enum-key images contain, inside ASCII, only word characters and '-': Unicode case-map facts "
  "re-proved by vm_compute on regenerated tables). Site level: the table gen_sites (slot x file kind x lexical context x sanitiser class, ~500 rows) is REGENERATED ON EVERY RUN from the generator's output "
  "(canary probes, tokenize / TOML scanner); all_sites_safe : forallb site_safe gen_sites = true by vm_compute; site_sound : for every acceptable site and every payload inside its computable slot_guard the "
  "emitted text re-lexes (PyLit lexers) to exactly the payload / the sanitised identifier / a plain number, with the lexer resuming after the literal. The slot atlas has one slot per named thing and per schema "
  "SHAPE that takes a different parser path (inline scalar/object/enum, direct $ref to model/enum, allOf/oneOf/anyOf wrappers, unions, arrays, allOf members, additionalProperties/items objects, parameters per "
  "location incl. path-item and component parameters), colliding name pairs (raw-name fallback PythonIdentifier(skip_snake_case=True), class SSanitize), validated path-parameter names (SRejects), enum values "
  "whose first character is not a letter (the positional VALUE_<i> branch of values_from_list: separate sites), and default values of EVERY kind that turns a string default into code (date, date-time, uuid, "
  "string, enum member, const, int/float given as strings, union members) in models and in query/header/cookie parameters, classified by HOW the text is emitted: repr-emitted literals and normalised numbers "
  "are acceptable, a HAND-QUOTED default is not, for any kind (handquoted_default_refuted; a preceding isoparse()/UUID() validation is not a guarantee). Sites that are safe only on a narrow domain are listed "
  "one by one in Sites.known_narrow with a finding id and a ..._refuted witness (desc_code_exec, meta_injection, path_injection, content_type_injection, const_fstring, literal_enum_default_docstring; "
  "class-level: name_backslash, nul_char, linesep_newline, default_not_verbatim, xid_gap, raw_fallback); a new raw interpolation / comment / code context / unescaped path / hand-quoted default makes a "
  "regenerated row unacceptable and the obligation all_sites_safe fails. "
  "Correspondence (evaluated inside Coq): escape_dq, py_repr, lex_string, safe_docstring (against the REAL Jinja macro), lex_docstring, TOML guard vs utils.remove_string_escapes / repr / tokenize+"
  "ast.literal_eval / tomllib on ~6k hostile cases per quick run (61k thorough); the site table vs a second, differently shaped probe document. Oracle: ~1350 generated trees per quick run (emitted slots x 15 "
  "suffix payload classes - in the quick tier one seed-chosen representative per site signature gets all classes, every other slot four - ; every enum-value slot x 6 FIRST-CHARACTER payloads (digit, quote, "
  "backslash, space, brace, an import-time sentinel) under class-enum and literal-enum rendering; every validated-format default slot x validator-passing hostile values (YYYY-MM-DD<c>HH:MM:SS with c in "
  "quote/double quote/backslash/newline/NUL/brace/#; uuid with braces, urn:, surrounding newline/tab/U+2028, '+'; numbers with whitespace, sign, exponent); packed absent slots; random multi-slot "
  "combinations): compile()/tomllib, AST shape equal to the canary-only rendering, payload marker only inside string tokens or sanitised identifiers, every Enum member / Literal[...] element / value-set element "
  "a plain ast.Constant, stand-alone enum modules executed in a fresh interpreter must not run document text (import-exec sentinel), run-time-meaningful constants equal to the document text, literals handed to "
  "isoparse()/UUID() equal to the document text and numeric defaults equal to the validator's reading; every failure is classified by evaluating the Coq slot_guard of the sites of that slot in that file.",
  "Trusted: Coq kernel+vm_compute; translator gen_sites.py and the probe grammar harness/lib/probe.py (slot coverage = the probed slots listed in GenSites.v; pydantic str positions it does not fill are listed in "
  "evidence as unreached_fields); the sanitiser class of a site is inferred from one benign-specials probe (per kind for validated-format slots) and confirmed only by the oracle; CPython's tokenizer beyond "
  "string literals, f-string replacement fields (modelled as: a brace in document text is code), Jinja wordwrap (assumed whitespace-only; indent only through the no_linesep guard conjunct) and "
  "octal/\\x/\\u/\\N escape decoding are not modelled (lexer answers None; repr round trip proved for printable strings only); number normalisation is modelled only on plain decimals; bool/None defaults emit "
  "constants and are not traced; identifier VALIDITY of ClassName / enum keys rests on C09 (here only the character-class theorem); validator alphabets (isoparse, UUID, path-parameter regex, enum lookup) are "
  "stated in Sites.v comments and checked by the oracle, not proved; stage C workers use Jinja's bytecode cache (checked byte-identical to an uncached rendering each run). Repaired finding: "
  "uuid_default_whitespace (fc6e947).",
  "Coq proof (induction on strings + reflection on a regenerated site table) + in-Coq differential correspondence + generated-tree oracle classified by the Coq guard", "4/C05")

claim("C12",
  "Coq theorems (OrderThm.v): the Python string order str_leb is a total order (refl/total/antisym/trans); for the stable insertion sort ksort: py_sorted_perm_invariant "
  "(Permutation l l' -> sorted(l) = sorted(l'), all lists, no guard) and jinja_sort_perm_invariant (the Jinja `| sort` filter = stable sort on str.lower: same, under the guard keys_distinct lower l; "
  "jinja_sort_case_tie_refuted gives the witness for the guard's complement); sorted_emission_deterministic (a renderer whose loop sites all sort is invariant under ANY permutation of every set's enumeration order) "
  "and unsorted_refuted (any site list with one unsorted site has two enumerations with different output); on the table gen/GenLoops.v regenerated from the Jinja ASTs of all templates and an ast scan of "
  "openapi_python_client/**/*.py (every for/join/list/pop/f-string over a set-typed expression; set-typedness inferred from annotations): all_loops_sorted_except_known (vm_compute), all_loops_sorted_if_fixed, and "
  "rendering_verdict (if the lazy_imports loops are sorted then deterministic else a concrete pair of differing enumerations exists - holds before and after the fix). Order part (RetryThm.v): the "
  "retry-until-no-progress loop of _create_schemas/_process_models on an abstract dependency graph handles exactly the least fixed point Derivable (process_sound, process_complete with fuel |todo|+1), hence "
  "order_independent and clean_run_order_independent for every permutation of the to-do list; RegistryThm.v: re-registration of a class in Schemas.classes_by_name that only raises a flag (the multipart body copy of "
  "bodies.py) is order independent (sticky_order_independent), last-registration-wins is not (overwrite_refuted) except when all uses agree (overwrite_order_independent_if_consistent), and registrations_safe on the regenerated "
  "table of registration sites (first-only / compatibility-checked / sticky; anything else fails stage A); the _process_models loop WITH its recursive-allOf test (process_rec): with the exact test the processed set is still the "
  "least fixed point (process_rec_sound/complete, rec_exact_order_independent), a suffix-style test is order dependent (rec_sloppy_refuted), and recursion_test_is_exact on the regenerated shape fact (the test compares with \"/\"+class name); "
  "failed attempts of the fix-point leave no trace: failed_attempt_no_trace on the model, registries_are_persistent on the regenerated fact (no in-place insertion into classes_by_name/classes_by_reference/models_to_process), "
  "and the correspondence compares those registries of the real Schemas object before/after every failed update_schemas_with_data/process_model (dependencies may only grow); "
  "the case-insensitive sort key is injective on the pool of fixed import lines regenerated by gen_imports.py (probing get_imports/get_lazy_imports of every property class, required and optional, through the real parser, plus all "
  "import-looking literals of the sources): import_pool_keys_distinct, import_probe_complete, pool_imports_sorted_invariant; "
  "a sorted(set, key=...) in the parser counts as UNSORTED in the loop table (only the identity key is a total order on strings; Jinja's lower-case key needs the stated guard); create_retry_is_unconditional: _create_schemas queues every "
  "failed component whatever the error's data is; dict views of attributes iterated by templates (enum.values.items()) are table sites too: str_enum sorts (dictsort), int_enum does not (known finding int_enum_twin_order). Correspondence: Coq sort models vs the real Jinja filter/sorted() on random lists, and for every generated module the lines "
  "written by each loop site == Order.emit (sorted flag from the regenerated table) of the set in the generating process's own enumeration order. Oracle: byte comparison of whole trees generated in fresh interpreters "
  "across PYTHONHASHSEEDs and across permutations of components.schemas / paths / operations inside a path item (diagnostic-free documents; documents share models as multipart/json/form bodies and responses across operations, "
  "have several media types per body, inline body schemas and name pressure), plus a variant permuting only the media types of request bodies (may reorder the branches of that operation's module by design, nothing else), thorough also with the ruff post-hooks; differences are classified line-exactly into the known findings "
  "lazy_unsorted, sort_case_tie, addl_lazy_order, module_collision_order, int_enum_twin_order (a document that is diagnostic-free in one order and not in another is a violation), anything else is a violation with (documents, seeds, first differing file) as replay.",
  "Trusted: Coq kernel+vm_compute; gen_loops.py (name-based, conservative set-typedness inference; sites whose order only reaches diagnostic text (EDiag) or whose body commutes (ENone) are accepted); CPython's set iteration order is "
  "not modelled (theorems quantify over all orders, the oracle samples 6/16 hash seeds); str.lower() final-sigma rule; the abstract retry model Retry.v is tied to the code only by the permutation oracle (no abstraction function is run), "
  "and order independence of the CONTENTS of generated classes is checked by oracle, not proved; .ruff_cache is excluded from tree comparison. On the unchanged tree all_loops_sorted is false (known finding lazy_unsorted; fix in /verif/fixes/C12_lazy_sorted.diff).",
  "Coq proof (sorting/permutation, table reflection, least-fixed-point of the retry loop) + in-Coq emission correspondence + differential tree oracle over hash seeds and permutations", "4/C12")

claim("C15",
  "Coq theorems about Merge.v, an executable model of merge_properties.py (merge, _merge_common_attributes, _merge_with_enum, _merge_with_literal_enum, _merge_same_type incl. the list item recursion) "
  "and of the property-collection fold of _process_properties, for ALL property records (16 kinds, arbitrary enum tables / defaults / nested lists; no size bound): merge_required_or (merged property is required "
  "iff a member requires it), merge_kind_narrowest (result kind = narrow_kind: integer over number, date/date-time/file over string, enum or literal enum over its base type, any yields), merge_wf, "
  "merge_type_symmetric (under the guard g_merge both member orders give the same type: kind, enum value SET, the smaller enum, item type), merge_incompatible_symmetric (no common kind => a diagnostic in both orders), "
  "collect_names / collect_required (the composed class has exactly the members' property names, each once, required iff some declaration is), merge_nonvacuous; refutation witnesses for the guard's complement and for "
  "what the theorems deliberately do not claim: merge_first_wins_refuted, collect_order_refuted (three declarations: fold order matters), merge_enum_default_stale_refuted; process_collect / process_names_exact / "
  "process_required / process_doc_names_exact (ProcPropsThm.v: the full loop of _process_properties including the python-name conflict scan of C09 collects exactly what collect collects; correspondence in harness/props/c09.py). The model is tied to the code on every run by "
  "(1) ~24k (quick) / ~90k (thorough) calls of the real merge_properties on real property objects built by property_from_data - every ordered pair of 56 variants covering the 16 kinds (incl. enums whose generated member names coincide while the values differ: case / punctuation / VALUE_n) x required x default, plus "
  "hostile defaults - compared inside Coq with Merge.merge (MOk/MErr/MCrash, kind, required, default code + raw value, description/example, enum table / literal set / item / const / union / model identity), and "
  "(2) the real _process_properties on random allOf lists (referenced, composed and inline members, members carrying only `required`, required lists) compared with Merge.collect. Stage C generates exhaustive two-member and random chained documents "
  "(parents declared after children) in both member orders and checks the composed class in a fresh interpreter: attributes = union of member properties, required = OR over members, same annotation in both orders or a "
  "diagnostic in both, narrowest annotation, values outside the smaller enum refused, round trip of instances valid against all members, member classes unchanged by composition. Seven defect classes of the unchanged "
  "code are listed as known findings and classified by the Coq guard / exact structural tests.",
  "Trusted: Coq kernel+vm_compute; float()/isoparse/UUID enter Merge.merge as an oracle record tabulated from the real functions per run; union member identity and model identity are abstract tags (equality classes) in the model; "
  "the translation document -> declaration list (which required list applies to which property; single-$ref pass-through) is NOT modelled - it is covered by the collect correspondence and the end-to-end oracle, which is where "
  "allof_required_unapplied and allof_single_ref_drops_own were found; the accepted-set reading (C02 validity relation) of 'narrowest' is stated on kinds/payloads, not on JSON instances; description/default/example are order-dependent by design.",
  "Coq proof (case analysis over kinds + induction over nested lists / enum tables / member lists) + in-Coq differential correspondence + end-to-end oracle", "4/C15")

claim("C03",
  "Coq theorems on Endpoint.v, a model of the generated _get_kwargs: query/header/cookie placement (each argument appears under exactly its wire name, in its own location, with its encoded value), "
  "*_nothing_else (no other key is sent), *_unset_absent (unset optional arguments are not sent), method_literal, content_type_matches, security_demands_auth, and path_slots: for ALL path templates and "
  "parameter lists inside the guard (distinct names, plain python names, no python name equal to another parameter's wire name) the sequential str.replace placeholder rewrite of sort_parameters followed by "
  "str.format fills every {wire name} slot with its own argument; refutation witness multi_body_same_type; Multipart.v (to_multipart parts) mp_*; Client.v (AuthenticatedClient life cycle as a state machine over "
  "a heap of aliased headers dicts and cached httpx clients): own_credential - for EVERY sequence of new / evolve / with_headers / with_timeout / token assignment / sync+asyncio use inside the guard, each use carries exactly the "
  "client's own credential - and derived_sends_own_token, with three refutations showing the guards are necessary; Cookies.v (cookie jars of clients: snapshots at first use, with_cookies also updating the original's live httpx clients): "
  "cookies_sent - for EVERY sequence each request carries exactly the client's own jar overridden by what was added through that very client after its httpx client was built. The model is tied to the code by executing the GENERATED _get_kwargs in a fresh interpreter on an atlas "
  "of operations (every parameter kind x location, out-of-order path parameters, path-item overrides, one name in several locations, reserved names, bodies, security) plus random operations and comparing "
  "method/url/params/cookies/headers/json/data with Endpoint.get_kwargs evaluated by vm_compute; an oracle compares the request captured behind httpx.MockTransport (sync and asyncio variants, with the generated "
  "client building its own httpx client incl. credential header) with an expectation computed from the document; client operation sequences (fixed + random, a quarter outside the guard) are run on the generated "
  "AuthenticatedClient and every observed auth-header list is compared with Client.run.",
  "Trusted: Coq kernel+vm_compute; gen_kinds.py; abstraction harness/lib/epwork.py+absprop.py; client_runner.py; httpx request encoding is outside the model (the theorem stops at the kwargs dict; the captured request is compared by the "
  "oracle only); octet-stream bodies are not modelled; httpx.Headers semantics (case-insensitive list, __setitem__, update) and attrs.evolve aliasing are modelled by hand in Client.v and validated only by the correspondence; set_httpx_client is not modelled; str.format is modelled for plain {identifier} fields only.",
  "Coq proof (list/map invariants; string-rewrite theorem) + in-Coq differential correspondence against executed generated code", "4/C03")
claim("C04",
  "Coq theorems on Endpoint.v's model of the generated _parse_response: documented_status_decoded (a documented status is decoded from the documented source json/text/bytes/none with the documented schema's decoder, "
  "first declaration wins), no_schema_no_value, undocumented_status (None, or UnexpectedStatus when raise_on_unexpected_status), parsed_value_typed (the parsed value inhabits the annotated type; uses the C02/C11 codec theorems), "
  "status_alias refutation. Tied to the code by executing the GENERATED _parse_response on canned httpx.Response objects (every documented status x valid / near-valid / non-JSON / text / bytes / empty bodies, undocumented "
  "statuses, both flag settings) and comparing parsed value / None / UnexpectedStatus / other exception with Endpoint.parse evaluated by vm_compute; an oracle compares sync_detailed / asyncio_detailed results behind "
  "httpx.MockTransport (status, headers, content verbatim; parsed per document; variants agree) with an expectation computed from the document. Status.v models which keys of the responses map become a documented "
  "status (HTTPStatus(int(key)): conversion shape regenerated from the AST of Endpoint._add_responses, code table from http.HTTPStatus): accepted_is_registered, registered_three_digits, lettered_key_rejected (default / 2XX / 4xx ...), "
  "alias refutation; hostile and random keys are run through the real parser and compared with Status.status_of_key.",
  "Trusted: Coq kernel+vm_compute; abstraction epwork.py/absprop.py; client_runner.py; httpx's response.json()/text/content are oracles supplied per case; a File value is identified with its payload bytes.",
  "Coq proof (induction over the response list) + in-Coq differential correspondence against executed generated code", "4/C04")

claim("C10",
  "Coq theorems (all inputs): optional_absent_unset / unset_not_encoded / required_always_emitted / required_absent_error (an absent optional property reads back as UNSET and UNSET is never transmitted; a required one is always "
  "emitted and its absence is an error) on the Codec.v model of generated from_dict/to_dict; null_decodes_to_none / none_encodes_to_null / null_invalid_when_not_nullable; type_admits_none_iff_nullable (Types.v: the declared "
  "type admits None exactly when the kind has a null member) and optional_admits_unset; mandatory_iff_required_nodefault; query/header/cookie_unset_absent on Endpoint.v. Tied to the code on every run: get_type_string of every "
  "property compared (as a set) with Types.type_of, the document's nullability compared with Types.nullable of the parsed tree, and absent/present/null instances executed through the generated from_dict/to_dict compared with "
  "Codec.dec/enc (vm_compute), over the exhaustive grid kind x {required, optional, +default} x {none, 3.0 nullable, 3.1 type list, anyOf null, oneOf null, enum null member}; oracle on constructor / endpoint signatures and on "
  "requests captured with optional arguments omitted.",
  "Trusted: Coq kernel+vm_compute; tyabs.py (annotation text -> Types.ty), absprop.py, client_runner.py; parameter calls that httpx refuses (non-string cookie/header values, findings of C03) are unobservable and counted as such.",
  "Coq proof + in-Coq differential correspondence (annotations, nullability, executed generated code) over an exhaustive grid", "4/C10")
claim("C11",
  "PARTIAL by nature: mypy's accept/reject judgement is an external checker whose type system is not modelled - `mypy --strict` runs as the search stage only (its errors are violations or listed findings, its silence is not claimed as proof). "
  "Proved in Coq for all inputs: decode_inhabits_annotation (every value the model of from_dict produces from schema-valid data inhabits the modelled annotation type_of k), decoded_fields_inhabit (every attribute of a decoded object "
  "against its own, possibly optional, declaration), parsed_value_typed (response values against the return annotation member), and decoded values are accepted by the encoder (roundtrip). Tied to the code: every property / "
  "parameter / body / response annotation text is parsed and compared with Types.type_of, and every attribute of every object returned by the GENERATED from_dict on valid instances (atlas + random schema graphs, literal_enums off/on) "
  "is checked inside Coq to inhabit the modelled annotation.",
  "Trusted: Coq kernel+vm_compute; tyabs.py, absprop.py, client_runner.py; the denotation Types.inhabits (bool <: int <: float, datetime <: date); a 3-line stub for dateutil.parser.isoparse stands in for types-python-dateutil "
  "(not installable offline). The half 'every value admitted by a parameter annotation is accepted by the encoder' is proved only for values the decoder produces.",
  "Coq proof (typing of the decoder model) + in-Coq check of observed run-time values + mypy as search", "4/C11")

claim("C01",
  "PARTIAL by nature (aggregator): 'the whole file is in CPython's grammar / imports' has no model - compile(), static name resolution, import of every module in a fresh interpreter and tomllib are the search stage. "
  "Proved in Coq: python_identifier_valid (C09; every derived identifier is a valid non-keyword identifier under g_xid), all_sites_safe + site_sound (C05; on the regenerated interpolation-site table every site is safe and a "
  "safe site re-lexes to exactly its payload), attrs_order_ok + attrs_order_perm (the two class-body loops put every mandatory field before every defaulted one and lose none), module_names_closed (a module assembled from ANY "
  "list of properties reads only names provided by the header or the properties' own imports, given each property's fragments are closed) and the regenerated fact all_probe_modules_closed (GenClosed.v: in ~470 modules of probe "
  "packages covering every kind in every position, parameters in every location, bodies, responses and both enum styles, no name is read that nothing provides and every relative import resolves). Stage B: the written file set == "
  "Fs.gen_files on the parser's module/tag names (vm_compute). Stage C over atlas x flavours x switches, random documents and documents whose every name comes from the identifier-hostile quote-free alphabet.",
  "Trusted: Coq kernel+vm_compute; translators gen_closed.py/gen_sites.py/gen_tables.py; harness/lib/pyscope.py (pyflakes-like name resolution); CPython's compile/import as the judge of validity (not modelled).",
  "Coq proof of the ingredients + regenerated closure facts + in-Coq file-set correspondence; compile/import/tomllib as search", "4/C01")

claim("C17",
  "PARTIAL. Coq theorems about Norm.v, an executable model of the schema-level normalisations (pydantic after-validators handle_nullable / handle_exclusive_min_max; "
  "property_from_data dispatch order; EnumProperty/LiteralEnumProperty null extraction; UnionProperty member order anyOf, oneOf, type list with names <name>_type_<i> and flattening; "
  "ListProperty <name>_item; single-reference passthrough with default re-validation; inline class naming) producing an abstract property tree, for ALL schemas, environments, names and "
  "positions (no size bound): nullable_forms_equal / nullable_typelist_equal ({type:T,nullable:true} == {type:[T,null]}), nullable_oneof_equal / nullable_anyof_equal (nullable union == explicit null "
  "member appended - twice where the validators run twice), nullable_allof_equal (== oneOf[null,{allOf}], null first), typelist_anyof_equal (type list == anyOf of the single types), enum_null_equal "
  "(under g_enum_null: enum containing null == oneOf[{type:null},{enum: rest}] in exactly that member order with the same derived names / classes, any outer annotations), single_ref_wrapper + wrapper_exact "
  "(under g_wrapper: allOf|oneOf|anyOf:[$ref R] with ANY other keywords == $ref R; with a default: exactly the referenced class renamed and the default re-validated), from_ref_default_from_parent / ref_target_default_dropped / wrapper_target_default_dropped (the REFERENCED schema's own default never reaches the referring property, through a bare $ref or a wrapper: "
  "it carries the referring schema's default or none), items_congruence (3.1 tuple arrays prefixItems+items and every other use of items: each member may be written in any equivalent notation independently of its siblings - "
  "the builder never compares or merges sub-schemas, equal members are kept; members of a tuple are revalidated once more, again_is_top), union_members_congruence (same for anyOf/oneOf members outside the "
  "syntactic single-reference test), excl_bool_numeric_equal, hx_idempotent, "
  "loader: parser_choice / json_parser_iff (JSON parser iff content type is exactly application/json), loader_dispatch / file_url_same / url_without_header_same (file and URL sources reach the same loader). "
  "Refutation witnesses for each guard complement and for non-congruence: enum_null_typelist_refuted, nullable_union_top_refuted, wrapper_default_refuted, wrapper_nullable_refuted, wrapper_not_congruent_refuted. "
  "Tie to the code on every run: B1 the real pydantic validators at the position the schema sits == Norm.pre_at/hx (~500 schemas quick); B2 the property objects built by build_schemas at component-root and "
  "attribute positions, default and literal_enums config == Norm.norm (~450 trees quick); B3 the parser _get_document really runs for 22 file/URL/content-type variants == Norm.choose_parser; a static check that "
  "`.nullable` is read only by the validator. Stage C (metamorphic, bytes): atlas + site-rich + random documents, every rewrite family (JSON vs YAML text, file vs in-process-patched URL with header variants, JSON text "
  "through the YAML loader, version string, nullable notations, type list vs anyOf, enum-null vs explicit union, wrapper vs bare $ref at attribute/items/additionalProperties/union-member/parameter/body/response "
  "positions, exclusive bounds) at random subsets of applicable positions - including prefixItems members, items of tuple arrays, duplicated union members and duplicated allOf members whose sibling says the same thing in the same or another spelling - whole trees compared byte for byte (~125 pairs quick, ~2000 thorough); differences classified by the Coq guards (re-evaluated in Coq on every "
  "rewritten site) and the position class into six listed findings or VIOLATION with (documents, rewrite, positions, first differing file+line).",
  "Trusted / not proved: json.loads and ruamel YAML(typ=safe) are oracles WITHOUT law - their agreement on a document is sampled, not proved (that is why the claim is partial); mimetypes.guess_type and httpx are "
  "runtime oracles (httpx.get is patched in-process); the tree abstracts a property to kind, names, class names, member order, enum values and raw default: Jinja rendering of a tree to bytes is covered only by the "
  "byte-level sampling; default conversion (C13), enum member keys (C14), properties inside inline models (C15) and class-name collisions are other properties' subjects and carried opaquely; the double run of the "
  "after-validators under non-Schema parents is an observed behaviour of the pinned pydantic, modelled and checked by B1. Unquoted YAML scalars that a JSON serialisation cannot express (e.g. response key 200 as an integer) "
  "are different documents, not notation variants.",
  "Coq proof (structural, all schemas) + in-Coq differential correspondence (validators, parser trees, loader) + byte-level metamorphic search classified by the Coq guards", "4/C17")

claim("C06",
  "PARTIAL. Proved in Coq about the executable model Cli.v (20 theorems in props/C06.v, all closed under the global context, for ALL inputs of the model): exit_status (exit code <> 0 <-> an ERROR-level "
  "diagnostic exists, or fail_on_warning and the list is non-empty, for every diagnostic list); reject_writes_nothing / reject_is_error (a loader or validation error leaves the Fs.v tree unchanged and is reported "
  "as exactly one ERROR-level diagnostic, exit 1); crash_writes_nothing, no_crash_in_guard + scalar_document_crash_refuted / missing_parent_dir_refuted (the two uncaught-exception sites of the pinned code are "
  "modelled, switched by the regenerated facts gen_scalar_guard / gen_mkdir_parents, now both true after the fix commits); errors_are_values / errors_reach_cli (the list handed to handle_errors is exactly "
  "collection.parse_errors ++ schemas.errors ++ parameters.errors ++ Project.errors: no stage drops a diagnostic, each is printed, an ERROR-level one forces exit 1); loops_terminate (the retry-until-no-progress loop of "
  "_create_schemas/_process_models/build_parameters, for EVERY step function S -> item -> S * {done, re-queue e, drop e}: ends by its own exit test within |worklist|+1 rounds; the fuelled function realises the "
  "fuel-free big-step semantics Runs, which is deterministic; fuel_irrelevant), loop_errors_complete / last_round_all_reported (no error of the loop is lost), retry_process_terminates (Retry.v of C12 is an instance); "
  "body_ref_terminates (request-body $ref chain stops within |components|+1 steps), cycle_is_error, circular_is_cycle, chain_resolves; code_shape (the AST facts regenerated by translate/gen_cli.py - ErrorLevel members, "
  "default levels, the exit rule of handle_errors, early returns of generate, _get_errors/GeneratorData aggregation, loader except clauses, the three loop skeletons, the cycle guard - still match the model). "
  "NOT a theorem: that the Python code raises no exception / does not hang for any byte string; that half rests on the exploration (stage C), whose input distribution is written to evidence (input_histogram). "
  "Correspondence (vm_compute in coqc): real cli.handle_errors on exhaustive-small + random error lists x fail_on_warning; in-process generate (outcome by error identity and level, tree effect, aggregation) on valid / "
  "rejected / junk documents x three output-directory states; replay of every observed execution of the three retry loops (attempt order, stop point, kept errors, leftovers) and of _resolve_reference (random tables + "
  "every call during generation) against the model; CLI subprocesses (20 s limit): exit status = model exit_code of the in-process diagnostics, no traceback, nothing written on rejection.",
  "Trusted: Coq kernel+vm_compute; gen_cli.py; the pass-through observation wrappers of harness/lib/c06_worker.py; pydantic/ruamel/json/jinja2/the OS are runtimes, not modelled (their exceptions are reachable only by the "
  "exploration: junk bytes as JSON and YAML, JSON values and near-miss dicts as documents, single/double node mutations of valid documents with 17 $ref forms and 50 contradictory keyword sets). Uncaught exceptions are "
  "identified by exact site (exception type + innermost frame inside openapi_python_client + a structural input test); open findings reproduced on the pinned tree: enum_dup_crash (asserted by pinned tests), "
  "default_nonfinite_crash, merge_default_crash, ref_urlparse_crash, load_depth_crash (RecursionError from json.loads), yaml_bigint_crash, yaml_depth_segfault (SIGSEGV in the YAML loader at nesting >= 25000), "
  "name_too_long_oserror; scalar_document_crash and missing_parent_dir are fixed (a recurrence is a VIOLATION). CLI subprocesses run with _TYPER_STANDARD_TRACEBACK=1 (the rich traceback needs > 20 s per crash).",
  "Coq proof about the total model (exit rule, aggregation, termination bounds) + in-Coq differential correspondence + junk/mutation exploration with a wall-clock limit for the never-raises half", "4/C06")

claim("C16",
  "PARTIAL. Proved in Coq (43 theorems in props/C16.v, all closed under the global context): (1) frame - the table of EVERY syntactic read of a configuration option (Python ast of openapi_python_client/**/*.py + Jinja ast of "
  "every template, including reads through the derived values Project.project_name/package_name/version/project_dir/package_dir and the template globals built from them; regenerated by translate/gen_frame.py on every run; "
  "unclassifiable uses of the Config object become `?` rows) lies inside the per-option documented site set written from the README (file, function/macro, syntactic context such as `test`, `arg:PythonIdentifier:prefix`, "
  "`arg:write_text:encoding`): forallb (reads_within documented_sites) gen_option_reads = true by vm_compute reflection, with the soundness lemmas frame_sound / frame_reads_documented stating what the boolean means; "
  "options_documented (ConfigFile fields = the README's option headings), defaults_documented, merge_faithful (Config.from_sources copies each field from the same-named ConfigFile field / CLI parameter), every_option_read. "
  "(2) option lemmas about executable models, each for ALL inputs: override_is_renaming / override_local / override_injective (+ override_collision_refuted, override_module_collision_refuted) for Class.from_string with "
  "class_overrides over Names.v's class_name / python_identifier; prefix_only_prefixes + needs_prefix_spec + class_prefix_only_prefixes (field_prefix changes a name iff the normalised name is empty / does not start with "
  "XID_Start / contains a non-XID_Continue character / the original starts with `_`, and then only by the prefix itself); collect_spec (complete characterisation of EndpointCollection.from_data's tag selection incl. "
  "duplicate/colliding tags and unparseable operations), all_tags_identical, first_tag_only, off_within_on; content_type_override / body_override / body_sent_as_itself / source_override / content_type_override_local over a "
  "model of utils.get_content_type + email.message.get_content_type + body type / response source selection; flavour_files + flavour_only_table over Fs.gen_files (file set = package subtree, a function of the document alone, "
  "under the package prefix + exactly {pyproject.toml, README.md, .gitignore, setup.py for setup, <pkg>/py.typed}); title_prefix_option; literal_enum_same_wire (+ _refuted outside the typed guard) on Codec.v's step semantics; "
  "literal_enum_same_operations / literal_enum_same_macros (FrameCodec.validate_location over the regenerated _allowed_locations: an enum parameter is accepted in exactly the same locations, and the same wire macros exist, "
  "under both enum property classes, so literal_enums cannot change which operations are generated); project_name_override_verbatim / package_name_override_verbatim / package_name_is_dash_replacement / "
  "package_name_keeps_other_chars (the derived package name is the project name with `-` replaced by `_` position by position and nothing else; the frame allows the project name to pass only through `.replace`); "
  "all_writers_encoded / writers_sound (regenerated table of EVERY write_text / write_bytes / open-for-writing call of the package: each passes encoding=config.file_encoding) and docstring_literals_documented / "
  "docstring_literals_sound (regenerated table of every `{{ expression }}` a template places inside a triple-quoted literal: only helpers.jinja's safe_docstring `content` and client.py.jinja's template-fixed texts, so "
  "document text - in particular the attribute docstrings of docstrings_on_attributes - reaches a docstring only through the raw-literal-aware helper); "
  "metadata_reads_documented / metadata_reads_sound / metadata_version_only_through_package_version / version_declared (regenerated table of every free variable, with attribute chain, that the metadata templates of ALL "
  "flavours - pyproject.toml, pyproject_ruff.toml, setup.py, README.md, .gitignore, the list cross-checked against the template constants in Project's metadata writers - read: only project_name, package_name, "
  "package_version, package_description, meta, poetry; a read of openapi.version / openapi.* / config.* there is outside the frame, and both pyproject.toml.jinja and setup.py.jinja do read package_version). "
  "Correspondence (vm_compute in coqc, ~1.4k cases quick): Class.from_string with random override tables / prefixes, prefix sensitivity of PythonIdentifier/ClassName, get_content_type + _source_by_content_type + body_from_data "
  "with random override tables on well-formed and hostile media type strings, endpoint_collections_by_tag for random tag lists with generate_all_tags on/off, ModelProperty.build's class for (title, name, parent, option), "
  "generated file sets per flavour. Stage C (metamorphic): plain + atlas + random documents extended with operations (several tags, octet/form/text/custom media types, names needing a prefix, titled inline objects, enums); "
  "15 options each toggled alone and in random pairs (the second option as fixed context); the option-on tree is compared with the option-off tree under the option's relation: byte-identical for "
  "http_timeout / empty custom template dir / post_hooks (except the hook's own file) / file_encoding (after decoding); version / project / package overrides: identical after replacing the overridden string, and only in "
  "pyproject.toml, setup.py, README.md and the package directory name; class_overrides / field_prefix / title option: a bijective renaming of the parser's classes, files identical after whole-word renaming back; "
  "literal_enums / docstrings_on_attributes: only models/ api/ (resp. docstring statements, by AST) change; generate_all_tags: byte-identical module under every tag, first-tag module = option-off module, nothing outside api/; "
  "content_type_overrides: tree equals that of the document with the target media types up to the media type string; metadata flavours: package subtree byte-identical. Wire behaviour (from_dict/to_dict round trips and endpoint "
  "calls against httpx.MockTransport, both clients executed in fresh interpreters) is compared for the renaming, naming, enum, docstring and media-type options; overridden media types must be sent with their original Content-Type. "
  "literal_enums is additionally compared on a document with string/int enums in every position (model property required/optional/nullable/inline, array item, nested array, union member, additionalProperties, parameters in "
  "query/path/header/cookie required and optional and as array items, request/response bodies as the body itself / array items / inside models / map values / form fields) and on gen/ops.py's parameter atlas, alone and in the "
  "context of five other options: the set of api modules, the diagnostics and the parsed operations (parameters by location, bodies, statuses) must be identical and every call must put the same request on the wire and decode "
  "the same result; that document also has a multipart/form-data body model with string and integer enums (required, optional, inline, $ref) as direct fields, array items and union members, executed with full and sparse "
  "instances - multipart requests are compared part by part after replacing httpx's random boundary by a fixed token. Differential check of the enum wire macros: transform / transform_multipart / transform_header of "
  "enum_property.py.jinja and literal_enum_property.py.jinja are rendered by the real Jinja environment and executed on every member (str and int, required / optional, present / UNSET; the Enum kind on members of the class "
  "rendered from str_enum / int_enum.py.jinja): equal outputs required. Naming overrides use mixed-case / camelCase / digit / `.` / ` ` / `__` strings; a probe generates into the default location (cwd) for project alone / package alone / both in every flavour and compares "
  "directory names, pyproject/setup/README entries and the importable name with the documented rule computed without the implementation. docstrings_on_attributes is additionally compared (alone and in the context of five "
  "other options) on a document whose property / model / enum / parameter / operation / response descriptions carry backslashes forming invalid, unicode and hex escapes, a trailing backslash, quotes, braces, newlines and "
  "non-ASCII text: only model modules and client.py may differ, and only in docstring statements (by AST, so both files must parse), both packages must import every module alike (an import_all operation now opens every wire "
  "comparison) and round-trip / call alike. --file-encoding: every (flavour in none/poetry/pdm/setup) x (cp1252, utf-16) pair on a document with a non-ASCII title and descriptions: same file set as the utf-8 generation and "
  "every file, decoded with the requested encoding, equals the utf-8 generation's text. Metadata probe (both tiers): package_version_override / project_name_override / package_name_override, each alone and all together, in "
  "every flavour with a metadata file (poetry, pdm, setup): the name / version / package entries DECLARED in pyproject.toml resp. setup.py (read back by text) equal the documented values computed without the implementation "
  "(override when given, info.version / default names otherwise) and substituting them back yields the no-override tree byte for byte.",
  "NOT a theorem: that an option a function does not read cannot influence it (Python semantics; values the parser stores and passes on are not tracked by the syntactic frame) - trusted and probed by the metamorphic search. "
  "Trusted: Coq kernel+vm_compute; gen_frame.py; the documented site sets are a hand reading of README.md / CLI help (docstrings_on_attributes is also allowed in client.py.jinja, where the generator applies the same convention; "
  "inline children of an overridden class are renamed with it because their names are minted from the parent's class name); undoing a renaming is whole-word token replacement and files are then compared as multisets of lines "
  "with Union[...] members sorted (imports and response unions are sorted by name); final sigma and lone surrogates are excluded from the name / media type inputs. Open finding reproduced: "
  "override_module_collision (a class_overrides module_name equal to another class's module is not diagnosed; two classes share one file) - classified by the Coq guard rename_injective_on.",
  "Coq proof (table reflection for the frame; induction for the tag selection; case analysis for the option lemmas) + in-Coq differential correspondence + metamorphic tree/wire comparison", "4/C16")

claim("C18",
  "Coq theorems (props/C18.v, all closed under the global context). (1) On coq/Rename.v, a statement IR for the bodies of the generated functions (assignment, attribute read, dict pop / lookup by a CONSTANT wire key, "
  "call of an uninterpreted function on values, isinstance, if, for with append / item assignment, try/except, raise, return; big-step evaluator over one flat environment, values and operations abstract): "
  "rename_invariant (for EVERY value domain, program and environment, an injective renaming rho of the document-derived variables D that leaves the template variables T alone and maps no variable of D into T "
  "does not change what the function returns / raises; proved by induction on statements and loop items, expressions thread the environment because pop updates its dict variable), rename_invariant_inj, "
  "capture_free_names (instantiated with the REGENERATED table gen/GenNames.v: renaming a document-derived variable to any name outside the identifiers the generated code of that scope uses is behaviour-preserving), "
  "capture_refuted (concrete witness shaped like from_dict: d = dict(src); x = d.pop(k); addl = d - renaming x to d changes the result: the full statement is false). "
  "(2) On the proved endpoint model: kwargs_rename_invariant (renaming the python names of ALL parameters of Endpoint.get_kwargs, the argument list and the {py} placeholders of the path by a renaming injective on the names "
  "involved and fixing `body` leaves the request unchanged - the model depends on wire names only; Codec.v never mentions python names at all). (3) python_identifier_avoids: for every candidate of the regenerated table that is a "
  "Python keyword or a word of utils.RESERVED_WORDS, python_identifier c differs from c (vm_compute reflection + soundness lemma). "
  "(4) spelling_avoids: for every regenerated pair (document spelling s, template identifier N) with s in {_N, __N, N_, ' N', -N, N-, upper/title/capitalised/lower case of N}: python_identifier s field_ is never a keyword / reserved word, "
  "a spelling that starts with an underscore never becomes N (the field_ prefix applies because the test reads the RAW value), and s can only land on a template identifier by having N's own python name (vm_compute reflection over ~1200 pairs). "
  "The implementation's PythonIdentifier is compared with the Coq model on every candidate and every spelling on every run (so moving the underscore test after snake_case, dropping a step, ... is a correspondence VIOLATION, followed by a "
  "targeted search that places the disagreeing spellings everywhere and reports the concrete capture, e.g. `_body` + request body -> duplicate argument). "
  "Twin placements: every candidate N with a twin T of the same python name before de-confliction (From/from, Class/class, HTTPStatus/http_status, UNSET/unset) is generated as raw-name pair and as sibling properties of a model refined "
  "through allOf ({untyped->string, string->date, number->integer, string->enum} x both orders x N or T redefined x inline / $ref parent), next to the twin control ZqNeutral/zq_neutral: module compiles, imports, round trip equals the control's modulo names. "
  "Cross-location twins: N in one location and its twin (a different string with the same python name: UNSET/unset, PARAMS/params, HTTPStatus/http_status) in ANOTHER location of the same operation (all 12 ordered location pairs x with/without "
  "body in the thorough tier), compared with ZqNeutral/zq_neutral: the location suffix, never the raw spelling, must tell them apart. "
  "Search: EXHAUSTIVE over the finite regenerated candidate set (translate/gen_names.py: every identifier - names, arguments, attributes, keyword-argument names, imports - of every module of a probe client generated by the tree "
  "under verification, per scope, ast cross-checked with symtable; all keywords, soft keywords, builtins, case variants; ~450 names) x {model property required/optional of 4 kinds, typed/untyped additionalProperties, multipart body "
  "model property, parameter in path/query/header/cookie without and with a JSON body, raw-name pair (the only way an upper-case identifier becomes a python name)}. Every (candidate, placement) class / operation is generated by the real "
  "generator, compiled, imported and executed in a fresh interpreter; stage B = the existing correspondences codec_case / kw_case; because the models are capture-free, a mismatch whose neutral control (same placement, name zq_neutral, "
  "same document) matches IS a capture; stage C compares decoded attributes, re-encoded dict, to_multipart, _get_kwargs, the request captured for sync_detailed / asyncio_detailed / sync and the parsed response with the control and with the "
  "document. 24 captures of the unchanged tree are listed findings capture_<scope>_<name> (d, cls, field_dict, prop, prop_name, additional_properties, additional_keys, to_dict, from_dict, to_multipart, json, cast, isoparse, "
  "params, headers, cookies, body, sync_detailed, and through the raw-name fallback UNSET, Unset, Union, Mapping); any other (scope, name), or a listed one in a new placement, is a VIOLATION. A template edit that introduces a new "
  "local automatically adds a candidate.",
  "Full on the IR and on the models; exhaustive over the finite regenerated candidate set (thorough tier: all names x all placements; quick tier: every function-scope identifier that can become a python name, verbatim or through the "
  "raw fallback, every reserved identifier the functions use, every listed name, a sample of the rest). Trusted: that the generated function bodies are instances of the IR and that Python's function scope is the IR's single flat scope "
  "(closures and comprehensions only read the enclosing scope); that the probe document of gen_names.py reaches every template branch that introduces a name (required scopes are checked); abstraction absprop.py / epwork.py; "
  "client_runner.py. Collisions between two document-derived names (x_item next to a list x; derived prefix/suffix patterns are listed in the evidence) are outside C18 (C09).",
  "Coq proof (alpha-renaming by induction over a statement IR; reflection on a regenerated table) + exhaustive differential execution of generated code against proved models and a neutral control", "4/C18")

claim("C20",
  "Proved in Coq (27 theorems in props/C20.v, all closed under the global context) about coq/Refs.v, an executable model of the parser's reference resolvers: (a) parse_reference_path (urlsplit's cleaning, scheme / authority / "
  "fragment / query / params splitting over character tables regenerated from the running interpreter) and get_reference_simple_name: simple_name_last_segment, parse_ref_local ('#'+fragment is accepted and yields the fragment); "
  "(b) request bodies: body_ref_terminates (the _resolve_reference loop stops within |components|+1 steps for EVERY table and start), body_ref_chain / body_ref_inline (an acyclic chain of references of ANY length resolves to its "
  "terminal body, i.e. behaves as that body written inline), body_ref_missing, body_ref_cycle (a miss / a cycle is the error value), body_ref_local_lookup (for the well-formed local form the component looked up is the named one); "
  "(c) parameters: copy_reads + table_is_copy (what a reference finds in the table built by build_parameters is the field-by-field copy of the component as written), param_ref_inline (for ALL component tables, ALL parameter lists "
  "with ANY subset of items given by reference, ALL property builders / location validators: add_parameters yields the same (name, location, required, schema) sequence, the same error and the same Schemas state as on the list "
  "with every reference replaced by the component as written), param_ref_inline_endpoint (operation-level list first, then path-item list, references resolved before the (name, location) de-duplication in both), "
  "param_ref_canonical, path_item_never_overrides, bad_param_ref_contained; the proof consumes the REGENERATED facts gen_params_facts (every oai.Parameter field that add_parameters reads is among those parameter_from_data "
  "copies; the model reads exactly those fields) - translate/gen_params.py re-reads the ast of parameter_from_data / add_parameters / _property_from_ref / response_from_data / build_parameters on every run, fail closed; "
  "(d) responses: response_ref (a #/components/responses/X reference behaves as the inline response), response_other_error (under g_no_authority and g_single_segment every reference that resolves IS of that form; everything "
  "else is an error value); (e) ref_same_wire (a schema reference may change only name / python_name / required / default: regenerated keyword list of the evolve call). Refutation witnesses, each a listed finding confirmed on the "
  "code: body_ref_prefix_ignored, ref_netloc_ignored (+ response form), ref_urlparse_crash, response_ref_segments_ignored, param_ref_no_schema, param_key_ctrl_collision; non-vacuity examples for every guard. "
  "Correspondence (vm_compute in coqc, ~3.4k cases quick): parse_reference_path / get_reference_simple_name on hostile strings; bodies._resolve_reference on random tables (chains to length 6, cycles, misses, 11 malformed forms; a "
  "hang is observed through a deadline); build_parameters (ALL 13 fields of every registered Parameter + error counts) and Endpoint.from_data + add_parameters (per-location sequences or error class) on random tables and mixed "
  "reference/inline lists at both levels; the statement of param_ref_inline re-evaluated on each case with the regenerated field list; response_from_data's reference case. Stage C: (1) random documents (parameters in all four "
  "locations at operation and path-item level incl. same (name, location) at both, json/form/multipart/octet/unsupported bodies, 1-3 statuses) x random subsets of positions moved to components/parameters|requestBodies|responses "
  "(shared components, body chains to length 6, shuffled sections, odd component keys): the whole generated tree and the diagnostics must be identical to the inline document, byte for byte; (2) 20 schema positions (property, "
  "optional property, array item, union member, nullable, additionalProperties, allOf member, allOf-wrapper with default, query/header/list parameter schema, json/form body schema, response / response-list schema) x {model, enum} "
  "by $ref vs inline copy, every single position and random subsets: from_dict/to_dict round trips, no-argument construction and endpoint calls (captured request, parsed response) of both generated clients compared modulo class "
  "names; exactly one class / one defining module per referenced schema, imported by every holder and endpoint module, decoded values are instances of it; (3) 15-16 malformed reference forms (dangling, remote file/url, relative, "
  "bare, empty, empty fragment, wrong section, percent-encoded, trailing slash, authority-only, query-only, extra segment, no leading slash, bracket, circular/self) x 12 position kinds: a diagnostic must appear and every other file must "
  "equal the output of the document with the user of the reference (and its dependants) deleted; silent resolutions / crashes are classified by the model's guards evaluated in Coq into the listed findings, anything else is a VIOLATION "
  "with (document, rewritten positions, first differing file) as replay.",
  "Trusted: Coq kernel+vm_compute; translate/gen_params.py; property_from_data / validate_location / _check_parameters_for_conflicts enter the parameter theorems as universally quantified functions (stage B instantiates them from the "
  "real property classes); urlsplit's validation of bracketed / non-ASCII authorities is outside the model (PRUnmodelled, compared by outcome only); Parameters.classes_by_name is not modelled (nothing reads it); the schema-reference "
  "part (class evolution, dependency recording, default re-validation, shared class) rests on the regenerated evolve-field fact plus the executed-client comparison, not on a model of property_from_data (Graph.v covers removal "
  "propagation for C07/C08); a dropped endpoint may leave orphan model modules / an empty tag package / to_multipart on a shared model behind (allowed by the containment comparison, as the statement allows index files to list "
  "additional names); inline-vs-reference byte identity of MODEL modules is not claimed for schemas (an inline copy gets its own parent-prefixed class).",
  "Coq proof (induction over chains / parameter lists, pigeonhole termination bound, reflection on regenerated field tables) + in-Coq differential correspondence + metamorphic inline<->reference oracle on generated trees and executed clients", "4/C20")

claim("C08",
  "Coq theorems about Graph.v, an executable machine for build_schemas (for ALL graphs; a graph = component nodes whose schema is flattened by the abstraction function into the "
  "primitive instructions property_from_data performs on Schemas: need-reference with the roots handed to add_dependencies, allOf parent, record-dependant, mint model/enum class, intrinsic failure; "
  "both retry loops with fuel |pending|+1 and errors from the last round only, `dependencies` surviving failed attempts, _propogate_removal as a depth-first work list, _process_model_errors, "
  "duplicate-name and conflicting-enum checks, re-queued wrapper copies): loops_terminate (more fuel never changes the result of the create loop, the process loop and the removal cascade; both loops exit "
  "in a round without progress); removal_closed (under wf_graph and the guard g_no_union_edge_to_failing every reference in the description of a surviving component - items, wrappers, union members, "
  "properties, additionalProperties, allOf parents, incl. those of its inline model classes - points at a survivor); classes_closed (additionally under g_no_name_pressure every class a survivor mints is in "
  "classes_by_name); removal_exact (a reference is deleted only if it is reachable through recorded dependency pairs from the roots of a model that failed; create/process never delete); create_lfp and "
  "process_lfp (under g_plain/g_allof_direct/g_no_dup_error the loops compute least fixed points: created <-> derivable, reported-as-failed <-> no derivation, for every order); containment and containment_exact "
  "(two documents that differ only in the description of component b: a component that does not reach b survives in one iff in the other; if b does not survive in D+b the survivors of D+b are exactly the survivors of D "
  "minus the dependants* of b) under the boolean guard g_contain on both documents, with the non-vacuity example containment_nonvacuous. Refutation witnesses for the guards' complements, each a confirmed "
  "defect reproduced on the implementation on every run: union_dependency_unrecorded_refuted (UnionProperty.build passes no roots), union_inline_reprocessed_refuted, name_pressure_refuted. "
  "Correspondence: the model run by vm_compute on the abstracted graph == the real build_schemas (classes_by_reference keys, classes_by_name keys, ordered errors as (phase, unit, category) with removal "
  "lists as sets, the whole dependencies relation, and wf_graph of the abstraction) on the exhaustive family of graphs with <= 2 nodes (5 object edge kinds + item/union member/wrapper, every target incl. self "
  "and forward, every failure position), 3 nodes (quick: 2 object edge kinds exhaustive + 4000 sampled of the full family; thorough: full family exhaustive, 109k graphs), sampled 4-node graphs, random graphs "
  "to 20 nodes (cycles, inline classes in items/unions/properties, enums, Reference components, dangling and remote references, class-name pressure, several failures) and the abstraction of the atlas and "
  "of generated whole documents: ~32k cases quick, ~450k thorough. Oracle (stage C): valid documents D x bad piece b (array without items, dangling/remote $ref, invalid default, mixed-type enum at "
  "property / list item / union member / additionalProperties / allOf member / parameter / body / response; incompatible allOf; optional path parameter; duplicate parameters; unparseable body; pairs in thorough): "
  "every module of D outside the owner's dependants* is byte-identical in D+b, D+b imports module by module in a fresh interpreter and every surviving model executes from_dict/to_dict, every piece and every "
  "lost/changed module is named by a diagnostic; failures are classified by the Coq guards on the abstracted graph of D+b (known finding only if the failing survivor reaches the missing class through an unrecorded edge).",
  "Trusted: Coq kernel+vm_compute; harness/abstract_graph.py (document -> Graph.v term; it mirrors the branch order and inline-class naming of property_from_data with the real utils/Class.from_string, delegates leaves to the real "
  "property_from_data on an empty Schemas, and reads from the code whether UnionProperty.build takes `roots`); it is checked by the correspondence on every run but is not proved. wf_graph is a fact about the abstraction "
  "(evaluated on every case). Intrinsic validity of leaves, merge_properties conflicts other than primitive type clashes, python-name clashes and defaults on unions/wrappers are outside the model (flagged `imprecise`, not generated). "
  "The containment theorems are about the survivor sets of the model (classes_by_reference keys); byte identity of the rendered modules is established by the oracle, not proved. Endpoint-level containment is oracle only. "
  "Before commit 204aaa6 g_no_union_edge_to_failing failed for references inside anyOf/oneOf (finding union_dependency_unrecorded, now fixed by /verif/fixes/C08_union_roots.diff: nothing in Graph.v changed, "
  "the abstraction detects the `roots` parameter of UnionProperty.build and emits recorded union-member edges, so the first conjunct of the guard holds by construction; the recorded witness is replayed on every run and "
  "a recurrence is a VIOLATION). The generated base documents of stage C are pinned in corpus/C08/base_docs.json. A module of a non-dependant model may differ in exactly one accepted way, decided by an exact ast test plus a "
  "structural guard on the base document (every operation that sends the model as multipart/form-data is affected by the bad piece): it loses to_multipart / `import json` (known finding multipart_flag_follows_operation); "
  "classes minted by operations (inline bodies etc.) are attributed to the operations whose modules import them.",
  "Coq proof (invariants over fuel-indexed loops, closure of the removal work list, least fixed points, locality) + in-Coq differential correspondence on abstracted graphs + differential tree oracle D vs D+b", "4/Graph.v, 4/C08")

claim("C07",
  "Coq theorems: accounting (GraphThm, for ALL graphs, no guard): every component schema is in classes_by_reference at the end, or a diagnostic names it - as the unit that could not be parsed / processed, or in the "
  "removal list of the error whose cascade deleted it; classes_closed (under wf_graph, g_no_name_pressure, g_no_union_edge_to_failing a surviving component has every class it mints in classes_by_name); "
  "ops_accounted (CensusThm, fold invariant over ALL operation lists of the model of EndpointCollection.from_data: every operation is filed under each selected tag as an endpoint or as a warning keyed by METHOD path, and every "
  "warning of a generated endpoint is handed on under the same key); endpoint_parts_accounted (every documented response key / request media type of a generated operation is a Response / Body of the endpoint or a warning "
  "of it: the loops of _add_responses and of the body part of Endpoint.from_data lose nothing); no_silent_collapse (under g_module_names_distinct every endpoint of a tag has its own file holding it) and "
  "status_distinct_no_alias; refutation witnesses module_overwrite_refuted (operationIds get-x / get_x computed with the proved Names.python_identifier: one file, first operation lost, no diagnostic), "
  "status_alias_refuted (keys 200 / 0200), name_pressure_refuted (a component's class popped by the removal of an unrelated model: no module, no diagnostic). Correspondence per document: (1) for every component, "
  "`class in res_cbn` and `named by a diagnostic` of the model on the abstracted graph == census of models/*.py (ast) and the diagnostics generate() returned; (2) Census.collections on the operation list, with the "
  "per-piece outcomes taken from the real leaf parsers called in the order of the real loop with the Schemas/Parameters they return threaded on (add_parameters/sort_parameters, response_from_data per response, body_from_data per operation with a one-result-per-media-type check) == the real endpoint collections (endpoints and (METHOD path, kind) warnings per tag, in order). "
  "Oracle: census of api/<tag>/*.py (method/url of _get_kwargs, status comparisons of _parse_response, Content-Type constants / body kwargs) and models/*.py joined with the document's operations and object/enum components and with "
  "the diagnostics, on the atlas, generated valid documents and documents with seeded breakage (broken schemas with dependants at distance 1-3 over five edge kinds, Reference components, class-name twins, module-name twins, "
  "operationId twins, broken/duplicate parameters, supported/unsupported/garbage media types, response keys default / 2XX / 0200 / 999): every item generated or diagnosed, no two items in one artefact without a diagnostic.",
  "Trusted: Coq kernel+vm_compute; harness/abstract_graph.py; the ast-based census of generated sources; diagnostics are matched on the text `/components/schemas/<name>` and `WARNING parsing METHOD path within`; the leaf "
  "parsers are oracles in correspondence (2) (the model is the control flow that files outcomes, not the parsing of a piece); body-schema property errors do not carry the media type in their text and are matched by count. "
  "Reference components ({$ref} at top level of components.schemas) are diagnosed without naming the component (accepted: the error carries the reference as data). Known findings reproduced on every run: module_overwrite, "
  "status_alias, module_collision_order, name_pressure_pop (enum_silent_merge is checked under C14).",
  "Coq proof (fold invariants, loop invariants) + in-Coq differential correspondence (schema census and endpoint loop) + census oracle on generated trees", "4/C07")

def main():
    checks = []
    for pid in ALL:
        if pid not in CLAIMS:
            continue
        c = CLAIMS[pid]
        checks.append({
            "property_id": pid,
            "quick_cmd": f"{CHECK} {pid} --tier quick",
            "thorough_cmd": f"{CHECK} {pid} --tier thorough",
            "evidence_file": f"/verif/evidence/{pid}.json",
            "replay_cmd_template": f"{CHECK} {pid} --replay {{path}}",
            "engine": "coq-proof+correspondence",
            "level_claimed": {"category": "proof", "text": c["text"], "design_ref": c["design_ref"]},
            "level_note": c["note"],
            "technique": c["technique"],
        })
    m = {
        "version": 1,
        "setup_cmd": "/venv/bin/python /verif/harness/setup.py",
        "hooks": {"guard": "OPENAPI_PYTHON_CLIENT_VERIF", "enable": "no hooks are needed: the harness imports /repo directly (PYTHONPATH=/repo) and observes generated clients from outside",
                  "baseline_off_cmd": "cd /repo && /venv/bin/python -m pytest -ra -q -p no:cacheprovider --timeout=900 --continue-on-collection-errors",
                  "source_commits": [], "add_only": True},
        "engines": [{"name": "coq-proof+correspondence", "path": "/verif/coq + /verif/harness", "serves_properties": sorted(CLAIMS),
                     "kind_free_text": "Coq 8.16 development (hand-written executable model + theorems, facts regenerated from /repo) and a Python harness that evaluates the model inside Coq on the implementation's observed behaviour"}],
        "checks": checks,
        "not_applicable": [{"property_id": p, "reason": "check under construction in this session (DESIGN.md section 8 build order); not yet claimed"} for p in ALL if p not in CLAIMS],
        "notes": "See DESIGN.md. Every check: stage A regenerate+prove, stage B correspondence, stage C oracle; known findings in /verif/known_findings.json.",
    }
    json.dump(m, open("/verif/MANIFEST.json", "w"), indent=1)
    print("claimed:", sorted(CLAIMS))

if __name__ == "__main__":
    main()
