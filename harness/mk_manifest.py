#!/usr/bin/env python3
"""Writes /verif/MANIFEST.json from the table below (kept in one place so it is always valid)."""
import json
CHECK = "/venv/bin/python /verif/harness/check.py"
ALL = [f"C{i:02d}" for i in range(1, 21)]
CLAIMS = {}
def claim(pid, text, note, technique, design_ref):
    CLAIMS[pid] = dict(text=text, note=note, technique=technique, design_ref=design_ref)

claim("C09",
  "Coq theorem python_identifier_valid: for every string and every good prefix, under the guard g_xid, the model of PythonIdentifier returns a valid non-keyword identifier "
  "(unbounded; table facts re-proved by vm_compute reflection on Unicode/keyword tables regenerated from the interpreter and /repo on every run); refutation witnesses for the guard's complement "
  "(a², raw-name fallback). The model Names.v is tied to utils.py by a correspondence check evaluated inside Coq on ~25k (function,string) cases per quick run, and an oracle "
  "(isidentifier/iskeyword, per-scope distinctness through the real parser) classifies failures by the Coq guard into known findings vs violations.",
  "Trusted: Coq kernel+vm_compute; gen_tables.py translator; CPython str/re semantics; the hand-written model's regex semantics (validated by correspondence only); scope-level collision logic is checked by oracle, not proved.",
  "Coq proof (induction + table reflection) + in-Coq differential correspondence", "4/C09")

claim("C19",
  "Coq theorems on the file-tree state machine Fs.v (model of Project.build): no_overwrite_untouched; build_postcondition (after one generation every generated path holds fresh content, "
  "nothing else remains under models/ and api/, every other path is untouched); overwrite_converges and user_files_untouched for EVERY history of generations and user writes (induction over histories, "
  "no length bound); writes_confined + derived_component_safe/derived_module_safe/project_name_chars (every path component derived from any document string through PythonIdentifier/kebab_case "
  "is non-empty, not a dot segment and free of / \\ NUL . quotes: Unicode table facts re-proved on regenerated tables). The model is tied to the code by comparing, after every step of random "
  "histories x metadata flavours, the real directory tree with Fs.run applied to the module/tag names the parser produced (evaluated inside Coq); an oracle compares bytes with a fresh generation and "
  "checks sentinel files around the output directory for hostile titles/tags/names.",
  "Trusted: Coq kernel+vm_compute; OS filesystem semantics (pathlib/shutil) are not modelled; the model abstracts file contents to (generation id | user tag); user files inside models/ and api/ are deleted by design (rmtree) and the theorem says so; project_name_override/package_name_override are configuration and used raw.",
  "Coq proof (invariant over histories) + in-Coq differential correspondence on directory histories", "4/C19")

claim("C13",
  "Coq theorems on Values.v (model of every property class's convert_value) and PyEval.v (evaluator of the emitted default-expression sub-language): default_sound (for the ten scalar kinds and EVERY JSON value "
  "inside the guard default_class = 0, an accepted default's emitted Python expression evaluates to the typed value the document declares: int, bool, float token, string, date/date-time via isoparse, UUID), "
  "default_complete (inside the guard a value that denotes nothing of the kind is rejected with a PropertyError), default_null; unguarded per-kind characterisations conv_int/bool/float_sound+complete "
  "(what the lenient conversions accept is exactly int_meaning/bool_meaning/float_meaning), conv_date/datetime/uuid_sound, conv_enum/litenum/const_sound, conv_union_first; one `_refuted` witness per non-zero "
  "guard class (float_token, string/int/bool lenient, default_dq, nonfinite crash, uuid raw, union_first_match, enum_default_dq). float()/isoparse/UUID are record fields (explicit premises, no axioms). "
  "The model is tied to the code by evaluating Values.convert_value inside Coq on ~8.5k (kind, value) cases per quick run against the real classes (direct convert_value and property_from_data with `default`), the "
  "oracle record being instantiated from the real float()/isoparse/UUID results; stage C generates documents with defaults in model properties and query/header/cookie parameters, executes the generated code in a fresh "
  "interpreter (attribute after no-arg construction, to_dict, inspect.signature defaults) and classifies every deviation by the Coq guard into listed findings or VIOLATION.",
  "Trusted: Coq kernel+vm_compute; the oracles float()/str(float)/isoparse/UUID (only their tabulated results and the token class of str(float), sampled each run); the model's string-literal lexer does not decode "
  "\\x/\\u escapes, so defaults that are not repr-printable (class 9) and list/dict defaults of Any are covered by correspondence+oracle only; $ref/allOf re-conversion routes are exercised by C15/C20, not proved here.",
  "Coq proof (case analysis over kinds x JSON constructors, literal round-trip lemmas) + in-Coq differential correspondence + executed-client oracle", "4/C13")

claim("C14",
  "Coq theorems on Values.values_from_list and Enums.v (model of enum build, the generated Enum/IntEnum classes, Literal sets, check_ functions, nullable-enum union decoder and const check): vfl_members_sub "
  "(no invented member, any input), vfl_exact + keys_nodup (under g_enum_sanitised_distinct the table is exactly the declared values), enum_exact_str (under g_no_bs_nl and g_enum_sanitised_distinct: the class "
  "exists, every listed string decodes to a member whose .value is that string, whatever decodes is a listed string, everything else raises, no other members), enum_exact_int (no guard; int tables never raise), "
  "enum_dup_reported (a raw key equal to an earlier stored name raises, is never merged), literal_enum_exact, null_makes_nullable / no_null_plain / nullable_accepts_null, const_exact + py_eq_same_type; "
  "`_refuted` witnesses: enum_silent_merge, enum_dup_crash, enum_backslash, nullable_passthrough, numeric alias (enum and const), const quote. All for unbounded lists/strings (induction), Unicode table facts "
  "regenerated. Tied to the code by (a) EnumProperty.values_from_list / EnumProperty.build / LiteralEnumProperty.build vs the model on hostile value lists, (b) generated classes of both enum styles imported in a fresh "
  "interpreter: members, *_VALUES sets and the from_dict decode of every probe value (listed, same-type unlisted, Python-equal of another type, other types, null) and const checks vs the model, all evaluated inside Coq; "
  "stage C evaluates the property's predicate on the generated classes and classifies deviations by the Coq guards.",
  "Trusted: Coq kernel+vm_compute; CPython Enum value lookup / set membership / == as modelled by enum_lookup / literal_check / py_eq (correspondence only); identifiers are NFKC-normalised by CPython (member names are "
  "compared modulo that map); g_repr_printable and brace-free consts delimit the model's literal lexer (not defect classes); inline vs referenced enums share EnumProperty.build and are not distinguished.",
  "Coq proof (induction over value lists, literal round-trip lemmas) + in-Coq differential correspondence on parser and executed generated classes", "4/C14")

claim("C02",
  "Coq theorem CodecThm.roundtrip (exported as C02_roundtrip): for EVERY class table, property kind, JSON instance and nesting depth, if the schema is inside the static guard (k_ok/table_ok: union members "
  "pairwise distinguishable by JSON tag, no const inside a multi-member union, no File in a JSON model) and the instance is schema-valid with canonical date/date-time/uuid text, then the model of the generated "
  "from_dict accepts it and the model of to_dict re-encodes the decoded object to the SAME JSON value (objects are finite maps); corollaries decode_reencoded, additional_preserved, wire_names_exact; four "
  "`_refuted` witnesses show each guard conjunct is necessary (each is a listed known finding of the generated union code) and a non-vacuity example. Proof by induction on decoder fuel with one lemma per generated loop "
  "(list / model field loop / additional properties / union try-chain and isinstance-chain). Which kinds have construct/transform/check macros is read from GenKinds.v, regenerated from the real templates on every run. "
  "The model Codec.v is tied to the code by executing the GENERATED from_dict/to_dict in a fresh interpreter on ~1600 (quick) instances over an atlas of documents (every kind x position, all ordered union pairs, recursion, "
  "additionalProperties variants, allOf) plus random schema graphs, and comparing decoded object structure and re-encoded output (or exception) with Codec.dec/enc evaluated by vm_compute on the property trees abstracted from "
  "the implementation's own parse; an oracle checks to_dict(from_dict(j)) == j, from_dict(to_dict(x)) == x and json.dumps on every instance inside the theorem's guard (guard evaluated in Coq).",
  "Trusted: Coq kernel+vm_compute; gen_kinds.py translator; the abstraction function harness/lib/absprop.py and the value serialiser harness/lib/client_runner.py; dateutil.isoparse/uuid.UUID as oracles (canonical re-formatting "
  "supplied per shard); floats are opaque non-integral tokens; attrs __eq__ = structural equality; wrong container types in direct (non-union) positions are outside the model and never generated; multipart encoding not modelled.",
  "Coq proof (fuel induction over a denotational codec model) + in-Coq differential correspondence against executed generated code", "4/C02")

def main():
    checks = []
    for pid in ALL:
        if pid not in CLAIMS:
            continue
        c = CLAIMS[pid]
        checks.append({
            "property_id": pid,
            "quick_cmd": f"{CHECK} {pid} --tier quick",
            "thorough_cmd": f"{CHECK} {pid} --tier thorough",
            "evidence_file": f"/verif/evidence/{pid}.json",
            "replay_cmd_template": f"{CHECK} {pid} --replay {{path}}",
            "engine": "coq-proof+correspondence",
            "level_claimed": {"category": "proof", "text": c["text"], "design_ref": c["design_ref"]},
            "level_note": c["note"],
            "technique": c["technique"],
        })
    m = {
        "version": 1,
        "setup_cmd": "/venv/bin/python /verif/harness/setup.py",
        "hooks": {"guard": "OPENAPI_PYTHON_CLIENT_VERIF", "enable": "no hooks are needed: the harness imports /repo directly (PYTHONPATH=/repo) and observes generated clients from outside",
                  "baseline_off_cmd": "cd /repo && /venv/bin/python -m pytest -ra -q -p no:cacheprovider --timeout=900 --continue-on-collection-errors",
                  "source_commits": [], "add_only": True},
        "engines": [{"name": "coq-proof+correspondence", "path": "/verif/coq + /verif/harness", "serves_properties": sorted(CLAIMS),
                     "kind_free_text": "Coq 8.16 development (hand-written executable model + theorems, facts regenerated from /repo) and a Python harness that evaluates the model inside Coq on the implementation's observed behaviour"}],
        "checks": checks,
        "not_applicable": [{"property_id": p, "reason": "check under construction in this session (DESIGN.md section 8 build order); not yet claimed"} for p in ALL if p not in CLAIMS],
        "notes": "See DESIGN.md. Every check: stage A regenerate+prove, stage B correspondence, stage C oracle; known findings in /verif/known_findings.json.",
    }
    json.dump(m, open("/verif/MANIFEST.json", "w"), indent=1)
    print("claimed:", sorted(CLAIMS))

if __name__ == "__main__":
    main()
