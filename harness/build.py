#!/venv/bin/python
"""CLI: regenerate facts + full Coq build under the build lock. Usage: /venv/bin/python /verif/harness/build.py [--no-regen]"""
import os, sys
os.environ["PYTHONPATH"] = os.environ.get("OPC_REPO", "/repo")
sys.path.insert(0, os.path.dirname(os.path.abspath(__file__)))
from lib.common import build
b = build(regen="--no-regen" not in sys.argv)
print("BUILD OK" if b.ok else "BUILD FAILED: %s:%s (%s)\n%s" % (b.failing_file, b.failing_line, b.failing_item, b.log[-4000:]))
sys.exit(0 if b.ok else 1)
