#!/bin/bash
# usage: process_seed.sh C01c   (verifies m1,m2 in /tmp/wt_<id>, stores into /verif/seeded, tests against the property's own quick check)
id=$1; prop=${id:0:3}
for m in m1 m2; do
  [ -f /tmp/${id}_out/$m/patch.diff ] || { echo "$id $m MISSING"; continue; }
  line=$(/tmp/verify_mut.sh $id $m)
  echo "$line" >> /tmp/verify_mut_all2.log
  case "$line" in *"demo_clean=0 demo_patched=1 tests=SAME"*) ok=1;; *) ok=0;; esac
  if [ $ok = 0 ]; then echo "$id $m NOT-VERIFIED: $line"; continue; fi
  d=/verif/seeded/${id}_$m; mkdir -p $d; cp /tmp/${id}_out/$m/patch.diff /tmp/${id}_out/$m/demo.py $d/
  python3 - "$id" "$m" "$line" <<'PY'
import json, sys
id, m, line = sys.argv[1], sys.argv[2], sys.argv[3]
meta = json.load(open(f"/tmp/{id}_out/{m}/meta.json"))
meta["verified_by_coordinator"] = {"worktree": f"/tmp/wt_{id}", "ran": "demo.py on clean tree (exit 0), git apply patch.diff, demo.py (exit 1), full pytest suite with the patch: same FAILED/ERROR set as the unpatched baseline, git checkout -- .", "result": line}
meta["breaks_property"] = id[:3]
meta["generation"] = {"b": "second", "c": "third", "d": "fourth", "e": "fifth", "f": "sixth", "g": "seventh"}.get(id[3:4], "first")
json.dump(meta, open(f"/verif/seeded/{id}_{m}/meta.json", "w"), indent=1)
PY
  res=$(/venv/bin/python /verif/harness/seedtest_iso.py $d/patch.diff $prop 2>&1 | grep "^===")
  echo "$id $m -> $prop : $res" | tee -a /tmp/seed_results.log
  flock /tmp/fr.lock python3 - "$id" "$m" "$res" <<'PY'
import json, sys
p="/verif/seeded/first_results.json"; d=json.load(open(p))
d.setdefault(f"{sys.argv[1]}_{sys.argv[2]}", "CAUGHT" if "CAUGHT" in sys.argv[3] else "missed")
json.dump(d, open(p,"w"), indent=1)
PY
done
