#!/bin/bash
# usage: verify_mut.sh CXX mN  -> checks demo flips and test-suite pass set equals baseline
id=$1; m=$2; wt=/tmp/wt_$id; out=/tmp/${id}_out/$m
cd $wt && git checkout -q -- . && git clean -fdq
/venv/bin/python $out/demo.py $wt > /tmp/vm_${id}_${m}_clean.log 2>&1; c0=$?
git apply $out/patch.diff || { echo "$id $m PATCH-FAIL"; exit 1; }
/venv/bin/python $out/demo.py $wt > /tmp/vm_${id}_${m}_patched.log 2>&1; c1=$?
PYTHONPATH=$wt timeout 1800 /venv/bin/python -m pytest -q -p no:cacheprovider --timeout=900 --continue-on-collection-errors -q > /tmp/vm_${id}_${m}_tests.log 2>&1
tail -1 /tmp/vm_${id}_${m}_tests.log > /tmp/vm_${id}_${m}_summary.txt
same=$(diff <(grep -E "^(FAILED|ERROR)" /tmp/vm_${id}_${m}_tests.log | cut -d' ' -f1-2 | sort) <(grep -E "^(FAILED|ERROR)" /tmp/base_test.log | cut -d' ' -f1-2 | sort) > /dev/null && echo SAME || echo DIFF)
git checkout -q -- . && git clean -fdq
echo "$id $m demo_clean=$c0 demo_patched=$c1 tests=$same $(cat /tmp/vm_${id}_${m}_summary.txt)"
