#!/usr/bin/env python3
"""Regenerates DESIGN.md section 10.2 (seeded changes) from /verif/seeded/*/meta.json and the recorded results below."""
import json, glob, os, re
FIRST = json.load(open("/verif/seeded/first_results.json"))
NOTES = {  # seed -> (after, what was strengthened)
 "C01_m2": ("caught (C01)", "broken-piece documents with dependants through every recorded edge kind"),
 "C01b_m2": ("caught (C01; also C18)", "Client/URL/case variants of the reserved argument names in the hostile-name pool"),
 "C02b_m2": ("caught (C02 document-vs-parse kind check; also C14)", "falsy constants (0, \"\", false) as leaves; the kind of every atlas leaf is compared with what the DOCUMENT declares"),
 "C03_m1": ("caught (C03 oracle)", "expectation iterates the DOCUMENT's parameters (operation + path-item level); path-item parameters in atlas and random documents"),
 "C03b_m2": ("caught (C03 oracle; also C20)", "components/parameters references whose key differs from the declared name, at both levels; references resolved against the document"),
 "C04_m1": ("caught (C04 oracle)", "trials for every status the document declares, even when the parse dropped it; Parse.v response_plan model + correspondence"),
 "C04_m2": ("caught (C04 correspondence)", "non-UTF-8 bodies for undocumented statuses"),
 "C04b_m2": ("caught (C04 oracle)", "response maps with `default` / `4XX` / `2XX` keys before concrete statuses"),
 "C05_m1": ("caught (C05 stage A all_sites_safe + stage C)", "site-table slots per schema SHAPE (inline / direct $ref / wrappers / arrays) for every named thing: 177 -> 436 rows"),
 "C05_m2": ("caught (C05 stage A + stage C; also C09)", "raw-name-fallback slots with their own sanitiser class SSanitize"),
 "C07_m1": ("caught (C07 + C08 correspondence, C07 oracle)", "enum-vs-model / model-vs-enum class-name twins in graphs and census documents; census records each class's kind"),
 "C07_m2": ("caught (C07 correspondence + oracle)", "Census.v sel_tags models `tags or [default]`; operations with an empty tag list, duplicate and colliding tags"),
 "C08_m2": ("caught (C08 correspondence + oracle; also C20)", "relative-file references naming an existing local component at every position; abstraction no longer calls the real parse_reference_path"),
 "C09_m2": ("caught (C09 correspondence procprops_corr)", "ProcProps.v: model + theorems of the merge / rename interaction of _process_properties"),
 "C09b_m1": ("caught (C09 correspondence + oracle)", "Scopes.v model_decls: EnumProperty.build's twin handling in the class-name scope (theorem enum_classes_distinct_or_shared); twins whose member names coincide while values differ"),
 "C09b_m2": ("caught (C09 oracle + correspondence; C01 file set vs Fs.gen_files caught it at once)", "every directory / module stem of generated trees compared with Names.python_identifier over hostile operationIds, tags, schema names"),
 "C01c_m1": ("caught (C01 stage A name closure + import)", "reserved_doc: classes whose module name is a reserved word (type_, format_, list_, self_ ...) in every position x {default, literal_enums, class_overrides}; added to the regenerated closure probes (GenClosed.v)"),
 "C01c_m2": ("caught (C01 compile)", "operations whose ONLY non-path inputs are in one location, optional declared before required, and path parameters with defaults, for query / header / cookie"),
 "C02c_m1": ("caught (C02 correspondence)", "atlas model `Defaults`: optional properties with a schema default of every scalar kind (incl. falsy defaults), required-with-default"),
 "C03c_m1": ("caught (C03 oracle: path from the document)", "paths whose literal segments contain a renamed parameter's wire name"),
 "C03c_m2": ("caught (C03 correspondence + oracle)", "NEW MODEL Client.v (AuthenticatedClient life cycle: shared headers dict, cached httpx clients, evolve / with_* / token assignment) with ClientThm.own_credential proved for every operation sequence; random + fixed operation sequences run on the generated client"),
 "C04c_m1": ("caught (C04 response-plan correspondence + oracle)", "documents generated WITH content_type_overrides (media types that become text / json / octet-stream / form only through the option); expectation applies the overrides"),
 "C10c_m1": ("caught (C10 oracle + type correspondence)", "grid re-run under literal_enums; enum with a repeated member"),
 "C10c_m2": ("caught (C10: models package import; also C01)", "grid declares the required-with-default property BEFORE the required ones without default"),
 "C05c_m1": ("caught (C05 stage A + stage C)", "enum-value slots whose text starts with a non-letter (positional VALUE_n branch) as separate sites; first-character payload classes; enum-member / import-exec oracle"),
 "C07c_m1": ("caught (C07 correspondence + oracle)", "prefix-related schema names (Order / OrderItem, Pet / PetStore, A / AB / ABC) in census documents and graphs"),
 "C08c_m2": ("caught (C08 oracle)", "bad pieces at path-item parameter level: inherited by every operation / overridden by some"),
 "C12c_m1": ("caught (C12 stage A recursion_test_is_exact + oracle)", "Retry.v models the recursion test (rec_exact_order_independent, rec_sloppy_refuted); suffix-named allOf families under every order"),
 "C12c_m2": ("caught (C12 stage A + oracle)", "dict views iterated by templates are table sites; twin string enums listing the same values in different orders (also exposed finding int_enum_twin_order)"),
 "C14c_m1": ("caught (C14 correspondence + oracle)", "EnumsThm2 (unreported_enum_own_table, twins_share_only_equal_tables) over Scopes.model_decls; twin enums with coinciding member names and different values"),
 "C15c_m2": ("caught (C15 oracle)", "suffix-related names, children declared before parents; both declaration orders"),
 "C16c_m1": ("caught (C16 stage A + B + C)", "FrameCodec.validate_location over the regenerated _allowed_locations: literal_enum_same_operations; enums in every position incl. all four parameter locations"),
 "C16c_m2": ("caught (C16 stage A + B + C)", "Frame.package_name = literal dash replacement (package_name_is_dash_replacement); overrides with upper case / camelCase / dots / spaces; default-location probe"),
 "C01d_m1": ("caught (C01 import)", "builtin_names_doc: every builtin / keyword / soft keyword as optional property name and query parameter"),
 "C02d_m1": ("caught (C02 document-vs-parse)", "which properties a component schema has and which it requires is read from the DOCUMENT (through allOf and references); children requiring a parent's optional property"),
 "C03d_m2": ("caught (C03 oracle + correspondence)", "path_defaults_doc in the operation atlas: defaults on earlier path parameters, renamed ones"),
 "C05d_m1": ("caught (C05 stage A + stage C)", "default-value slots of every kind that turns a string into code, classified by HOW the text is emitted (repr vs hand-quoted); validator-shaped payloads (also exposed findings uuid_default_whitespace - since repaired, fc6e947 - and literal_enum_default_docstring)"),
 "C08d_m2": ("caught (C08 + C07 oracle)", "bad pieces whose error has no detail (float / bool enums) at every position incl. inline body properties, array-body items, all-media-types-unparseable"),
 "C10d_m1": ("caught (C10 oracle; C02 oracle)", "closed classes in the grid; the runner checks that from_dict leaves its argument alone and decodes it equally twice"),
 "C10d_m2": ("caught (C10 oracle)", "optional parameters WITH a schema default; calls passing UNSET explicitly"),
 "C11d_m2": ("caught (C11 correspondence)", "NEW MODEL Returns.v: response_ty = union of all documented response types, return_annotation_truthful proved; Endpoint.response_type() compared with it"),
 "C12d_m1": ("caught (C12 stage A registries_are_persistent + stage B + oracle)", "RetryThm.failed_attempt_no_trace; regenerated fact: no in-place insertion into the schema registries; every failed attempt of the real parser leaves the registries unchanged; unions / arrays with inline object members ahead of forward references under every order"),
 "C13d_m1": ("caught (C13 stage B + oracle)", "same-class-name enum sites with equal values and different / invalid defaults, every layout, both enum styles"),
 "C13d_m2": ("caught (C13 stage B + oracle)", "RefDefault.nullable_default_carried / nullable_default_not_dropped; enums with a null member and a default in class and literal style"),
 "C15d_m1": ("caught (C15 correspondence + oracle)", "shared property names whose python_name differs from the JSON name (camelCase, kebab, leading digit, reserved word, case twins) in matrix, collect correspondence and documents"),
 "C18d_m2": ("caught (C18 name correspondence + oracle)", "regenerated spelling table (every template identifier N with _N, __N, N_, ' N', -N, N-, case variants); RenameThm.spelling_avoids; PythonIdentifier compared with Names.python_identifier for every candidate and spelling"),
 "C19d_m2": ("caught (C19 oracle)", "hostile names supplied through the CONFIGURATION (class_overrides class / module names) next to document names"),
 "C20d_m1": ("caught (C20 oracle)", "inline <-> reference rewriting of FORWARD allOf members with suffix-related and unrelated names"),
 "C01e_m1": ("caught (C01 compile + import)", "enum_edge_doc: enum values that are not identifier material (sign / punctuation first, digits after punctuation), both enum styles"),
 "C02e_m1": ("caught (C02 document-vs-parse)", "every value an inline enum property LISTS in the document must be a value of the parsed property; twin enums in subset / superset relation"),
 "C02e_m2": ("caught (C02 correspondence + oracle)", "locals_doc: properties named after every identifier the model templates bind (regenerated by gen_names.py for the tree under test, minus listed captures) next to later arrays"),
 "C04e_m2": ("caught (C04 oracle)", "legal spellings of media-type keys (white space before ';', parameters) in responses and request bodies"),
 "C06e_m1": ("caught (C06 stage A gen_kind_guards + stage C)", "cross-kind class-name collision documents (model / enum / union / array / allOf x positions x orders x enum styles); regenerated fact: every value read out of classes_by_name is used under an isinstance guard (also exposed finding const_multipart_crash, since repaired: 6f2d009)"),
 "C10e_m2": ("caught (C10 type correspondence + oracle)", "explicitly typed object composed by allOf of two components under every nullable notation"),
 "C11e_m2": ("caught (C11 mypy; C01 signature correspondence)", "operations whose only non-path argument is the request body, behind defaulted path parameters"),
 "C12e_m1": ("caught (C12 stage A import_pool_keys_distinct + hash-seed oracle)", "NEW translator gen_imports.py: the pool of fixed import lines every property class can contribute; no two distinct lines share a case-insensitive sort key; every kind optional next to another optional property under 6 hash seeds"),
 "C19e_m2": ("caught (C19 oracle + Fs.build correspondence)", "existing output directories of every shape (empty, only dot files, only sub-directories, one file) without --overwrite"),
 "C14e_m2": ("caught (C14 correspondence + oracle)", "Enums.enum_text (str / format of a member = text of its value; enum_text_str, enum_text_int); enums as parameters in all four locations, captured request vs document value"),
 "C16e_m1": ("caught (C16 stage A docstring_literals_documented + stage C)", "regenerated table of every interpolation inside a triple-quoted template literal; hostile descriptions under docstrings_on_attributes off / on"),
 "C16e_m2": ("caught (C16 stage A all_writers_encoded + stage C)", "regenerated table of every file writer and whether it passes file_encoding; every flavour x {cp1252, utf-16} against the utf-8 generation"),
 "C20e_m2": ("caught (C20 oracle)", "a referenced component that FAILS after being referenced, in every reference position, by-reference vs inline, with healthy twins"),
 "C01f_m1": ("caught (C01 import)", "path-item-level parameters whose inline schema creates a class (enum / int enum)"),
 "C01f_m2": ("caught (C01 import / name resolution)", "allOf child redefining an inherited inline-enum property with a superset enum carrying a default"),
 "C02f_m1": ("caught (C02 correspondence + oracle)", "enum values containing double / single quotes and control characters, as property and as array item"),
 "C02f_m2": ("caught (C02 oracle)", "optional unions WITH a default whose members all need construction, key absent"),
 "C03f_m2": ("caught (C03 oracle)", "client life-cycle stage tracks COOKIES: constructor cookies and with_cookies additions (which also reach the original's live httpx clients) for both variants"),
 "C04f_m1": ("caught (C04 oracle + response plan)", "one component response with an inline object schema shared by two operations at the same status"),
 "C04f_m2": ("caught (C04 correspondence + oracle)", "response unions whose scalar member precedes / follows a model member, scalar and object bodies"),
 "C06f_m1": ("caught (C06 stage A gen_detail_none_safe + stage C)", "regenerated fact: every read of .detail tolerates None; 301 documents planting detail-less failing schemas at every position where an error is later formatted"),
 "C07f_m1": ("caught (C07 gen_case correspondence + census; C03 oracle)", "census matches each declared request media type with its own Content-Type literal in the GENERATED function; gen_case: ordered body / status branches of the generated module == the model's parse_operation; same-kind media-type documents"),
 "C10f_m1": ("caught (C10 type correspondence + oracle)", "3.0 nullable next to an untyped two-member allOf"),
 "C10f_m2": ("caught (C10 oracle)", "operations whose query parameters are ALL required, a nullable one given None"),
 "C11f_m1": ("caught (C11 mypy)", "mypy on the builtin-names document (every builtin as a property next to union properties, whose decoders annotate `data: object`)"),
 "C11f_m2": ("caught (C11 mypy; C01 name resolution)", "mypy documents chosen by label (leaves, models, unions, triples, allof incl. the enum-redefining child)"),
 "C09f_m1": ("caught (C09 correspondence + oracle)", "Scopes.model_params2: the two add_parameters calls of one operation (model_params2_distinct_quiet, model_params2_keys); ~700 splits of parameters between the path-item and the operation list"),
 "C19f_m1": ("caught (C19 oracle)", "user files named like the files OTHER metadata flavours generate (setup.py in a poetry project ...), hidden files; a fixed history with a user file at every listed path"),
 "C19f_m2": ("caught (C19 oracle)", "--output-path in every spelling the OS accepts (./, trailing slash, a/../b, through a symlinked directory, symlink + ..): everything lands where the OS resolves the path"),
 "C15f_m2": ("caught (C15 correspondence + oracle)", "collect correspondence also compares PYTHON names (ProcProps.process); parents holding de-conflicted twins with a later member redeclaring one of them (also exposed finding allof_parent_attr_renamed)"),
 "C16f_m2": ("caught (C16 stage A metadata_reads_documented + stage C)", "regenerated table of every variable the metadata templates read (no read of openapi.version); every override in every flavour with a metadata file against the documented expectation"),
 "C17f_m2": ("caught (C17 correspondence + oracle)", "Norm.v extended with prefixItems (items_congruence, union_members_congruence); rewrites inside tuple arrays, duplicated members in equivalent spellings (also exposed finding prefix_items_grow_on_rebuild)"),
 "C18f_m1": ("caught (C18 oracle)", "twin names (same python name before de-confliction) as siblings of a model refined through allOf, 32 combinations, neutral twin control"),
 "C20f_m2": ("caught (C20 oracle; C03 caught it at once)", "body position with all four media-type kinds, one component shared by multipart / json / form bodies and responses, captured requests compared modulo the multipart boundary"),
 "C01g_m1": ("caught (C01 compile + import)", "two $ref allOf parents whose property names collide only after snake-casing"),
 "C03g_m2": ("caught (C03 oracle: exactly one request)", "every third call is answered by a redirect (307 + Location): the generated client must not follow it"),
 "C05g_m1": ("caught (C05 stage A + stage C)", "probe fills EVERY string-valued field the pydantic schema accepts (312 slots, incl. fields the generator ignores, in the configurations where a fallback would pick them up); site table keyed by field@position"),
 "C06g_m2": ("caught (C06 stage A gen_ctype_dispatch + B + C)", "document-SOURCE family: --url against a local HTTP server (status x Content-Type x URL shape x body), --path to directories / missing / binary files; loader choice tied to Norm.content_type_of (also exposed finding source_path_oserror, since repaired: 1071adc)"),
 "C09g_m2": ("caught (C09 correspondence + oracle)", "Scopes.model_decls_g / model_decls_lit: the class-name fold for any table builder, literal style keyed by the value (literal_classes_distinct_or_shared); declaration sequences and documents under literal_enums"),
 "C10g_m2": ("caught (C10 oracle)", "a schema OBJECT visited several times (path-item parameter, inline schema of a shared component response): the nullable enum keeps its three states for every operation"),
 "C11g_m2": ("caught (C11 mypy)", "integral defaults of an integer written in float form; the mypy_union_overlap classifier was narrowed to errors INSIDE the codec functions (it had masked this error)"),
 "C12g_m1": ("caught (C12 stage A + hash-seed oracle)", "a keyed sorted(...) over a set is an unsorted site; classes whose names differ only in case as responses / union members / imports"),
 "C12g_m2": ("caught (C12 stage A create_retry_is_unconditional + oracle)", "regenerated fact: _create_schemas re-queues every failed component before any conditional exit; inline ARRAY-of-forward-ref members, nested unions, additionalProperties holding the forward reference, all permutations"),
 "C13g_m2": ("caught (C13 correspondence + oracle)", "allOf merges in which BOTH declarations carry a default, untyped x every kind, both orders: the last declaration's default wins"),
 "C14g_m1": ("caught (C14 decode correspondence + oracle)", "enum values outside the BMP, combining marks, NBSP, RTL marks in both enum styles"),
 "C14g_m2": ("caught (C14 correspondence + oracle)", "3.0 nullable enums under the exactness oracle (unlisted values rejected)"),
 "C16g_m2": ("caught (C16 oracle)", "enums (string and integer) as direct fields, array items and union members of a MULTIPART body model, literal_enums off vs on"),
 "C18g_m1": ("caught (C18 oracle)", "two parameters of one operation in DIFFERENT locations whose names are different strings with one python name (N vs its lower / snake twin), every location pair"),
 "C19g_m2": ("caught (C19 oracle)", "the fixed history (generation, user files everywhere, regeneration of another document) also runs for the pdm and setup flavours in the quick tier"),
 "C20g_m1": ("caught (C20 oracle)", "defaults on the REFERENCING site (single-reference wrapper vs inline) for every scalar kind incl. every falsy value, in properties and parameters"),
 "C20g_m2": ("caught (C20 oracle)", "one component response under two / three status codes of one operation; canned responses for every documented status executed in both forms"),
 "C19c_m1": ("caught (C19 oracle + hook_cwd correspondence)", "post hooks: a marker hook that rewrites *.py below its working directory, all four flavours, with sentinel files around the output directory; Fs.hook_cwd"),
 "C10_m1": ("caught (C10 oracle, C02 correspondence)", "falsy-but-present values (0, \"\", false, {}, []) in the C02 atlas and the C10 grid"),
 "C10_m2": ("caught (C10 oracle; C15 caught it at once)", "allOf-refined required properties in the C10 grid"),
 "C10b_m1": ("caught (C10 oracle; also C15)", "allOf members that carry only `required`"),
 "C11_m1": ("caught (C11 mypy)", "multipart body model with union / nullable / uuid / date-time properties (also exposed finding mypy_uuid_multipart)"),
 "C11_m2": ("caught (C11 mypy, C01 name resolution)", "parameter kinds array-of-model, union-with-model, union-with-enum"),
 "C12_m1": ("caught (C12 stage A registrations_safe + tree oracle)", "Registry.v (sticky vs overwrite re-registration) + regenerated registration table; documents sharing a model between multipart and JSON bodies; path / media-type permutations"),
 "C13_m1": ("caught (C13)", "RefDefault.v: merge_default_reconverted; allOf-merged defaults inside / outside the narrowed set, both orders"),
 "C13_m2": ("caught (C13)", "ref_default_revalidated, conv_ok_none; defaults next to single-$ref wrappers incl. every falsy value, attributes and parameters"),
 "C15_m1": ("caught (C15)", "enums sharing member names with different values (case / punctuation / VALUE_n); enum-conjunction oracle"),
 "C15_m2": ("caught (C15)", "required-only inline members in collect correspondence and documents"),
 "C17_m1": ("caught (C17)", "referenced component schemas carrying their own default / description; wrapper_target_default_dropped"),
 "C19_m2": ("caught (C19 oracle)", "hostile names in secondary tag positions under generate_all_tags; deeper traversal; tag-directory set vs sanitised selected tags"),
 "C19b_m1": ("caught (C19 correspondence + oracle)", "a document without component schemas in the histories"),
 "C20_m1": ("caught (C20 oracle; C08 correspondence caught it at once)", "healthy siblings sharing a referenced schema with the failing user, declared before and after it"),
}
rows = []
for d in sorted(glob.glob("/verif/seeded/*/")):
    sid = os.path.basename(d.rstrip("/"))
    m = json.load(open(d + "meta.json"))
    summ = re.sub(r"\s+", " ", (m.get("summary") or ""))[:170].replace("|", "/")
    first = FIRST.get(sid, "?")
    after, note = NOTES.get(sid, ("", ""))
    rows.append(f"| {sid} | {summ} | {'caught' if first == 'CAUGHT' else 'missed'} | {after} | {note} |")
n = len(rows); c = sum(1 for r in rows if "| caught |" in r)
text = f"""### 10.2 Seeded changes (independent sub-agents; /verif/seeded/<id>/) and which check catches them

Each change was produced by a fresh sub-agent that saw only the property text and its own scratch worktree (nothing from /verif), and
was re-verified by the coordinator (demo exits 0 on the clean tree and 1 with the patch; the pinned suite has the same pass/fail
set with the patch). Seeds `C??b_*` are a SECOND generation for the same property: their authors were told which earlier changes
to avoid, so they measure how the strengthened checks generalise; seeds `C??c_*` are a THIRD generation (told to avoid the earlier
four) and `C??d_*` a FOURTH `C??e_*` a FIFTH, `C??f_*` a SIXTH and `C??g_*` a SEVENTH (each told to avoid all earlier ones). "first run" = the property's own quick check as it stood when
the change arrived ({c} of {n} caught); every miss led to a strengthening of generators, oracles or models, never to a special case
for the seed. After strengthening all {n} are caught by the property's own quick check (re-tested with harness/seedtest_iso.py on isolated copies).

| seed | change | first run | after | what was strengthened |
|---|---|---|---|---|
""" + "\n".join(rows) + "\n"
p = "/verif/DESIGN.md"; s = open(p).read()
i = s.index("### 10.2 Seeded changes")
s = s[:i] + text
open(p, "w").write(s)
print(n, c)
