#!/usr/bin/env python3
"""Apply a seeded change to /repo, run the given checks, always undo. usage: seedtest.py <patch.diff> <ID> [<ID>...]"""
import subprocess, sys
patch, ids = sys.argv[1], sys.argv[2:]
st = subprocess.run("git -C /repo status --porcelain", shell=True, capture_output=True, text=True).stdout.strip()
assert not st, "repo not clean: " + st
try:
    subprocess.run(["git", "-C", "/repo", "apply", patch], check=True)
    for i in ids:
        r = subprocess.run(["/venv/bin/python", "/verif/harness/check.py", i, "--tier", "quick"], capture_output=True, text=True)
        lines = [l for l in r.stdout.split("\n") if l.startswith(("VIOLATION", "OK ", "KNOWN", "  "))]
        print(f"== {i} exit={r.returncode}")
        print("\n".join(lines[:8])[:2500])
finally:
    subprocess.run("git -C /repo checkout -- . && git -C /repo clean -fdq", shell=True)
