#!/venv/bin/python
"""Entry point: /venv/bin/python /verif/harness/check.py <ID> [--tier quick|thorough] [--replay FILE]"""
import sys, os, argparse, importlib, traceback
REPO = os.environ.get("OPC_REPO", "/repo")
os.environ["PYTHONPATH"] = REPO
os.environ.setdefault("PYTHONHASHSEED", "0")
sys.path.insert(0, os.path.dirname(os.path.abspath(__file__)))
sys.path.insert(0, REPO)
from lib.common import Run, stage_a

def main():
    ap = argparse.ArgumentParser()
    ap.add_argument("pid")
    ap.add_argument("--tier", default=os.environ.get("VERIF_TIER", "quick"))
    ap.add_argument("--replay", default=None)
    ap.add_argument("--skip-build", action="store_true")
    a = ap.parse_args()
    seed = int(os.environ.get("VERIF_SEED", "0") or 0)
    tier = a.tier if a.tier in ("quick", "thorough") else "quick"
    run = Run(a.pid, tier, seed)
    mod = importlib.import_module(f"props.{a.pid.lower()}")
    try:
        sa = stage_a(a.pid)
        run.stageA = sa
        if not sa["ok"]:
            run.stageA_failed = True
        mod.run(run, tier, replay=a.replay)
        if not sa["ok"] and not [v for v in run.violations if not v.get("no_failing_input_found")]:
            run.violation("proof-obligation", {"obligation": sa["failing"], "log": sa["log"][-1500:],
                          "note": "a theorem / regenerated fact in the cone of props/%s.v no longer checks; search found no failing input" % a.pid}, no_input=True)
    except Exception as e:
        traceback.print_exc()
        run.violation("harness-error", {"error": repr(e), "trace": traceback.format_exc()[-1500:]}, no_input=True)
    sys.exit(run.finish())

if __name__ == "__main__":
    main()
