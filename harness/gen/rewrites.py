"""C17 stage C: schema positions of a document, the notation rewrites, site-rich documents.
A rewrite candidate is (label, new_schema, guard_class) where guard_class is None when the rewrite is inside the proved
domain of coq/NormThm.v (and the position class is one where the equivalence is a congruence), else the id of the listed
finding that owns the case.  The boolean guards are mirrored here and re-checked against the Coq definitions by the harness."""
from __future__ import annotations
import copy, random
from gen import normgen as NG

REF = NG.REF
METHODS = ("get", "put", "post", "delete", "options", "head", "patch", "trace")
NULL = {"type": "null"}
TOP = ("root", "param", "body", "response")


# ------------------------------------------------------------------ positions
def walk_schema(path, pos, s, parent=None):
    """yield (path, position class, parent composition size) for s and the schemas inside it"""
    yield (path, pos, parent)
    if not isinstance(s, dict) or "$ref" in s:
        return
    for k, v in (s.get("properties") or {}).items():
        if isinstance(v, dict):
            yield from walk_schema(path + ["properties", k], "prop", v)
    if isinstance(s.get("items"), dict):
        yield from walk_schema(path + ["items"], "items", s["items"])
    for i, m in enumerate(s.get("prefixItems") or []):
        if isinstance(m, dict):
            yield from walk_schema(path + ["prefixItems", i], "prefix", m)
    if isinstance(s.get("additionalProperties"), dict):
        yield from walk_schema(path + ["additionalProperties"], "addl", s["additionalProperties"])
    total = sum(len(s.get(k) or []) for k in ("allOf", "anyOf", "oneOf"))
    for kw in ("allOf", "anyOf", "oneOf"):
        for i, m in enumerate(s.get(kw) or []):
            if isinstance(m, dict):
                yield from walk_schema(path + [kw, i], "member:" + kw, m, parent=total)


def walk(doc):
    comps = doc.get("components") or {}
    for n, s in (comps.get("schemas") or {}).items():
        yield from walk_schema(["components", "schemas", n], "root", s)
    for n, p in (comps.get("parameters") or {}).items():
        if isinstance(p, dict) and isinstance(p.get("schema"), dict):
            yield from walk_schema(["components", "parameters", n, "schema"], "param", p["schema"])

    def params(base, lst):
        for i, p in enumerate(lst or []):
            if isinstance(p, dict) and isinstance(p.get("schema"), dict):
                yield from walk_schema(base + [i, "schema"], "param", p["schema"])

    def content(base, c, pos):
        for mt, m in (c or {}).items():
            if isinstance(m, dict) and isinstance(m.get("schema"), dict):
                yield from walk_schema(base + [mt, "schema"], pos, m["schema"])

    for pth, item in (doc.get("paths") or {}).items():
        if not isinstance(item, dict):
            continue
        yield from params(["paths", pth, "parameters"], item.get("parameters"))
        for m in METHODS:
            op = item.get(m)
            if not isinstance(op, dict):
                continue
            yield from params(["paths", pth, m, "parameters"], op.get("parameters"))
            rb = op.get("requestBody")
            if isinstance(rb, dict):
                yield from content(["paths", pth, m, "requestBody", "content"], rb.get("content"), "body")
            for code, r in (op.get("responses") or {}).items():
                if isinstance(r, dict):
                    yield from content(["paths", pth, m, "responses", code, "content"], r.get("content"), "response")


def get_at(doc, path):
    x = doc
    for k in path:
        x = x[k]
    return x


def set_at(doc, path, v):
    x = doc
    for k in path[:-1]:
        x = x[k]
    x[path[-1]] = v


# ------------------------------------------------------------------ guards (python mirrors of Norm.g_enum_null / g_wrapper)
def g_enum_null(s):
    t, nl = s.get("type"), bool(s.get("nullable"))
    if isinstance(t, list):
        return False
    if isinstance(t, str):
        return (not nl) and t != "boolean"
    return True


def g_wrapper(s):
    if s.get("default") is not None:
        return False
    return True if s.get("type") is not None else not s.get("nullable")


def wrapper_ref(s):
    """the single $ref of a wrapper, or None"""
    if not isinstance(s, dict) or "$ref" in s:
        return None
    sub = (s.get("allOf") or []) + (s.get("anyOf") or []) + (s.get("oneOf") or [])
    if len(sub) == 1 and isinstance(sub[0], dict) and set(sub[0]) == {"$ref"}:
        return sub[0]
    return None


def d_position_class(pos, parent):
    """None = the wrapper equivalence is a congruence here; else the finding that owns the position"""
    if pos == "root":
        return "root_bare_ref_unsupported"
    if pos == "member:allOf":
        return "wrapper_as_allof_member"
    if pos.startswith("member:") and parent == 1:
        return "wrapper_under_single_member"
    return None


def homogeneous(rest):
    return bool(rest) and (all(isinstance(v, str) for v in rest) or all(isinstance(v, int) and not isinstance(v, bool) for v in rest))


# ------------------------------------------------------------------ rewrite candidates per family
def cands_b(s, pos, parent, rng):
    out = []
    if not isinstance(s, dict) or "$ref" in s:
        return out
    t, nl = s.get("type"), s.get("nullable")
    comp = any(s.get(k) for k in ("anyOf", "oneOf", "allOf"))
    if isinstance(t, str) and nl is True:
        n = {k: v for k, v in s.items() if k != "nullable"}
        n["type"] = [t, "null"]
        out.append(("b1:nullable->typelist", n, None))
    if isinstance(t, list) and len(t) == 2 and t[1] == "null" and t[0] != "null" and not nl:
        n = dict(s)
        n["type"], n["nullable"] = t[0], True
        out.append(("b1r:typelist->nullable", n, None))
    if isinstance(t, list) and t and not nl and not comp and not s.get("enum"):
        keep = {k: s[k] for k in ("default", "description", "example") if k in s}
        mk = {k: v for k, v in s.items() if k not in ("type", "default")}
        n = {"anyOf": [{**copy.deepcopy(mk), "type": x} for x in t], **keep}
        out.append(("b2:typelist->anyOf", n, None))
    if t is None and nl is True:
        n = {k: v for k, v in s.items() if k != "nullable"}
        if s.get("oneOf"):
            n["oneOf"] = list(s["oneOf"]) + [dict(NULL)]
            out.append(("b3:oneOf+nullable->explicit", n, None))
        elif s.get("anyOf"):
            n["anyOf"] = list(s["anyOf"]) + [dict(NULL)]
            out.append(("b3:anyOf+nullable->explicit", n, None))
        elif s.get("allOf"):
            n.pop("allOf")
            n["oneOf"] = [dict(NULL), {"allOf": s["allOf"]}]
            out.append(("b4:allOf+nullable->oneOf[null,allOf]", n, None))
    if t is None and not nl:
        one, anyl = s.get("oneOf") or [], s.get("anyOf") or []
        if len(one) >= 2 and one[-1] == NULL:
            n = dict(s)
            n["oneOf"], n["nullable"] = one[:-1], True
            out.append(("b3r:explicit->oneOf+nullable", n, None))
        elif not one and len(anyl) >= 2 and anyl[-1] == NULL:
            n = dict(s)
            n["anyOf"], n["nullable"] = anyl[:-1], True
            out.append(("b3r:explicit->anyOf+nullable", n, None))
    return out


def cands_c(s, pos, parent, rng):
    out = []
    if not isinstance(s, dict) or "$ref" in s:
        return out
    comp = any(s.get(k) for k in ("anyOf", "oneOf", "allOf"))
    en = s.get("enum")
    if isinstance(en, list) and any(v is None for v in en) and not comp:
        rest = [v for v in en if v is not None]
        if homogeneous(rest):
            inner = dict(s)
            inner["enum"] = rest
            outer = {"oneOf": [dict(NULL), inner]}
            for k in ("default", "description", "example"):
                if k in s:
                    outer[k] = s[k]
            out.append(("c:enum-null->union", outer, None if g_enum_null(s) else "enum_null_typelist_double_expansion"))
    if set(s) <= {"oneOf", "default", "description", "example"} and isinstance(s.get("oneOf"), list) and len(s["oneOf"]) == 2 and s["oneOf"][0] == NULL:
        e = s["oneOf"][1]
        if (isinstance(e, dict) and "$ref" not in e and isinstance(e.get("enum"), list) and None not in e["enum"] and homogeneous(e["enum"])
                and not any(e.get(k) for k in ("anyOf", "oneOf", "allOf")) and e.get("default") == s.get("default")
                and e.get("description") == s.get("description") and e.get("example") == s.get("example") and g_enum_null(e)):
            n = dict(e)
            vals = list(e["enum"])
            vals.insert(rng.randint(0, len(vals)), None)
            n["enum"] = vals
            out.append(("cr:union->enum-null", n, None))
    return out


def cands_d(s, pos, parent, rng):
    out = []
    if not isinstance(s, dict):
        return out
    pc = d_position_class(pos, parent)
    if set(s) == {"$ref"}:
        n = {rng.choice(["allOf", "oneOf", "anyOf"]): [dict(s)]}
        if rng.random() < 0.4:
            n["description"] = "wrapped reference"
        if rng.random() < 0.2:
            n["title"] = "WrapTitle"
        if rng.random() < 0.15:
            n["type"] = "object"
        out.append(("d:ref->wrapper", n, pc))
    elif wrapper_ref(s) is not None:
        out.append(("dr:wrapper->ref", dict(wrapper_ref(s)), pc if g_wrapper(s) else "wrapper_keywords"))
    return out


def cands_e(s, pos, parent, rng):
    out = []
    if not isinstance(s, dict) or "$ref" in s:
        return out
    for lim, ex in (("minimum", "exclusiveMinimum"), ("maximum", "exclusiveMaximum")):
        if s.get(ex) is True and isinstance(s.get(lim), (int, float)) and not isinstance(s.get(lim), bool):
            n = {k: v for k, v in s.items() if k != lim}
            n[ex] = s[lim]
            out.append((f"e:{ex} bool->numeric", n, None))
        elif isinstance(s.get(ex), (int, float)) and not isinstance(s.get(ex), bool) and lim not in s:
            n = dict(s)
            n[lim], n[ex] = s[ex], True
            out.append((f"er:{ex} numeric->bool", n, None))
    return out


FAMILIES = {"b": cands_b, "c": cands_c, "d": cands_d, "e": cands_e}


def apply_family(doc, fams, rng, p=0.5, want_guard=None, max_sites=None):
    """Rewrite a random subset of the applicable positions (deepest first). want_guard None: only sites inside the proved
    domain; a finding id: only sites of that class. Returns (new_doc, [applied site descriptions])."""
    new = copy.deepcopy(doc)
    sites = sorted(walk(new), key=lambda x: -len(x[0]))
    applied = []
    chosen_paths = []
    for path, pos, parent in sites:
        # a site below an already rewritten site keeps its path only if the ancestor rewrite happens later (deepest first): fine.
        try:
            s = get_at(new, path)
        except (KeyError, IndexError, TypeError):
            continue
        cs = []
        for f in fams:
            cs += FAMILIES[f](s, pos, parent, rng)
        cs = [c for c in cs if c[2] == want_guard]
        if not cs or rng.random() > p:
            continue
        if max_sites is not None and len(applied) >= max_sites:
            break
        label, n, gc = rng.choice(cs)
        set_at(new, path, n)
        applied.append({"path": path, "position": pos, "rewrite": label, "before": s, "after": n, "class": gc})
    return new, applied


# ------------------------------------------------------------------ documents rich in rewrite sites
def site_doc(rng: random.Random, n=22, version="3.1.0"):
    sg = NG.SGen(rng)
    comps = copy.deepcopy(NG.BASE)
    paths = {}
    for i in range(n):
        s = sg.schema(rng.randint(1, 2))
        if rng.random() < 0.25 and isinstance(s, dict) and s.get("type") in ("integer", "number"):
            r = rng.random()
            if r < 0.5:
                s["minimum"], s["exclusiveMinimum"] = rng.choice([0, 5]), True
            else:
                s["exclusiveMaximum"] = rng.choice([10, 99.5])
        pos = rng.choice(["prop", "prop", "items", "addl", "member", "param", "body", "response", "root", "tuple", "tuple", "dupmember", "allofdup"])
        if pos == "root" and "$ref" in s:
            pos = "prop"
        if pos == "root":
            comps[f"C{i}"] = s
        elif pos == "prop":
            comps[f"H{i}"] = {"type": "object", "properties": {rng.choice(NG.PNAMES): s, "other": {"type": "string"}}, "required": ["other"]}
        elif pos == "items":
            comps[f"H{i}"] = {"type": "object", "properties": {"lst": {"type": "array", "items": s}}}
        elif pos == "addl":
            comps[f"H{i}"] = {"type": "object", "properties": {"k": {"type": "string"}}, "additionalProperties": s}
        elif pos == "member":
            comps[f"H{i}"] = {"type": "object", "properties": {"u": {rng.choice(["anyOf", "oneOf"]): [s, {"type": "integer"}]}}}
        elif pos == "tuple":
            # sibling sub-schemas that say the same thing, in the same or in another spelling (prefixItems vs items)
            other = copy.deepcopy(s) if rng.random() < 0.5 else NG.respell(s, rng)
            arr = {"type": "array", "prefixItems": [s] + ([{"type": "integer"}] if rng.random() < 0.3 else []), "items": other}
            if rng.random() < 0.3:
                comps[f"C{i}"] = arr
            elif rng.random() < 0.3:
                paths[f"/o{i}"] = {"get": {"operationId": f"op{i}", "responses": {"200": {"description": "ok", "content": {"application/json": {"schema": arr}}}}}}
            else:
                comps[f"H{i}"] = {"type": "object", "properties": {"cells": arr}}
        elif pos == "dupmember":
            other = copy.deepcopy(s) if rng.random() < 0.5 else NG.respell(s, rng)
            comps[f"H{i}"] = {"type": "object", "properties": {"u": {rng.choice(["anyOf", "oneOf"]): [s, other] + ([{"type": "integer"}] if rng.random() < 0.5 else [])}}}
        elif pos == "allofdup":
            other = copy.deepcopy(s) if rng.random() < 0.5 else NG.respell(s, rng)
            comps[f"H{i}"] = {"allOf": [{"type": "object", "properties": {"x": s}}, {"type": "object", "properties": {"x": other, "y": {"type": "string"}}}]}
        elif pos == "param":
            paths[f"/o{i}"] = {"get": {"operationId": f"op{i}", "parameters": [{"name": "q", "in": "query", "schema": s}], "responses": {"200": {"description": "ok"}}}}
        elif pos == "body":
            paths[f"/o{i}"] = {"post": {"operationId": f"op{i}", "requestBody": {"content": {"application/json": {"schema": s}}}, "responses": {"200": {"description": "ok"}}}}
        else:
            paths[f"/o{i}"] = {"get": {"operationId": f"op{i}", "responses": {"200": {"description": "ok", "content": {"application/json": {"schema": s}}}}}}
    return {"openapi": version, "info": {"title": "t", "version": "1"}, "paths": paths, "components": {"schemas": comps}}


DEFAULTED = ["Colour", "Currency", "Count", "Flag", "Blank", "Level", "When", "NColour", "E", "S"]


def refdefaults_doc(rng: random.Random, wrapped=None):
    """Referenced component schemas that carry their OWN default / description / example (truthy and falsy), used through a bare
    $ref (or, for the names in `wrapped`, already through a wrapper) at attribute, items, additionalProperties, union-member,
    parameter, body and response positions."""
    wrapped = wrapped or set()
    comps = copy.deepcopy(NG.BASE)
    use = lambda n: ({rng.choice(["allOf", "oneOf", "anyOf"]): [{"$ref": REF + n}]} if n in wrapped else {"$ref": REF + n})
    names = list(DEFAULTED)
    rng.shuffle(names)
    comps["Order"] = {"type": "object", "required": ["id"],
                      "properties": {"id": {"type": "integer"}, **{n.lower(): use(n) for n in names},
                                     "tags": {"type": "array", "items": use(names[0])},
                                     "cells": {"type": "array", "prefixItems": [use(names[3])], "items": use(names[3])},
                                     "row": {"type": "array", "prefixItems": [use(names[4]), {"type": ["string", "null"], "format": "date"}],
                                             "items": {"type": ["string", "null"], "format": "date"}},
                                     "either": {"anyOf": [use(names[1]), {"type": "array", "items": {"type": "integer"}}]}},
                      "additionalProperties": use(names[2])}
    comps["Req"] = {"type": "object", "required": [n.lower() for n in names[:4]], "properties": {n.lower(): use(n) for n in names[:4]}}
    paths = {}
    for i, n in enumerate(names):
        paths[f"/q{i}"] = {"get": {"operationId": f"q{i}", "parameters": [{"name": n.lower(), "in": "query", "schema": use(n)},
                                                                         {"name": "h" + n.lower(), "in": "header", "required": i % 2 == 0, "schema": use(names[(i + 1) % len(names)])}],
                                   "responses": {"200": {"description": "ok", "content": {"application/json": {"schema": use(names[(i + 2) % len(names)])}}}}}}
        paths[f"/b{i}"] = {"post": {"operationId": f"b{i}", "requestBody": {"content": {"application/json": {"schema": use(n)}}}, "responses": {"200": {"description": "ok"}}}}
    return {"openapi": "3.1.0", "info": {"title": "t", "version": "1"}, "paths": paths, "components": {"schemas": comps}}
