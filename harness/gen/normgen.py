"""C17: schemas in several equivalent notations, their Coq `sch` terms (coq/Norm.v), the abstraction of validated
oai.Schema objects back to `sch` and of built property objects to `tree`.  Every random choice comes from the rng passed in."""
from __future__ import annotations
import copy, random
from lib.common import cstr, cbool, copt
from lib.vals import cjval, cevalue

REF = "#/components/schemas/"
JTY = {"string": "JString", "number": "JNumber", "integer": "JInteger", "boolean": "JBoolean", "array": "JArray", "object": "JObject", "null": "JTNull"}

# keywords the AST knows by name; anything else only sets o_extra
KNOWN = {"$ref", "type", "nullable", "enum", "anyOf", "oneOf", "allOf", "items", "prefixItems", "format", "default", "const", "properties", "title"}


# ------------------------------------------------------------------ dict -> Coq sch
def csch(s: dict) -> str:
    if "$ref" in s:
        return f"(SRef {cstr(s['$ref'])})"
    t = s.get("type")
    ty = "TyAbsent" if t is None else (f"(TyOne {JTY[t]})" if isinstance(t, str) else "(TyList [" + "; ".join(JTY[x] for x in t) + "])")
    en = "[" + "; ".join(cjval(v) for v in s.get("enum") or []) + "]"
    lst = lambda k: "[" + "; ".join(csch(x) for x in s.get(k) or []) + "]"
    items = copt(s.get("items"), csch)
    fmt = copt(s.get("format"), cstr)
    d = copt(s.get("default"), cjval)
    o = ("{| o_const := %s; o_props := %s; o_title := %s; o_extra := %s |}"
         % (cbool(s.get("const") is not None), cbool(bool(s.get("properties"))), copt(s.get("title"), cstr), cbool(any(k not in KNOWN for k in s))))
    return f"(SSch {ty} {cbool(bool(s.get('nullable')))} {en} {lst('anyOf')} {lst('oneOf')} {lst('allOf')} {items} {lst('prefixItems')} {fmt} {d} {o})"


# ------------------------------------------------------------------ validated oai.Schema -> Coq sch (nullable is printed false: never read after validation)
def csch_validated(x, extra_of=None) -> str:
    """x: oai.Schema | oai.Reference after pydantic validation. o_extra is taken from the source dict via extra_of (the validators
    do not touch other keywords; Schema objects created BY a validator have none)."""
    if type(x).__name__ == "Reference":
        return f"(SRef {cstr(x.ref)})"
    t = x.type
    tv = lambda e: JTY[e.value if hasattr(e, "value") else e]
    ty = "TyAbsent" if t is None else ("(TyList [" + "; ".join(tv(e) for e in t) + "])" if isinstance(t, list) else f"(TyOne {tv(t)})")
    en = "[" + "; ".join(cjval(v) for v in x.enum or []) + "]"
    lst = lambda l: "[" + "; ".join(csch_validated(y) for y in l or []) + "]"
    items = copt(x.items, csch_validated)
    fmt = copt(x.schema_format, cstr)
    d = copt(x.default, cjval)
    fs = x.model_fields_set
    known_fields = {"type", "nullable", "enum", "anyOf", "oneOf", "allOf", "items", "prefixItems", "schema_format", "default", "const", "properties", "title"}
    o = ("{| o_const := %s; o_props := %s; o_title := %s; o_extra := %s |}"
         % (cbool(x.const is not None), cbool(bool(x.properties)), copt(x.title, cstr), cbool(any(f not in known_fields for f in fs))))
    return f"(SSch {ty} {cbool(bool(x.nullable))} {en} {lst(x.anyOf)} {lst(x.oneOf)} {lst(x.allOf)} {items} {lst(x.prefixItems)} {fmt} {d} {o})"


# ------------------------------------------------------------------ property object -> Coq tree
LEAF = {"AnyProperty": "LAny", "NoneProperty": "LNone", "BooleanProperty": "LBool", "IntProperty": "LInt", "FloatProperty": "LFloat",
        "StringProperty": "LStr", "DateProperty": "LDate", "DateTimeProperty": "LDateTime", "UuidProperty": "LUuid", "FileProperty": "LFile",
        "ConstProperty": "LConst"}


def ctree(p) -> str:
    n = type(p).__name__
    if n == "PropertyError" or p is None:
        return "TErr"
    d = copt(None if p.default is None else p.default.raw_value, cjval)
    if n in LEAF:
        return f"(TLeaf {LEAF[n]} {cstr(p.name)} {d})"
    if n == "EnumProperty":
        vt = "VInt" if p.value_type is int else "VStr"
        return f"(TEnum false {cstr(p.name)} {cstr(str(p.class_info.name))} {vt} [" + "; ".join(cevalue(v) for v in p.values.values()) + f"] {d})"
    if n == "LiteralEnumProperty":
        vt = "VInt" if p.value_type is int else "VStr"
        return f"(TEnum true {cstr(p.name)} {cstr(str(p.class_info.name))} {vt} [" + "; ".join(cevalue(v) for v in sorted(p.values)) + f"] {d})"
    if n == "ListProperty":
        return f"(TList {cstr(p.name)} {ctree(p.inner_property)})"
    if n == "UnionProperty":
        return f"(TUnion {cstr(p.name)} [" + "; ".join(ctree(m) for m in p.inner_properties) + f"] {d})"
    if n == "ModelProperty":
        return f"(TModel {cstr(p.name)} {cstr(str(p.class_info.name))})"
    raise ValueError("unknown property class " + n)


# ------------------------------------------------------------------ base components every stage-B document carries
BASE = {
    "E": {"type": "string", "enum": ["x", "y"]},
    "EI": {"type": "integer", "enum": [1, 2]},
    "R": {"type": "object", "properties": {"a": {"type": "integer"}}},
    "S": {"type": "string"},
    "D": {"type": "string", "format": "date"},
    "L": {"type": "array", "items": {"$ref": REF + "R"}},
    "U": {"anyOf": [{"$ref": REF + "R"}, {"type": "string"}]},
    "NE": {"enum": ["p", "q", None]},
    # referenced components that carry their OWN default / description / example (incl. falsy defaults): a property that
    # reaches them through $ref or a single-reference wrapper takes the default of the referring schema only
    "Colour": {"type": "string", "enum": ["green", "red"], "default": "green", "description": "a colour"},
    "Currency": {"type": "string", "default": "EUR", "description": "ISO code", "example": "EUR"},
    "Count": {"type": "integer", "default": 0},
    "Flag": {"type": "boolean", "default": False, "example": True},
    "Blank": {"type": "string", "default": ""},
    "Level": {"type": "integer", "enum": [0, 1, 2], "default": 0},
    "When": {"type": "string", "format": "date", "default": "2020-01-01"},
    "NColour": {"type": "string", "enum": ["blue", None], "default": "blue"},
}
BASE_ORDER = list(BASE)
PNAMES = ["p", "my_prop", "Val", "a-b", "x1", "class", "9lives", "camelCase"]
FORMATS = [None, None, None, "date", "date-time", "uuid", "binary", "byte", "email"]


def has_tuple(s):
    if not isinstance(s, dict) or "$ref" in s:
        return False
    if s.get("prefixItems") and isinstance(s.get("items"), dict):
        return True
    subs = list((s.get("properties") or {}).values()) + [s.get("items"), s.get("additionalProperties")] + list(s.get("prefixItems") or [])
    for k in ("anyOf", "oneOf", "allOf"):
        subs += list(s.get(k) or [])
    return any(has_tuple(x) for x in subs)


def rebuilt_tuple(s):
    """a tuple array (prefixItems + items) below a schema whose anyOf/oneOf members are built more than once (a type list expands
    them once per listed type): ListProperty.build appends `items` to the SAME prefixItems list on every build (listed finding
    prefix_items_grow_on_rebuild) - stateful, outside Norm.v"""
    if not isinstance(s, dict) or "$ref" in s:
        return False
    t = s.get("type")
    if (isinstance(t, list) or (isinstance(t, str) and s.get("nullable"))) and any(has_tuple(m) for k in ("anyOf", "oneOf") for m in (s.get(k) or [])):
        return True
    subs = list((s.get("properties") or {}).values()) + [s.get("items"), s.get("additionalProperties")] + list(s.get("prefixItems") or [])
    for k in ("anyOf", "oneOf", "allOf"):
        subs += list(s.get(k) or [])
    return any(rebuilt_tuple(x) for x in subs)


def respell(s, rng):
    """the same schema in another of the notations C17 calls equivalent (only rewrites whose tree equality is proved for every
    position: nullable <-> type list, reference <-> wrapper without extra default); unchanged when none applies"""
    s = copy.deepcopy(s)
    if set(s) == {"$ref"}:
        return {rng.choice(["allOf", "oneOf", "anyOf"]): [s]}
    t, nl = s.get("type"), s.get("nullable")
    if isinstance(t, str) and nl is True:
        s.pop("nullable")
        s["type"] = [t, "null"]
    elif isinstance(t, list) and len(t) == 2 and t[1] == "null" and t[0] != "null" and not nl:
        s["type"], s["nullable"] = t[0], True
    else:
        sub = (s.get("allOf") or []) + (s.get("anyOf") or []) + (s.get("oneOf") or [])
        if len(sub) == 1 and isinstance(sub[0], dict) and set(sub[0]) == {"$ref"} and s.get("default") is None and (t is not None or not nl):
            return dict(sub[0])
    return s


class SGen:
    """random schemas over the notations C17 is about. valid=True avoids shapes whose outcome depends on default conversion."""

    def __init__(self, rng: random.Random, literal=False):
        self.rng = rng
        self.tc = 0
        self.literal = literal

    def title(self):
        self.tc += 1
        return f"Ttl{self.tc}"

    def extras(self, s, p=0.25, default=None):
        rng = self.rng
        if rng.random() < p:
            s["description"] = rng.choice(["desc", "a \"quoted\" text", "multi\nline"])
        ty = s.get("type")
        is_obj = ty == "object" or (isinstance(ty, list) and "object" in ty) or "properties" in s
        if rng.random() < p / 2 and not is_obj:
            # (an inline model reached twice under a type list would collide with itself by title: class-name collisions are not C17's subject)
            s["title"] = self.title()
        if rng.random() < p / 3:
            s["example"] = "ex"
        if default is not None and rng.random() < 0.4:
            s["default"] = default
        return s

    def typed(self, t, d):
        """keywords that go with a single type"""
        rng = self.rng
        s = {}
        dflt = None
        if t == "string":
            f = rng.choice(FORMATS)
            if f:
                s["format"] = f
            dflt = {"date": "2020-01-01", "date-time": "2020-01-01T00:00:00", "uuid": "12345678-1234-5678-1234-567812345678", "binary": None}.get(f, "dflt")
        elif t == "integer":
            dflt = 7
        elif t == "number":
            dflt = rng.choice([1.5, 3])
        elif t == "boolean":
            dflt = True
        elif t == "array":
            r = rng.random()
            if r < 0.3:
                # 3.1 tuple array: prefixItems (+ items). The rest schema is often EQUAL to a prefix member - in the same spelling
                # or in an equivalent one - and must still become its own union member
                p1 = self.schema(d - 1)
                s["prefixItems"] = [p1] + ([self.schema(d - 1)] if rng.random() < 0.3 else [])
                r2 = rng.random()
                if r2 < 0.35:
                    s["items"] = copy.deepcopy(p1)
                elif r2 < 0.6:
                    s["items"] = respell(p1, rng)
                elif r2 < 0.85:
                    s["items"] = self.schema(d - 1)
            elif r < 0.95:
                s["items"] = self.schema(d - 1)
        elif t == "object":
            if rng.random() < 0.8:
                s["properties"] = {"z": {"type": "integer"}}
        return s, dflt

    def nullable_typed(self, d):
        """a typed schema in one of the notations: plain, 3.0 nullable, 3.1 type list, several types"""
        rng = self.rng
        t = rng.choice(["string", "string", "integer", "number", "boolean", "array", "object", "null"])
        kw, dflt = self.typed(t, d)
        r = rng.random()
        if r < 0.3:
            s = {"type": t}
        elif r < 0.5:
            s = {"type": t, "nullable": True}
        elif r < 0.7:
            s = {"type": [t, "null"]}
        elif r < 0.8:
            s = {"type": ["null", t]}
        elif r < 0.9:
            t2 = rng.choice(["string", "integer", "boolean", "number"])
            s = {"type": [t, t2] + (["null"] if rng.random() < 0.5 else [])}
            if rng.random() < 0.3:
                s["nullable"] = True
        else:
            s = {"type": [t]}
            if rng.random() < 0.5:
                s["nullable"] = True
        s.update(kw)
        return self.extras(s, default=dflt)

    def enum(self, d):
        rng = self.rng
        if rng.random() < 0.6:
            vals = sorted(rng.sample(["a", "b c", "D", "e_f", "on", "zz"], rng.randint(1, 4)))
            t = "string"
        else:
            vals = sorted(rng.sample([-3, 0, 1, 2, 10], rng.randint(1, 4)))
            t = "integer"
        s = {}
        r = rng.random()
        if r < 0.35:
            s["type"] = t
        elif r < 0.5:
            s["type"] = [t, "null"]
        elif r < 0.6:
            s["type"], s["nullable"] = t, True
        dflt = rng.choice(vals)
        ev = list(vals)
        if rng.random() < 0.55:
            ev.insert(rng.randint(0, len(ev)), None)
            if rng.random() < 0.1:
                ev.insert(rng.randint(0, len(ev)), None)
        s["enum"] = ev
        return self.extras(s, default=dflt)

    def ref(self):
        return {"$ref": REF + self.rng.choice(BASE_ORDER)}

    def wrapper(self):
        rng = self.rng
        target = rng.choice(BASE_ORDER)
        s = {rng.choice(["allOf", "oneOf", "anyOf"]): [{"$ref": REF + target}]}
        r = rng.random()
        if r < 0.25:
            s["nullable"] = True
        if rng.random() < 0.3:
            s["description"] = "wrapped"
        if rng.random() < 0.15:
            s["title"] = self.title()
        if rng.random() < 0.15:
            s["type"] = "object"
        if rng.random() < 0.3:
            # default re-validation against the referenced class: valid and invalid members, model target.
            # (a nullable wrapper is a union: only defaults some member accepts, the conversion itself is C13's subject)
            nl = bool(s.get("nullable"))
            if target == "E":
                s["default"] = rng.choice(["x", "y"] if nl else ["x", "y", "nope"])
            elif target == "EI":
                s["default"] = rng.choice([1, 2] if nl else [1, 2, 5])
            elif target == "NE":
                s["default"] = rng.choice(["p", "q"])
            elif target in ("R", "L") and not nl:
                s["default"] = "whatever"
            elif target == "S":
                s["default"] = "sdef"
            elif target == "Colour":
                s["default"] = rng.choice(["green", "red"] if nl else ["green", "red", "nope"])
            elif target == "Currency":
                s["default"] = rng.choice(["USD", ""])
            elif target == "Count":
                s["default"] = rng.choice([5, 0])
            elif target == "Flag":
                s["default"] = rng.choice([True, False])
            elif target == "Level":
                s["default"] = rng.choice([1, 0] if nl else [1, 0, 7])
            elif target == "NColour":
                s["default"] = "blue"
        return s

    def union(self, d):
        rng = self.rng
        k = rng.randint(1, 3)
        ms = []
        for _ in range(k):
            r = rng.random()
            ms.append(self.ref() if r < 0.3 else self.schema(d - 1))
        if rng.random() < 0.25:
            ms.insert(rng.randint(0, len(ms)), copy.deepcopy(ms[0]) if rng.random() < 0.5 else respell(ms[0], rng))
        s = {}
        r = rng.random()
        if r < 0.4:
            s["anyOf"] = ms
        elif r < 0.8:
            s["oneOf"] = ms
        else:
            cut = rng.randint(0, len(ms))
            s["anyOf"], s["oneOf"] = ms[:cut], ms[cut:]
            if not s["anyOf"]:
                del s["anyOf"]
            if not s["oneOf"]:
                del s["oneOf"]
        if rng.random() < 0.3:
            s["nullable"] = True
        if rng.random() < 0.12:
            s["type"] = rng.choice(["string", ["string", "null"], ["integer", "boolean"]])
        if rng.random() < 0.2:
            s["description"] = "u"
        return s

    def hostile(self, d):
        rng = self.rng
        return rng.choice([
            {"type": "array"},
            {"type": ["array", "null"]},
            {"enum": ["a", 1]},
            {"enum": [1.5, 2.5]},
            {"enum": [True, None]},
            {"enum": [None]},
            {"enum": [None, None], "type": "string"},
            {"$ref": REF + "Missing"},
            {"$ref": "other.yaml#/components/schemas/R"},
            {"allOf": [{"$ref": REF + "Missing"}]},
            {"type": "string", "enum": ["a", "b"], "default": "c"},
            {"enum": ["a", "b", None], "default": "c"},
            {"type": "boolean", "enum": [True, None]},
            {"type": [], "description": "empty type list"},
            {"anyOf": [{"type": "array"}, {"type": "string"}]},
            {"type": "array", "items": {"type": "array"}},
            {"allOf": [{"$ref": REF + "R"}], "oneOf": [{"type": "string"}], "nullable": True},
            {"type": "null", "nullable": True},
            {"type": ["string", "null"], "nullable": True, "enum": ["a", None], "anyOf": [{"type": "integer"}]},
            {"const": "c", "type": "string", "nullable": True},
            {"const": 5},
            {"allOf": [{"type": "object", "properties": {"k": {"type": "string"}}}], "nullable": True},
            {"allOf": [{"type": "object", "properties": {"k": {"type": "string"}}}, {"type": "object", "properties": {"j": {"type": "string"}}}]},
            {"properties": {"k": {"type": "string"}}},
            {"properties": {"k": {"type": "string"}}, "nullable": True},
            {},
            {"nullable": True},
            {"description": "only"},
        ])

    def schema(self, d=2):
        rng = self.rng
        r = rng.random()
        if d <= 0:
            return self.nullable_typed(0) if r < 0.6 else (self.ref() if r < 0.8 else self.enum(0))
        if r < 0.30:
            return self.nullable_typed(d)
        if r < 0.48:
            return self.enum(d)
        if r < 0.63:
            return self.wrapper()
        if r < 0.70:
            return self.ref()
        if r < 0.90:
            return self.union(d)
        return self.hostile(d)
