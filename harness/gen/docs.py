"""Structured random generator of whole OpenAPI documents (used by C12; reusable by the graph properties).

`gen_document(rng, ...)` returns a valid 3.0/3.1 document with 3-12 component schemas and 1-6 operations whose reference graph
has the shapes that make ordering matter:
  * forward references (a schema refers to one declared later), arrays of references, nullable references;
  * allOf parents declared after their children (the _process_models retry loop), chains of allOf;
  * mutually referencing models and self references (lazy imports);
  * unions (anyOf/oneOf) of several models, unions of models and scalars, type lists;
  * "hub" models importing several other models and enums (lazy / relative import sets with >= 2 elements),
    additionalProperties that reference such a hub;
  * string / int enums as components and inline, literal values; operations with tags, parameters in every location,
    JSON request bodies and several response codes referencing models / arrays / unions.
Names are drawn so that class names, module names and operation ids are pairwise distinct after the generator's
normalisation (no collisions => no diagnostics) unless `pressure=True`, which adds an inline object whose minted class name
collides with a component (a diagnostic in the unchanged generator).

`permute(doc, rng)` returns the same document with components.schemas and paths (and the methods inside a path item)
re-inserted in a random order; nothing else is touched (property order inside a model is significant by design).
Every random choice comes from the rng passed in."""
from __future__ import annotations
import copy, random

REF = "#/components/schemas/"

WORDS = ["Pet", "Owner", "Order", "Item", "Tag", "Store", "User", "Group", "Role", "Team", "Node", "Edge", "Leaf", "Tree", "Page", "Book", "Shelf", "Room",
         "House", "Street", "City", "Planet", "Orbit", "Comet", "Engine", "Wheel", "Door", "Window", "Roof", "Garden", "River", "Lake", "Ocean", "Cloud",
         "Storm", "Forest", "Meadow", "Valley", "Canyon", "Island"]
ENUM_WORDS = ["Color", "Status", "Kind", "Level", "Mode", "Phase", "Shape", "Size", "Flavor", "Grade"]
PROP_WORDS = ["name", "count", "note", "when", "ident", "flag", "ratio", "code", "label", "weight", "alpha", "beta", "gamma", "delta"]
TAGS = ["pets", "store", "admin", "reports"]

MEDIA = ["application/json", "multipart/form-data", "application/x-www-form-urlencoded"]

LEAVES = [{"type": "string"}, {"type": "integer"}, {"type": "number"}, {"type": "boolean"}, {"type": "string", "format": "date"},
          {"type": "string", "format": "date-time"}, {"type": "string", "format": "uuid"}]


def _ref(n):
    return {"$ref": REF + n}


def gen_document(rng: random.Random, n_schemas=None, n_ops=None, version=None, pressure=False, literal_enums=False):
    n_schemas = n_schemas or rng.randint(3, 12)
    n_ops = n_ops or rng.randint(1, 6)
    version = version or rng.choice(["3.0.3", "3.1.0"])
    n_enums = rng.randint(1, max(1, min(3, n_schemas // 3)))
    n_models = max(2, n_schemas - n_enums)
    models = rng.sample(WORDS, n_models)
    enums = rng.sample(ENUM_WORDS, n_enums)
    schemas = {}
    feats = set()

    # ---- enums
    for e in enums:
        if rng.random() < 0.3:
            schemas[e] = {"type": "integer", "enum": sorted(rng.sample(range(1, 20), rng.randint(2, 4)))}
        else:
            vals = rng.sample(["red", "green", "blue", "on", "off", "low", "mid", "high", "x-ray", "two words"], rng.randint(2, 4))
            schemas[e] = {"type": "string", "enum": vals}

    # ---- reference plan over models: index in declaration order; refs may point forward or backward
    def some_models(k, exclude=()):
        pool = [m for m in models if m not in exclude]
        return rng.sample(pool, min(k, len(pool)))

    parents = {}   # child -> parent (allOf), parent declared AFTER child with probability 1/2
    order = list(models)
    for i, m in enumerate(order):
        if i > 0 and rng.random() < 0.3:
            # pick a parent that is not a descendant of m (no cycles)
            cands = [p for p in order if p != m]
            rng.shuffle(cands)
            for p in cands:
                q, ok = p, True
                while q in parents:
                    q = parents[q]
                    if q == m:
                        ok = False
                        break
                if ok and p != m:
                    parents[m] = p
                    feats.add("allof")
                    break
    hub = order[0] if len(order) >= 3 else None

    used_props = {}
    for i, m in enumerate(order):
        props = {}
        names = rng.sample(PROP_WORDS, rng.randint(1, 4))
        # parents and children must not redeclare a property with an incompatible type: give every model its own prefix
        pref = m.lower()[:3]
        for pn in names:
            r = rng.random()
            key = f"{pref}_{pn}"
            if r < 0.35:
                props[key] = copy.deepcopy(rng.choice(LEAVES))
            elif r < 0.55:
                props[key] = _ref(rng.choice(enums))
                feats.add("enum-ref")
            elif r < 0.75:
                t = rng.choice(models)
                props[key] = _ref(t)
                feats.add("self-ref" if t == m else ("forward-ref" if order.index(t) > i else "backward-ref"))
            elif r < 0.85:
                props[key] = {"type": "array", "items": _ref(rng.choice(models))}
                feats.add("array-of-ref")
            elif r < 0.95:
                ms = some_models(rng.randint(2, 3))
                kw = rng.choice(["anyOf", "oneOf"])
                members = [_ref(x) for x in ms]
                if rng.random() < 0.3:
                    members.append({"type": "string"})
                props[key] = {kw: members}
                feats.add("union-of-models")
            else:
                if version == "3.1.0":
                    props[key] = {"type": ["string", "integer", "null"]}
                    feats.add("type-list")
                else:
                    props[key] = {"type": "string", "nullable": True}
        if m == hub:
            # a model importing several others: lazy import set >= 2, relative import set >= 2
            others = some_models(rng.randint(2, 4), exclude=(m,))
            for j, t in enumerate(others):
                props[f"{pref}_link{j}"] = _ref(t)
            for j, e in enumerate(enums[:2]):
                props[f"{pref}_enum{j}"] = _ref(e)
            props[f"{pref}_either"] = {"oneOf": [_ref(t) for t in others[:3]]}
            feats.add("hub")
        body = {"type": "object", "properties": props}
        req = [k for k in props if rng.random() < 0.4]
        if req:
            body["required"] = req
        if rng.random() < 0.15:
            body["additionalProperties"] = _ref(hub) if (hub and hub != m and rng.random() < 0.7) else {"type": "string"}
            feats.add("addl-ref")
        if m in parents:
            schemas[m] = {"allOf": [_ref(parents[m]), body]}
        else:
            schemas[m] = body
        used_props[m] = list(props)

    # mutual reference pair
    if len(order) >= 2:
        a, b = rng.sample(order, 2)
        _props_of(schemas[a])[f"{a.lower()[:3]}_peer"] = _ref(b)
        _props_of(schemas[b])[f"{b.lower()[:3]}_peer"] = _ref(a)
        feats.add("mutual")
    if pressure and len(order) >= 2:
        # inline objects A.child_item and AChild.item both mint the class name AChildItem
        a = order[-1]
        _props_of(schemas[a])["child_item"] = {"type": "object", "properties": {"z": {"type": "string"}}}
        schemas[a + "Child"] = {"type": "object", "properties": {"item": {"type": "object", "properties": {"y": {"type": "integer"}}}}}
        feats.add("name-pressure")

    # declaration order: shuffle so that parents may come after children and references point forward
    keys = list(schemas)
    rng.shuffle(keys)
    schemas = {k: schemas[k] for k in keys}
    for c, p in parents.items():
        if keys.index(p) > keys.index(c):
            feats.add("parent-after-child")

    # ---- operations
    paths = {}
    op_no = [0]

    def inline_body(tag):
        """an inline object schema: the generator mints its class name from the operation (and, with several media types, the body kind)"""
        props = {f"{tag}_text": {"type": "string"}}
        if rng.random() < 0.5:
            props[f"{tag}_ref"] = _ref(rng.choice(models))
        if rng.random() < 0.4:
            props[f"{tag}_enum"] = _ref(rng.choice(enums))
        if rng.random() < 0.3:
            props[f"{tag}_num"] = {"type": "integer"}
        return {"type": "object", "properties": props, "required": [f"{tag}_text"]}

    def body_schema(model_pool, tag):
        if rng.random() < 0.7:
            return _ref(rng.choice(model_pool))
        feats.add("inline-body")
        return inline_body(tag)

    def add_op(verb, path, target, content=None, resp=None, oid=None, params=None):
        oi = op_no[0]
        op_no[0] += 1
        oid = oid or f"{verb}{target}{oi}"
        op = {"operationId": oid, "tags": [rng.choice(TAGS)], "responses": {}}
        if params:
            op["parameters"] = params
        if content:
            op["requestBody"] = {"required": True, "content": content}
        r = rng.random()
        if resp is not None:
            ok = resp
        elif r < 0.4:
            ok = _ref(target)
        elif r < 0.7:
            ok = {"type": "array", "items": _ref(target)}
        else:
            ok = {"oneOf": [_ref(x) for x in some_models(2)]}
            feats.add("response-union")
        op["responses"]["200"] = {"description": "ok", "content": {"application/json": {"schema": ok}}}
        if rng.random() < 0.5:
            op["responses"]["404"] = {"description": "nf", "content": {"application/json": {"schema": _ref(rng.choice(models))}}}
            feats.add("two-responses")
        if rng.random() < 0.2:
            op["responses"]["204"] = {"description": "empty"}
        item = paths.setdefault(path, {})
        if verb in item and all(v in item for v in ["post", "put", "patch", "delete", "get"]):
            n_alt = 2
            while f"{path}/alt{n_alt}" in paths and len(paths[f"{path}/alt{n_alt}"]) >= 5:
                n_alt += 1
            path = f"{path}/alt{n_alt}"          # every verb of this path is taken: a sibling path (path parameters stay in the prefix)
            item = paths.setdefault(path, {})
        if verb in item:
            verb = next(v for v in ["post", "put", "patch", "delete", "get"] if v not in item)
            if content is None and verb in ("post", "put", "patch"):
                pass
        item[verb] = op
        if len(item) > 1:
            feats.add("several-ops-per-path")
        return op

    for _ in range(n_ops):
        verb = rng.choice(["get", "post", "put", "delete"])
        target = rng.choice(models)
        oi = op_no[0]
        if paths and rng.random() < 0.35:
            path = rng.choice(list(paths))           # a second/third operation on an existing path
            params = [dict(p) for p in next(iter(paths[path].values())).get("parameters", []) if p["in"] == "path"]
        else:
            path = f"/{target.lower()}s{oi}"
            params = []
            if rng.random() < 0.5:
                path += "/{ident}"
                params.append({"name": "ident", "in": "path", "required": True, "schema": {"type": "string"}})
        if rng.random() < 0.6:
            params.append({"name": "kind", "in": "query", "required": rng.random() < 0.5, "schema": _ref(rng.choice(enums))})
        if rng.random() < 0.3:
            params.append({"name": "limit", "in": "query", "schema": {"type": "integer"}})
        if rng.random() < 0.2:
            params.append({"name": "X-Trace", "in": "header", "schema": {"type": "string"}})
        content = None
        if verb in ("post", "put"):
            media = rng.choice(MEDIA)
            content = {media: {"schema": body_schema(models, f"b{oi}")}}
            feats.add("body-" + media.split("/")[-1])
        add_op(verb, path, target, content=content, params=params)

    # one component model used as request body by several operations under DIFFERENT media types (and as a response):
    # whatever a body use does to the shared class must not depend on which operation is parsed last
    if rng.random() < 0.85:
        shared = rng.choice(models)
        medias = rng.sample(MEDIA, rng.randint(2, 3))
        base = f"/shared{shared.lower()}"
        for j, media in enumerate(medias):
            same_path = j == 2 or (j == 1 and rng.random() < 0.3)
            add_op("post", base + ("a" if same_path else f"{'ab'[j % 2]}{j}"), shared, content={media: {"schema": _ref(shared)}},
                   resp=(_ref(shared) if rng.random() < 0.5 else None), oid=f"share{shared}{media.split('/')[-1].replace('-', '').replace('x', 'X')[:6]}{j}")
        feats.add("shared-body-media")
        feats.add("body-and-response")
    # one operation whose request body offers several media types: refs and inline schemas (names minted per body kind)
    if rng.random() < 0.6:
        target = rng.choice(models)
        medias = rng.sample(MEDIA, rng.randint(2, 3))
        content = {}
        for media in medias:
            content[media] = {"schema": body_schema(models, "mm" + media.split("/")[-1][:4].replace("-", ""))}
        add_op("post", f"/multi{target.lower()}", target, content=content, oid=f"multi{target}")
        feats.add("multi-media-body")
    if pressure:
        # name pressure between operations: `crowd` with two media types mints CrowdJsonBody for its JSON body, `crowd_json` with one mints CrowdJsonBody too
        add_op("post", "/crowd", models[0], content={"application/json": {"schema": inline_body("cj")}, "multipart/form-data": {"schema": inline_body("cf")}}, oid="crowd")
        add_op("post", "/crowdjson", models[0], content={"application/json": {"schema": inline_body("cj2")}}, oid="crowd_json")
        feats.add("op-name-pressure")
    doc = {"openapi": version, "info": {"title": "Gen API", "version": "1.0"}, "paths": paths, "components": {"schemas": schemas}}
    return doc, sorted(feats)


def _props_of(schema):
    if "allOf" in schema:
        return schema["allOf"][1]["properties"]
    return schema["properties"]


def _shuffled(d: dict, rng: random.Random) -> dict:
    ks = list(d)
    rng.shuffle(ks)
    return {k: d[k] for k in ks}


def permute(doc: dict, rng: random.Random, mode="random") -> dict:
    """Same document, different insertion order of components.schemas, of paths and of the operations inside each path item
    (mode: random | reversed).  mode="media": ONLY the media types inside every requestBody are re-ordered (that order is
    significant for the endpoint module by design - the dispatch order of the body types - and for nothing else)."""
    d = copy.deepcopy(doc)
    if mode == "media":
        for item in d.get("paths", {}).values():
            for op in item.values():
                c = isinstance(op, dict) and op.get("requestBody", {}).get("content")
                if isinstance(c, dict) and len(c) > 1:
                    ks = list(c)
                    ks = ks[1:] + ks[:1] if len(ks) == 2 or rng.random() < 0.5 else list(reversed(ks))
                    op["requestBody"]["content"] = {k: c[k] for k in ks}
        return d
    sch = d.get("components", {}).get("schemas")
    if isinstance(sch, dict):
        d["components"]["schemas"] = {k: sch[k] for k in reversed(list(sch))} if mode == "reversed" else _shuffled(sch, rng)
    if isinstance(d.get("paths"), dict):
        p = d["paths"]
        p = {k: p[k] for k in reversed(list(p))} if mode == "reversed" else _shuffled(p, rng)
        d["paths"] = {k: ({m: v[m] for m in reversed(list(v))} if mode == "reversed" else _shuffled(v, rng)) for k, v in p.items()}
    return d


# ---------------------------------------------------------------- fixed corpus: minimal witnesses and hand-made shapes
def corpus():
    o = lambda **p: {"type": "object", "properties": p}
    out = []
    # lazy_unsorted witness: a model with >= 2 model-typed attributes
    out.append(("lazy2", {"openapi": "3.1.0", "info": {"title": "t", "version": "1"}, "paths": {}, "components": {"schemas": {
        "Alpha": o(b=_ref("Beta"), c=_ref("Gamma"), d=_ref("Delta"), e=_ref("Epsilon")),
        "Beta": o(x={"type": "string"}), "Gamma": o(x={"type": "string"}), "Delta": o(x={"type": "string"}), "Epsilon": o(a=_ref("Alpha"))}}}))
    # additionalProperties referencing a model with several lazy imports (fourth lazy loop)
    out.append(("lazy-addl", {"openapi": "3.1.0", "info": {"title": "t", "version": "1"}, "paths": {}, "components": {"schemas": {
        "Bag": {"type": "object", "additionalProperties": _ref("Hub")},
        "Hub": o(b=_ref("Beta"), c=_ref("Gamma"), d=_ref("Delta")),
        "Beta": o(x={"type": "string"}), "Gamma": o(x={"type": "string"}), "Delta": o(x={"type": "string"})}}}))
    # parent after child, chain of three, mutual pair, union of models
    out.append(("allof-chain", {"openapi": "3.0.3", "info": {"title": "t", "version": "1"},
        "paths": {"/a": {"get": {"operationId": "getA", "tags": ["x"], "responses": {"200": {"description": "ok", "content": {"application/json": {"schema": {"oneOf": [_ref("Child"), _ref("Mid"), _ref("Base")]}}}}}}},
                  "/b": {"post": {"operationId": "postB", "tags": ["y"], "requestBody": {"content": {"application/json": {"schema": _ref("Child")}}}, "responses": {"200": {"description": "ok", "content": {"application/json": {"schema": _ref("Left")}}}}}}},
        "components": {"schemas": {
            "Child": {"allOf": [_ref("Mid"), o(c={"type": "string"}, kind=_ref("Kind"))]},
            "Mid": {"allOf": [_ref("Base"), o(m={"type": "integer"}, other=_ref("Left"))]},
            "Base": o(b={"type": "boolean"}, u={"anyOf": [_ref("Left"), _ref("Right"), {"type": "string"}]}),
            "Left": o(r=_ref("Right")), "Right": o(l=_ref("Left"), k=_ref("Kind"), lv=_ref("Level")),
            "Kind": {"type": "string", "enum": ["a", "b"]}, "Level": {"type": "integer", "enum": [1, 2]}}}}))
    # sort_case_tie witness: two enums whose class names differ only in case
    out.append(("case-tie", {"openapi": "3.1.0", "info": {"title": "t", "version": "1"}, "paths": {}, "components": {"schemas": {
        "AB": {"type": "string", "enum": ["a", "b"]}, "Ab": {"type": "string", "enum": ["c", "d"]},
        "M": o(p=_ref("AB"), q=_ref("Ab"))}}}))
    # the class of change "a body use re-registers the shared class": S is a multipart body in /a, a JSON body in /b, a form body of a second
    # operation on /a, a response, and one of three media types of /c; T is shared the other way round
    R200 = lambda sch: {"200": {"description": "ok", "content": {"application/json": {"schema": sch}}}}
    out.append(("shared-body-media", {"openapi": "3.1.0", "info": {"title": "t", "version": "1"},
        "paths": {
            "/a": {"post": {"operationId": "upload", "tags": ["x"], "requestBody": {"content": {"multipart/form-data": {"schema": _ref("S")}}}, "responses": R200(_ref("S"))},
                   "put": {"operationId": "formit", "tags": ["x"], "requestBody": {"content": {"application/x-www-form-urlencoded": {"schema": _ref("S")}}}, "responses": R200(_ref("T"))}},
            "/b": {"post": {"operationId": "store", "tags": ["y"], "requestBody": {"content": {"application/json": {"schema": _ref("S")}}}, "responses": R200({"type": "array", "items": _ref("S")})},
                   "put": {"operationId": "storeT", "tags": ["y"], "requestBody": {"content": {"multipart/form-data": {"schema": _ref("T")}}}, "responses": R200(_ref("T"))}},
            "/c": {"post": {"operationId": "multi", "tags": ["y"], "requestBody": {"content": {
                "application/json": {"schema": _ref("T")},
                "multipart/form-data": {"schema": o(f={"type": "string", "format": "binary"}, m=_ref("T"))},
                "application/x-www-form-urlencoded": {"schema": o(q={"type": "integer"})}}}, "responses": R200(_ref("S"))}},
            "/d": {"post": {"operationId": "inl", "tags": ["x"], "requestBody": {"content": {"application/json": {"schema": o(w={"type": "string"}, s=_ref("S"))}}}, "responses": R200(_ref("T"))}}},
        "components": {"schemas": {"S": o(a={"type": "string"}, t=_ref("T"), u={"anyOf": [_ref("T"), {"type": "integer"}]}), "T": o(b={"type": "integer"}, k=_ref("Kind")),
                                   "Kind": {"type": "string", "enum": ["a", "b"]}}}}))
    # name pressure between operations: `crowd` (two media types) and `crowd_json` (one) both mint CrowdJsonBody (a diagnostic in the unchanged generator)
    out.append(("op-name-pressure", {"openapi": "3.1.0", "info": {"title": "t", "version": "1"},
        "paths": {
            "/crowd": {"post": {"operationId": "crowd", "tags": ["x"], "requestBody": {"content": {"application/json": {"schema": o(a={"type": "string"})},
                                                                                                  "multipart/form-data": {"schema": o(b={"type": "string"})}}}, "responses": R200({"type": "string"})}},
            "/crowdjson": {"post": {"operationId": "crowd_json", "tags": ["x"], "requestBody": {"content": {"application/json": {"schema": o(c={"type": "integer"})}}}, "responses": R200({"type": "string"})}}},
        "components": {"schemas": {"Z": o(z={"type": "string"})}}}))
    # name pressure: the inline objects Parent.child_item and ParentChild.item both mint the class name ParentChildItem (a diagnostic in the
    # unchanged generator; a conflict resolution that silently depends on arrival order makes this document diagnostic-free and order dependent)
    out.append(("name-pressure", {"openapi": "3.1.0", "info": {"title": "t", "version": "1"}, "paths": {}, "components": {"schemas": {
        "Parent": o(child_item={"type": "object", "properties": {"z": {"type": "string"}}}),
        "ParentChild": o(item={"type": "object", "properties": {"y": {"type": "integer"}}}), "Other": o(p=_ref("Parent"), q=_ref("ParentChild"))}}}))
    return out


# ================================================================ C12 order-sensitive extras (ADDED functions; gen_document()/corpus() are unchanged)
SUFFIX_FAMILIES = [["Cat", "WildCat"], ["Box", "ToolBox"], ["Unit", "BaseUnit", "AbstractBaseUnit"], ["Ship", "AirShip", "CargoAirShip"]]
TWIN_VALUES = [["open", "closed", "pending"], ["new", "paid", "sent", "lost"], ["up", "down"]]


def add_suffix_family(schemas: dict, rng: random.Random, family=None, youngest_first=True):
    """allOf chain whose child's class name is a SUFFIX of its parent's schema name (Cat <- WildCat, Unit <- BaseUnit <- AbstractBaseUnit),
    plus a dependant of the youngest child.  A recursion test that looks at a string suffix instead of the last path segment finalises the child
    as self-recursive whenever it is declared before its parent."""
    fam = family or rng.choice([f for f in SUFFIX_FAMILIES if not any(n in schemas for n in f)] or [None])
    if not fam:
        return None
    new = {}
    for i, name in enumerate(fam):
        own = {"type": "object", "properties": {f"{name.lower()}_own": {"type": "string"}, f"{name.lower()}_num": {"type": "integer"}}}
        new[name] = {"allOf": [_ref(fam[i + 1]), own]} if i + 1 < len(fam) else own
    keeper = fam[0] + "Keeper"
    new[keeper] = {"type": "object", "properties": {"kept": _ref(fam[0]), "all_kept": {"type": "array", "items": _ref(fam[0])}}}
    order = list(new) if youngest_first else list(reversed(list(new)))
    for k in order:
        schemas[k] = new[k]
    return fam


def add_twin_enums(doc: dict, rng: random.Random, kind="string", where=("schemas", "parameters")):
    """Two inline enums that resolve to ONE class name and list the same values in different orders:
    schemas  : Dog.house_status and DogHouse.status            -> DogHouseStatus
    parameters: query `status` of operation list_orders and query `orders_status` of operation `list` -> ListOrdersStatus."""
    vals = list(rng.choice(TWIN_VALUES)) if kind == "string" else sorted(rng.sample(range(1, 9), 3))
    other = list(reversed(vals))
    e = lambda v: {"type": kind, "enum": list(v)}
    if "schemas" in where:
        sch = doc.setdefault("components", {}).setdefault("schemas", {})
        if "Dog" not in sch and "DogHouse" not in sch:
            sch["Dog"] = {"type": "object", "properties": {"house_status": e(vals), "dog_name": {"type": "string"}}}
            sch["DogHouse"] = {"type": "object", "properties": {"status": e(other), "size": {"type": "integer"}}}
    if "parameters" in where:
        ok = {"200": {"description": "ok", "content": {"application/json": {"schema": {"type": "string"}}}}}
        paths = doc.setdefault("paths", {})
        if "/orders" not in paths and "/everything" not in paths:
            paths["/orders"] = {"get": {"operationId": "list_orders", "tags": ["orders"], "parameters": [{"name": "status", "in": "query", "schema": e(vals)}], "responses": ok}}
            paths["/everything"] = {"get": {"operationId": "list", "tags": ["orders"], "parameters": [{"name": "orders_status", "in": "query", "schema": e(other)}], "responses": ok}}
    return doc


def gen_document_order(rng: random.Random, pressure=False):
    """gen_document + suffix-named allOf families + same-class-name twin STRING enums (schemas and parameters), declaration order re-shuffled."""
    doc, feats = gen_document(rng, pressure=pressure)
    doc = copy.deepcopy(doc)
    feats = list(feats)
    sch = doc["components"]["schemas"]
    if rng.random() < 0.8:
        fam = add_suffix_family(sch, rng)
        if fam:
            feats.append("suffix-allof-" + str(len(fam)))
    if rng.random() < 0.7:
        add_twin_enums(doc, rng, "string", where=rng.choice([("schemas",), ("parameters",), ("schemas", "parameters")]))
        feats.append("twin-string-enums")
    doc["components"]["schemas"] = _shuffled(sch, rng)
    doc["paths"] = _shuffled(doc["paths"], rng)
    return doc, sorted(feats)


def corpus_order():
    """Small fixed documents for which ALL permutations of components.schemas are tried."""
    base = lambda sch, paths=None: {"openapi": "3.1.0", "info": {"title": "t", "version": "1"}, "paths": paths or {}, "components": {"schemas": sch}}
    out = []
    rng = random.Random(0)
    s = {}
    add_suffix_family(s, rng, ["Cat", "WildCat"])
    out.append(("suffix-pair", base(s)))
    s = {}
    add_suffix_family(s, rng, ["Unit", "BaseUnit", "AbstractBaseUnit"])
    out.append(("suffix-chain", base(s)))
    s = {}
    add_suffix_family(s, rng, ["Pet", "NewPet"])
    s.pop("PetKeeper")
    s["Owner"] = {"type": "object", "properties": {"pet": _ref("Pet"), "old": _ref("NewPet")}}
    out.append(("suffix-pair-2", base(s)))
    out.append(("twin-string-enums", add_twin_enums(base({"Z": {"type": "object", "properties": {"z": {"type": "string"}}}}), random.Random(1), "string")))
    # int twins: witness of the known finding int_enum_twin_order (int_enum.py.jinja emits the members in insertion order)
    out.append(("twin-int-enums", add_twin_enums(base({"Z": {"type": "object", "properties": {"z": {"type": "string"}}}}), random.Random(2), "integer")))
    return out


# ================================================================ C12: failed attempts of the schema fix-point must leave no trace (ADDED functions only)
def add_inline_before_forward(doc: dict, rng: random.Random, tag=""):
    """Components that are NOT models - a union and an array - whose INLINE OBJECT member comes before a $ref to a component declared later,
    a model with an allOf parent declared later that also has inline object property / additionalProperties, a model referencing them and
    operations returning them.  The first parse attempt of such a component fails half way (the inline class already built); the retry must
    start from the pre-attempt state.  `tag` keeps the names unique when used twice."""
    sch = doc.setdefault("components", {}).setdefault("schemas", {})
    n = lambda s: f"{s}{tag}"
    if any(n(x) in sch for x in ("Outcome", "Batch", "Sack", "Success", "SackBase", "Envelope")):
        return None
    o = lambda **p: {"type": "object", "properties": p}
    kw = rng.choice(["oneOf", "anyOf"])
    new = {
        n("Outcome"): {kw: [o(error={"type": "string"}, code={"type": "integer"}), _ref(n("Success"))]},
        n("Batch"): {"type": "array", "items": {"oneOf": [o(note={"type": "string"}), _ref(n("Success"))]}},
        n("Sack"): {"allOf": [_ref(n("SackBase")), {"type": "object", "properties": {"inl": o(a={"type": "string"}), "nxt": _ref(n("Success"))},
                                                    "additionalProperties": o(b={"type": "integer"})}]},
        n("Envelope"): o(outcome=_ref(n("Outcome")), batch=_ref(n("Batch")), sack=_ref(n("Sack"))),
        n("Success"): o(value={"type": "integer"}),
        n("SackBase"): o(base={"type": "string"}),
    }
    for k, v in new.items():     # declared with the forward references first
        sch[k] = v
    ok = lambda s: {"200": {"description": "ok", "content": {"application/json": {"schema": s}}}}
    paths = doc.setdefault("paths", {})
    paths[f"/outcome{tag.lower()}"] = {"get": {"operationId": f"get_outcome{tag.lower()}", "tags": ["results"], "responses": ok(_ref(n("Outcome")))}}
    paths[f"/batch{tag.lower()}"] = {"post": {"operationId": f"post_batch{tag.lower()}", "tags": ["results"],
                                              "requestBody": {"content": {"application/json": {"schema": _ref(n("Envelope"))}}}, "responses": ok(_ref(n("Batch")))}}
    return list(new)


def gen_document_c12(rng: random.Random, pressure=False):
    """gen_document_order + (with probability 0.7) the inline-object-before-forward-$ref components, randomly placed."""
    doc, feats = gen_document_order(rng, pressure=pressure)
    feats = list(feats)
    if rng.random() < 0.7:
        if add_inline_before_forward(doc, rng):
            feats.append("inline-before-forward-ref")
            doc["components"]["schemas"] = _shuffled(doc["components"]["schemas"], rng)
            doc["paths"] = _shuffled(doc["paths"], rng)
    return doc, sorted(feats)


def corpus_retry():
    """Small fixed documents (tried under EVERY order of components.schemas x paths): a failed first attempt must not break the retry."""
    base = lambda sch, paths=None: {"openapi": "3.1.0", "info": {"title": "t", "version": "1"}, "paths": paths or {}, "components": {"schemas": sch}}
    o = lambda **p: {"type": "object", "properties": p}
    ok = lambda s: {"200": {"description": "ok", "content": {"application/json": {"schema": s}}}}
    out = []
    out.append(("retry-union", base(
        {"Result": {"oneOf": [o(error={"type": "string"}), _ref("Success")]}, "Holder": o(result=_ref("Result")), "Success": o(value={"type": "integer"})},
        {"/result": {"get": {"operationId": "get_result", "tags": ["x"], "responses": ok(_ref("Result"))}}})))
    out.append(("retry-array-of-union", base(
        {"Batch": {"type": "array", "items": {"anyOf": [o(note={"type": "string"}), _ref("Later")]}}, "Holder": o(batch=_ref("Batch")), "Later": o(value={"type": "integer"})},
        {"/batch": {"get": {"operationId": "get_batch", "tags": ["x"], "responses": ok(_ref("Batch"))}}})))
    out.append(("retry-allof-inline", base(
        {"Sack": {"allOf": [_ref("SackBase"), {"type": "object", "properties": {"inl": o(a={"type": "string"}), "nxt": _ref("Later")}, "additionalProperties": o(b={"type": "integer"})}]},
         "Later": o(value={"type": "integer"}), "SackBase": o(base={"type": "string"})},
        {"/sack": {"get": {"operationId": "get_sack", "tags": ["x"], "responses": ok(_ref("Sack"))}}})))
    return out


# ================================================================ C12: every property kind as OPTIONAL next to another optional property (ADDED)
KIND_SCHEMAS = {
    "any": {}, "bool": {"type": "boolean"}, "int": {"type": "integer"}, "float": {"type": "number"}, "str": {"type": "string"},
    "date": {"type": "string", "format": "date"}, "datetime": {"type": "string", "format": "date-time"}, "uuid": {"type": "string", "format": "uuid"},
    "file": {"type": "string", "format": "binary"}, "null": {"type": "null"},
    "conststr": {"const": "fixed"}, "constint": {"const": 7},
    "enumstr": {"type": "string", "enum": ["a", "b"]}, "enumint": {"type": "integer", "enum": [1, 2]},
    "enumref": {"$ref": REF + "Shade"}, "modelref": {"$ref": REF + "Other"},
    "list": {"type": "array", "items": {"type": "string"}}, "listref": {"type": "array", "items": {"$ref": REF + "Other"}},
    "unionscalar": {"anyOf": [{"type": "string"}, {"type": "integer"}]}, "unionconst": {"oneOf": [{"const": "x"}, {"const": "y"}]},
    "unionmodel": {"oneOf": [{"$ref": REF + "Other"}, {"$ref": REF + "Third"}]}, "typelist": {"type": ["string", "integer", "null"]},
}
KIND_QUERY = ("bool", "int", "float", "str", "date", "datetime", "uuid", "conststr", "constint", "enumstr", "enumint", "enumref", "list", "unionscalar", "unionconst", "any")
KIND_HEADER = ("bool", "int", "float", "str", "enumstr", "enumint", "enumref", "unionscalar")


def kinds_optional_document():
    """Hash-seed document: one model with every kind optional, one two-property model per kind (the kind + an optional string, both optional), one
    operation per kind with that kind and a string as OPTIONAL query parameters, one operation with all of them (query / header / cookie).
    Every import set that a kind can contribute to therefore occurs together with what another optional property contributes."""
    import copy as _c
    k = lambda n: _c.deepcopy(KIND_SCHEMAS[n])
    schemas = {"Other": {"type": "object", "properties": {"o": {"type": "string"}}}, "Third": {"type": "object", "properties": {"t": {"type": "integer"}}},
               "Shade": {"type": "string", "enum": ["dark", "light"]}}
    schemas["AllKinds"] = {"type": "object", "properties": {f"opt_{n}": k(n) for n in KIND_SCHEMAS}}
    for n in KIND_SCHEMAS:
        schemas["Pair" + n.capitalize()] = {"type": "object", "properties": {"first": k(n), "second": {"type": "string"}}}
        schemas["Trio" + n.capitalize()] = {"type": "object", "properties": {"zed": {"type": "integer"}, "mid": k(n), "alpha": {"type": "string", "format": "date"}}, "required": ["zed"]}
    ok = {"200": {"description": "ok", "content": {"application/json": {"schema": {"type": "string"}}}}}
    paths = {}
    for n in KIND_QUERY:
        paths[f"/q/{n}"] = {"get": {"operationId": f"query_{n}", "tags": ["kinds"], "parameters": [{"name": "first", "in": "query", "schema": k(n)}, {"name": "second", "in": "query", "schema": {"type": "string"}}],
                                    "responses": ok}}
    allp = [{"name": f"q_{n}", "in": "query", "schema": k(n)} for n in KIND_QUERY]
    allp += [{"name": f"h-{n}", "in": "header", "schema": k(n)} for n in KIND_HEADER] + [{"name": f"c_{n}", "in": "cookie", "schema": k(n)} for n in KIND_HEADER]
    paths["/all"] = {"post": {"operationId": "all_kinds", "tags": ["kinds"], "parameters": allp,
                              "requestBody": {"content": {"application/json": {"schema": {"$ref": REF + "AllKinds"}}}}, "responses": ok}}
    return {"openapi": "3.1.0", "info": {"title": "kinds", "version": "1"}, "paths": paths, "components": {"schemas": schemas}}


# ================================================================ C12 seventh round (ADDED): case twins with distinct modules; inline array-of-forward-ref members
def case_twin_document():
    """Two component models whose class names differ only in letter case but whose modules differ (FooBar -> foo_bar, Foobar -> foobar), used wherever a
    SET of strings is sorted: as the 200 / 404 responses of an operation (Union[...] return annotation), as members of a union property, as
    imports of a model and of an endpoint, as __all__ entries.  Any sort key other than the identity ties on them."""
    o = lambda **p: {"type": "object", "properties": p}
    ok = lambda a, b: {"200": {"description": "ok", "content": {"application/json": {"schema": a}}}, "404": {"description": "no", "content": {"application/json": {"schema": b}}}}
    sch = {"FooBar": o(a={"type": "string"}), "Foobar": o(b={"type": "integer"}),
           "BazQux": {"type": "string", "enum": ["x", "y"]}, "Bazqux": {"type": "string", "enum": ["p", "q"]},
           "User": o(either={"oneOf": [_ref("FooBar"), _ref("Foobar")]}, one=_ref("FooBar"), two=_ref("Foobar"), e1=_ref("BazQux"), e2=_ref("Bazqux"),
                     many={"type": "array", "items": {"anyOf": [_ref("Foobar"), _ref("FooBar")]}})}
    paths = {"/x": {"get": {"operationId": "get_x", "tags": ["t"], "responses": ok(_ref("FooBar"), _ref("Foobar"))},
                    "post": {"operationId": "post_x", "tags": ["t"], "requestBody": {"content": {"application/json": {"schema": _ref("Foobar")}}},
                             "parameters": [{"name": "e1", "in": "query", "schema": _ref("BazQux")}, {"name": "e2", "in": "query", "schema": _ref("Bazqux")}],
                             "responses": ok(_ref("Foobar"), _ref("FooBar"))}},
             "/y": {"get": {"operationId": "get_y", "tags": ["t"], "responses": ok({"type": "array", "items": _ref("Foobar")}, {"type": "array", "items": _ref("FooBar")})}}}
    return {"openapi": "3.1.0", "info": {"title": "twins", "version": "1"}, "paths": paths, "components": {"schemas": sch}}


def corpus_retry2():
    """Fixed documents (every order of components.schemas x paths): a union / array component whose INLINE member holds the forward reference
    (array items, nested union, additionalProperties) - its first attempt fails with an error whose data is the member's own SCHEMA, not a Reference."""
    base = lambda sch, paths=None: {"openapi": "3.1.0", "info": {"title": "t", "version": "1"}, "paths": paths or {}, "components": {"schemas": sch}}
    o = lambda **p: {"type": "object", "properties": p}
    ok = lambda s: {"200": {"description": "ok", "content": {"application/json": {"schema": s}}}}
    out = []
    out.append(("retry-inline-array-member", base(
        {"HitOrHits": {"oneOf": [{"type": "array", "items": _ref("Hit")}, _ref("Hit")]}, "Page": o(results=_ref("HitOrHits")), "Hit": o(score={"type": "number"})},
        {"/page": {"get": {"operationId": "get_page", "tags": ["x"], "responses": ok(_ref("Page"))}}})))
    out.append(("retry-nested-union", base(
        {"Deep": {"anyOf": [{"oneOf": [{"type": "array", "items": _ref("Leafy")}, {"type": "string"}]}, {"type": "integer"}]}, "Holder": o(deep=_ref("Deep")), "Leafy": o(v={"type": "integer"})},
        {"/deep": {"get": {"operationId": "get_deep", "tags": ["x"], "responses": ok(_ref("Deep"))}}})))
    out.append(("retry-inline-addl-member", base(
        {"MapOr": {"oneOf": [{"type": "object", "additionalProperties": _ref("Val")}, {"type": "string"}]}, "Holder": o(m=_ref("MapOr")), "Val": o(v={"type": "integer"})},
        {"/map": {"get": {"operationId": "get_map", "tags": ["x"], "responses": ok(_ref("MapOr"))}}})))
    out.append(("retry-array-of-array", base(
        {"Grid": {"type": "array", "items": {"type": "array", "items": _ref("Cell")}}, "Board": o(grid=_ref("Grid"), alt={"type": "array", "items": {"oneOf": [{"type": "array", "items": _ref("Cell")}, {"type": "null"}]}}),
         "Cell": o(v={"type": "integer"})},
        {"/grid": {"get": {"operationId": "get_grid", "tags": ["x"], "responses": ok(_ref("Grid"))}}})))
    return out


def add_inline_array_forward(doc: dict, rng: random.Random):
    """for random documents: HitOrHits / Grid style components, declared before what they refer to"""
    sch = doc.setdefault("components", {}).setdefault("schemas", {})
    if any(n in sch for n in ("HitOrHits", "Hit", "HitPage", "HitGrid")):
        return None
    o = lambda **p: {"type": "object", "properties": p}
    new = {"HitOrHits": {rng.choice(["oneOf", "anyOf"]): [{"type": "array", "items": _ref("Hit")}, _ref("Hit")]},
           "HitGrid": {"type": "array", "items": {"type": "array", "items": _ref("Hit")}},
           "HitPage": o(results=_ref("HitOrHits"), grid=_ref("HitGrid")), "Hit": o(score={"type": "number"})}
    for k, v in new.items():
        sch[k] = v
    doc.setdefault("paths", {})["/hitpage"] = {"get": {"operationId": "get_hit_page", "tags": ["results"],
                                                        "responses": {"200": {"description": "ok", "content": {"application/json": {"schema": _ref("HitPage")}}}}}}
    return list(new)


def gen_document_c12b(rng: random.Random, pressure=False):
    doc, feats = gen_document_c12(rng, pressure=pressure)
    feats = list(feats)
    if rng.random() < 0.7 and add_inline_array_forward(doc, rng):
        feats.append("inline-array-forward-ref")
        doc["components"]["schemas"] = _shuffled(doc["components"]["schemas"], rng)
        doc["paths"] = _shuffled(doc["paths"], rng)
    return doc, sorted(feats)
