"""Schema / instance generators for the codec-level properties (C02 C10 C11 C15 C20 ...).
Atlas = deterministic, exhaustive small scope (every kind x position; union pairs); random = grammar-driven.
Every random choice comes from the rng passed in."""
from __future__ import annotations
import itertools, random

REF = "#/components/schemas/"

LEAVES = {
    "any": {},
    "bool": {"type": "boolean"},
    "int": {"type": "integer"},
    "float": {"type": "number"},
    "str": {"type": "string"},
    "date": {"type": "string", "format": "date"},
    "datetime": {"type": "string", "format": "date-time"},
    "uuid": {"type": "string", "format": "uuid"},
    "conststr": {"const": "fixed"},
    "constint": {"const": 7},
    "const0": {"const": 0}, "constempty": {"const": ""}, "constfalse": {"const": False},      # FALSY constants are constants too
    "enumstr": {"type": "string", "enum": ["a", "b c", "D", ""]},          # the empty string and 0 are FALSY members
    "enumint": {"type": "integer", "enum": [1, 2, -3, 0]},
}
NULL = {"type": "null"}
# what each leaf schema must be parsed as (kind tag of lib.absprop) - the DOCUMENT is the reference, not the parse
EXPECTED_LEAF_KIND = {"any": "any", "bool": "bool", "int": "int", "float": "float", "str": "str", "date": "date", "datetime": "datetime", "uuid": "uuid",
                      "conststr": "const", "constint": "const", "const0": "const", "constempty": "const", "constfalse": "const", "enumstr": "enum", "enumint": "enum"}


def obj(props, required=(), addl="absent", **kw):
    s = {"type": "object", "properties": props}
    if required:
        s["required"] = list(required)
    if addl != "absent":
        s["additionalProperties"] = addl
    s.update(kw)
    return s


def arr(items):
    return {"type": "array", "items": items}


def any_of(*ms):
    return {"anyOf": list(ms)}


def doc_with(schemas, paths=None, version="3.1.0"):
    return {"openapi": version, "info": {"title": "t", "version": "1"}, "paths": paths or {}, "components": {"schemas": schemas}}


# ------------------------------------------------------------------ atlas
def atlas_docs():
    """list of (label, document). Every leaf kind in every position, nullable forms, union pairs, recursion, additional props."""
    docs = []
    leaf_names = list(LEAVES)
    # 1. every leaf: required / optional / nullable(3.1 type list or anyOf null) / list item / optional list / additional typed
    S = {"Sub": obj({"n": {"type": "integer"}, "dt": {"type": "string", "format": "date"}}, required=["n"])}
    for ln in leaf_names:
        leaf = LEAVES[ln]
        props = {"r": leaf, "o": leaf, "n": any_of(leaf, NULL), "on": any_of(leaf, NULL), "l": arr(leaf), "ol": arr(leaf), "ll": arr(arr(leaf))}
        S["Leaf_" + ln] = obj(props, required=["r", "n", "l"])
        S["Addl_" + ln] = obj({"k": {"type": "string"}}, addl=leaf)
    docs.append(("leaves", doc_with(S)))
    # 2. models: nested, list of models, optional model, nullable model, recursive, mutually recursive, closed, typed additional model
    M = {
        "Inner": obj({"a": {"type": "integer"}, "when": {"type": "string", "format": "date-time"}}, required=["a"]),
        "Outer": obj({"i": {"$ref": REF + "Inner"}, "oi": {"$ref": REF + "Inner"}, "ni": any_of({"$ref": REF + "Inner"}, NULL),
                      "li": arr({"$ref": REF + "Inner"}), "oli": arr({"$ref": REF + "Inner"}), "e": {"$ref": REF + "Color"}, "oe": {"$ref": REF + "Color"},
                      "le": arr({"$ref": REF + "Color"})}, required=["i", "ni", "li", "e"]),
        "Color": {"type": "string", "enum": ["red", "green"]},
        "Tree": obj({"v": {"type": "integer"}, "kids": arr({"$ref": REF + "Tree"}), "parent": any_of({"$ref": REF + "Tree"}, NULL)}, required=["v"]),
        "A": obj({"b": {"$ref": REF + "B"}, "x": {"type": "string"}}),
        "B": obj({"a": {"$ref": REF + "A"}, "y": {"type": "string", "format": "uuid"}}),
        "Closed": obj({"p": {"type": "string"}, "q": {"type": "integer"}}, required=["p"], addl=False),
        "Open": obj({"p": {"type": "string"}}, addl=True),
        "Empty": obj({}),
        "EmptyClosed": obj({}, addl=False),
        "AllOptional": obj({"p": {"type": "string"}, "q": {"type": "integer"}}),
        # optional / nullable / listed references to models whose valid instances include the FALSY value {}
        "Falsy": obj({"e": {"$ref": REF + "Empty"}, "ec": {"$ref": REF + "EmptyClosed"}, "ao": {"$ref": REF + "AllOptional"},
                      "ne": any_of({"$ref": REF + "AllOptional"}, NULL), "le": arr({"$ref": REF + "AllOptional"}),
                      "zero": {"type": "integer", "enum": [0, 1]}, "blank": {"type": "string", "enum": ["", "x"]},
                      "d0": {"type": "string", "format": "date"}}, required=[]),
        # schema defaults: a required property WITH a default declared before required ones without; optional properties with a default of every scalar kind
        "Defaults": obj({"status": {"type": "string", "default": "new"}, "id": {"type": "integer"}, "pageSize": {"type": "integer", "default": 20},
                         "theme": {"type": "string", "default": "light"}, "verbose": {"type": "boolean", "default": False}, "ratio": {"type": "number", "default": 1.5},
                         "color": {"allOf": [{"$ref": REF + "Color"}], "default": "red"}, "since": {"type": "string", "format": "date", "default": "2020-01-02"},
                         "zero": {"type": "integer", "default": 0}, "blank": {"type": "string", "default": ""}, "note": any_of({"type": "string"}, NULL),
                         "rate": {"type": "number", "default": 2}, "key": {"type": "string"},
                         # integral defaults of an integer written in float form / as a string: the emitted literal is the normalised int
                         "whole": {"type": "integer", "default": 10.0}, "whole_s": {"type": "integer", "default": "3"},
                         # optional unions WITH a default whose members all need construction (no plain member to fall through to)
                         "expires": {"oneOf": [{"type": "string", "format": "date"}, {"type": "string", "enum": ["never", "logout"]}], "default": "never"},
                         "renewed": {"oneOf": [{"type": "string", "format": "date"}, {"type": "string", "enum": ["never", "logout"]}]}}, required=["status", "id", "rate", "key"]),
        "MapOfModels": obj({"name": {"type": "string"}}, addl={"$ref": REF + "Inner"}),
        "MapOfLists": obj({}, addl=arr({"type": "string", "format": "date"})),
        "MapOfEnums": obj({}, addl={"$ref": REF + "Color"}),
        "MapOfUnion": obj({}, addl=any_of({"type": "string", "format": "date"}, {"type": "integer"})),
        "Inline": obj({"child": obj({"z": {"type": "string", "format": "date"}, "deep": obj({"w": {"type": "integer"}})}, required=["z"])}),
    }
    docs.append(("models", doc_with(M)))
    # 3. unions: all ordered pairs of distinct member kinds (incl. model, list-of-date, list-of-str, null) as required + optional properties
    members = {"int": LEAVES["int"], "float": LEAVES["float"], "str": LEAVES["str"], "bool": LEAVES["bool"], "date": LEAVES["date"], "datetime": LEAVES["datetime"],
               "uuid": LEAVES["uuid"], "enumstr": LEAVES["enumstr"], "enumint": LEAVES["enumint"], "conststr": LEAVES["conststr"],
               "model": {"$ref": REF + "UM"}, "model2": {"$ref": REF + "UM2"}, "closed": {"$ref": REF + "UClosed"},
               "listdate": arr(LEAVES["date"]), "liststr": arr(LEAVES["str"]), "listmodel": arr({"$ref": REF + "UM"}), "null": NULL, "any": {}}
    names = list(members)
    pairs = list(itertools.permutations(names, 2))
    chunk = 60
    for ci in range(0, len(pairs), chunk):
        U = {"UM": obj({"m": {"type": "integer"}}, required=["m"]), "UM2": obj({"m2": {"type": "string"}}, required=["m2"]),
             "UClosed": obj({"c": {"type": "string"}}, addl=False)}
        for (a, b) in pairs[ci:ci + chunk]:
            # one small holder class per ordered pair: required and optional occurrence
            U[f"P_{a}_{b}"] = obj({"v": any_of(members[a], members[b]), "o": any_of(members[a], members[b])}, required=["v"], addl=False)
        docs.append((f"unions{ci // chunk}", doc_with(U)))
    # 4. triples with null and oneOf / type-list notation
    T = {"UM": obj({"m": {"type": "integer"}}, required=["m"]),
         "Trip": obj({"t1": {"oneOf": [LEAVES["date"], {"$ref": REF + "UM"}, NULL]}, "t2": {"type": ["string", "integer", "null"]},
                      "t3": any_of(arr({"$ref": REF + "UM"}), LEAVES["enumstr"], LEAVES["int"]), "t4": {"type": ["array", "null"], "items": LEAVES["date"]},
                      "t5": any_of(LEAVES["uuid"], LEAVES["bool"], arr(LEAVES["int"]), NULL),
                      "t6": {"oneOf": [NULL, arr({}), LEAVES["date"]]}}, required=["t1", "t3"])}
    docs.append(("triples", doc_with(T)))
    # 5. allOf composition
    C = {"Base": obj({"id": {"type": "integer"}, "tag": {"type": "string"}}, required=["id"]),
         "Mixin": obj({"when": {"type": "string", "format": "date"}, "tag": {"type": "string"}}, required=["tag"]),
         "Composed": {"allOf": [{"$ref": REF + "Base"}, {"$ref": REF + "Mixin"}, obj({"extra": arr({"$ref": REF + "Base"})})]},
         "Chain": {"allOf": [{"$ref": REF + "Composed"}, obj({"more": {"type": "number"}}, required=["more"])]},
         # a child that REQUIRES properties its parent declares as optional, without restating them: the parent (declared before AND after
         # the child) must keep them optional
         "PetA": obj({"id": {"type": "integer"}, "nickname": {"type": "string"}, "born": {"type": "string", "format": "date"}}, required=["id"]),
         "RegisteredPet": {"allOf": [{"$ref": REF + "PetA"}, {"type": "object", "required": ["nickname", "registry"], "properties": {"registry": {"type": "string"}}}]},
         "RegisteredPetB": {"allOf": [{"$ref": REF + "PetB"}, {"type": "object", "required": ["born"]}]},
         "PetB": obj({"id": {"type": "integer"}, "nickname": {"type": "string"}, "born": {"type": "string", "format": "date"}}, required=["id"]),
         "SiblingOfRegistered": {"allOf": [{"$ref": REF + "PetA"}, obj({"other": {"type": "integer"}})]},
         # two $ref parents whose property names collide only AFTER snake-casing
         "Hardware": obj({"serialNumber": {"type": "string"}}, required=["serialNumber"]),
         "Inventory": obj({"serial_number": {"type": "string"}, "shelf": {"type": "integer"}}),
         "Device": {"allOf": [{"$ref": REF + "Hardware"}, {"$ref": REF + "Inventory"}]},
         # a child that REDEFINES an inherited inline-enum property with a superset enum carrying a default
         "Animal": obj({"mood": {"type": "string", "enum": ["calm", "angry"]}, "legs": {"type": "integer"}}),
         "Cat": {"allOf": [{"$ref": REF + "Animal"}, {"type": "object", "properties": {"mood": {"type": "string", "enum": ["calm", "angry", "sleepy"], "default": "calm"}, "indoor": {"type": "boolean"}}}]}}
    docs.append(("allof", doc_with(C)))
    return docs


def doc_props_required(doc, schema, depth=0):
    """from the DOCUMENT alone: (declared property names, names the schema requires) of an object schema, through allOf members and
    component references; None when the schema is not a plain object composition this function understands"""
    if depth > 12 or not isinstance(schema, dict):
        return None
    if "$ref" in schema:
        ref = schema["$ref"]
        if not ref.startswith(REF):
            return None
        return doc_props_required(doc, doc.get("components", {}).get("schemas", {}).get(ref[len(REF):]), depth + 1)
    if any(k in schema for k in ("oneOf", "anyOf", "enum", "const", "not")) or schema.get("type") not in (None, "object"):
        return None
    props, req = set((schema.get("properties") or {})), set(schema.get("required") or [])
    for m in schema.get("allOf") or []:
        r = doc_props_required(doc, m, depth + 1)
        if r is None:
            return None
        props |= r[0]; req |= r[1]
    return props, req


def builtin_names_doc():
    """every Python builtin / keyword / soft keyword as an OPTIONAL property name of an open model (the class body then binds that name:
    it must have been renamed) and as an optional query parameter"""
    import builtins, keyword
    names = sorted({n for n in dir(builtins) if n.islower() and n.isidentifier() and not n.startswith("_")} | set(keyword.kwlist) | set(keyword.softkwlist) |
                   {"self", "cls", "field", "define", "attrs", "json", "datetime", "uuid", "types", "errors", "client", "models", "api", "typing", "httpx", "http"})
    S = {"Builtins": obj(dict({n: {"type": "string"} for n in names}, zq_union={"type": ["string", "null"]}, zq_when=any_of({"type": "string", "format": "date"}, {"type": "integer"})), required=[]),
         "BuiltinsDated": obj(dict({n: {"type": "string"} for n in names[::3]}, when={"type": "string", "format": "date-time"}), required=["when"])}
    paths = {}
    for i in range(0, len(names), 12):
        paths[f"/b{i}"] = {"get": {"operationId": f"builtins_{i}", "parameters": [{"name": n, "in": "query", "schema": {"type": "string"}} for n in names[i:i + 12]],
                                   "responses": {"200": {"description": "d", "content": {"application/json": {"schema": {"$ref": REF + "Builtins"}}}}}}}
    return doc_with(S, paths)


def locals_doc(build_dir, known_ids):
    """properties named after every identifier the MODEL templates bind or read in a class body / from_dict / to_dict / to_multipart
    (regenerated by harness/translate/gen_names.py for the tree under test), except the names listed as capture findings; each next to
    arrays of models / dates / nested arrays declared AFTER it (their loops run after the property's local was assigned)"""
    import json, os
    path = os.path.join(str(build_dir), "gen_names.json")
    if not os.path.exists(path):
        return None
    d = json.load(open(path))
    known = {i.rsplit("_", 1)[0] and i for i in known_ids}
    names = []
    for c in d.get("candidates", []):
        scopes = [sc for sc in c["scopes"] if sc.startswith("model.")]
        if not scopes or not c["name"].isidentifier() or c["name"].startswith("__"):
            continue
        if any(("capture_" + sc.replace(".", "_") + "_" + c["name"]) in known for sc in scopes):
            continue
        names.append(c["name"])
    if not names:
        return None
    S = {"LEvent": obj({"at": {"type": "string", "format": "date"}, "n": {"type": "integer"}}, required=["n"])}
    for i in range(0, len(names), 6):
        props = {n: {"type": "string"} for n in names[i:i + 6]}
        props.update({"zhistory": arr({"$ref": REF + "LEvent"}), "zwindows": arr(arr({"type": "string", "format": "date"})), "zwhen": {"type": "string", "format": "date-time"},
                      "zmaybe": any_of({"$ref": REF + "LEvent"}, NULL)})
        S["Locals%d" % (i // 6)] = obj(props, required=list(names[i:i + 6])[:2], addl={"type": "string", "format": "date"})
    return doc_with(S)


def enum_edge_doc():
    """enum values that are not identifier material (sign / punctuation first, digits after punctuation, only punctuation) and twin
    enums (two inline enums deriving one class name: equal, subset, superset, disjoint) - every listed value must stay decodable"""
    S = {"Reaction": {"type": "string", "enum": ["+1", "-1", "laugh", "hooray"]},
         "Marks": {"type": "string", "enum": ["@x", "#1", "1+", "$", "-", "a-b", "a_b2", "...", "?!"]},
         "Greeting": {"type": "string", "enum": ["plain", 'say "hi"', "it's", "tab\there"]},
         "UsesEdge": obj({"reaction": {"$ref": REF + "Reaction"}, "mark": {"$ref": REF + "Marks"}, "inline": {"type": "string", "enum": ["+", "-", "+-", "10%"]},
                          "greeting": {"$ref": REF + "Greeting"}, "alternatives": arr({"$ref": REF + "Greeting"})}, required=["reaction"]),
         # twins: <Holder>.<prop> and <HolderProp-like>.<prop> derive the same class name
         "Order": obj({"id": {"type": "integer"}, "itemStatus": {"type": "string", "enum": ["new", "packed", "shipped", "returned"]}}, required=["id"]),
         "OrderItem": obj({"sku": {"type": "string"}, "status": {"type": "string", "enum": ["new", "shipped"]}}),
         "Cart": obj({"id": {"type": "integer"}, "lineState": {"type": "string", "enum": ["open", "held"]}}, required=["id"]),
         "CartLine": obj({"state": {"type": "string", "enum": ["open", "held", "gone"]}}),
         "Box": obj({"lidKind": {"type": "string", "enum": ["flat", "dome"]}}),
         "BoxLid": obj({"kind": {"type": "string", "enum": ["flat", "dome"]}})}
    paths = {"/edge": {"get": {"operationId": "edge", "parameters": [{"name": "reaction", "in": "query", "schema": {"$ref": REF + "Reaction"}}],
                               "responses": {"200": {"description": "d", "content": {"application/json": {"schema": {"$ref": REF + "UsesEdge"}}}}}}}}
    return doc_with(S, paths)


def reserved_doc():
    """classes whose derived MODULE name is a reserved word (module gets the `_` suffix) or whose class name shadows a name the
    templates use, each used in every position: model property, list item, union member, parameter in every location, body, response"""
    R = REF
    S = {"Type": {"type": "string", "enum": ["a", "b"]}, "Format": {"type": "integer", "enum": [1, 2]},
         "Class": obj({"x": {"type": "string"}}), "Import": obj({"t": {"$ref": R + "Type"}, "cs": arr({"$ref": R + "Class"})}, required=["t"]),
         "List": obj({"n": {"type": "integer"}}), "Self": obj({"again": {"$ref": R + "Self"}}), "Id": {"type": "string", "enum": ["p", "q"]},
         "Holder": obj({"type": {"$ref": R + "Type"}, "format": {"$ref": R + "Format"}, "class": {"$ref": R + "Class"}, "import": {"$ref": R + "Import"},
                        "maybe": any_of({"$ref": R + "Class"}, NULL), "u": {"oneOf": [{"$ref": R + "Type"}, {"$ref": R + "Format"}]},
                        "lt": arr({"$ref": R + "Type"}), "list": {"$ref": R + "List"}, "mu": any_of({"$ref": R + "List"}, {"$ref": R + "Self"}),
                        "id": {"$ref": R + "Id"}}, required=["type", "class"])}
    J = lambda n: {"content": {"application/json": {"schema": {"$ref": R + n}}}}
    par = lambda n, loc, ref, req=None: dict({"name": n, "in": loc, "schema": {"$ref": R + ref}}, **({"required": True} if (req or loc == "path") else {}))
    paths = {"/things/{type}": {"get": {"operationId": "get_thing", "parameters": [par("type", "path", "Type"), par("format", "query", "Format"), par("id", "query", "Id", True),
                                                                              par("X-Type", "header", "Type"), par("fmt", "cookie", "Format")],
                                        "responses": {"200": dict(description="d", **J("Holder")), "404": dict(description="n", **J("Class"))}},
                                "post": {"operationId": "post_thing", "parameters": [par("type", "path", "Type")], "requestBody": J("Import"),
                                         "responses": {"200": dict(description="d", **J("List"))}}},
             "/types": {"get": {"operationId": "list_types", "parameters": [{"name": "types", "in": "query", "schema": arr({"$ref": R + "Type"})}],
                                "responses": {"200": {"description": "d", "content": {"application/json": {"schema": arr({"$ref": R + "Type"})}}}}}}}
    return doc_with(S, paths)


RESERVED_CFGS = [None, {"literal_enums": True},
                 {"class_overrides": {"Holder": {"class_name": "Keeper", "module_name": "keeper_mod"}, "Type": {"class_name": "Kind", "module_name": "kind_module"},
                                      "Class": {"class_name": "Klass"}}},
                 {"literal_enums": True, "class_overrides": {"Format": {"class_name": "Fmt", "module_name": "fmt_mod"}, "Id": {"module_name": "ident"}}}]


# ------------------------------------------------------------------ random documents
def random_doc(rng: random.Random, n_models=6, depth=2):
    names = [f"M{i}" for i in range(n_models)]
    enums = {"E0": {"type": "string", "enum": ["x", "y", "z"]}, "E1": {"type": "integer", "enum": [0, 5, -1]}}

    def leaf():
        return dict(LEAVES[rng.choice(list(LEAVES))])

    def schema(d):
        r = rng.random()
        if d <= 0 or r < 0.35:
            return leaf()
        if r < 0.5:
            return {"$ref": REF + rng.choice(names + list(enums))}
        if r < 0.65:
            return arr(schema(d - 1))
        if r < 0.85:
            k = rng.randint(2, 3)
            ms = [schema(d - 1) for _ in range(k)]
            if rng.random() < 0.4:
                ms.append(NULL)
            rng.shuffle(ms)
            return {rng.choice(["anyOf", "oneOf"]): ms}
        props = {f"p{i}": schema(d - 1) for i in range(rng.randint(0, 3))}
        return obj(props, required=[k for k in props if rng.random() < 0.5])

    S = dict(enums)
    for n in names:
        props = {f"f{i}": schema(depth) for i in range(rng.randint(1, 5))}
        addl = rng.choice(["absent", "absent", True, False, "typed"])
        if addl == "typed":
            addl = schema(1)
        S[n] = obj(props, required=[k for k in props if rng.random() < 0.5], addl=addl)
    return doc_with(S)


# ------------------------------------------------------------------ instances (schema-directed, over the abstracted kind tuples of lib.absprop)
DATES = ["2020-01-01", "1999-12-31", "2024-02-29"]
DATETIMES = ["2020-01-01T10:00:00", "2021-06-30T23:59:59+00:00", "2000-01-01T00:00:00.500000"]
NONCANON = ["20200101", "2020-01-01T10:00:00Z", "2020-01-01T00:00:00", "2020-01"]
UUIDS = ["12345678-1234-5678-1234-567812345678", "00000000-0000-0000-0000-000000000000"]
NONCANON_UUID = ["{12345678-1234-5678-1234-567812345678}", "12345678123456781234567812345678", "ABCDEF12-1234-5678-1234-567812345678"]
STRS = ["", "hello", "a b", "é中", "2020-01-01", "7", "null", "fixed", "a", "red"]


def scalar(rng):
    return rng.choice([None, True, False, 0, 1, 7, -3, 1.5, -0.25, "", "hello", "a", "fixed", "2020-01-01", "2020-01-01T10:00:00", UUIDS[0]])


def has_file(k):
    """the kind contains a binary payload (directly, as array item or union member)"""
    return k[0] == "file" or (k[0] == "list" and has_file(k[1])) or (k[0] == "union" and any(has_file(m) for m in k[1]))


class NoInstance(Exception):
    """the schema has no finite instance along this path (required cycle)"""


class Inst:
    def __init__(self, abs_, rng, maxdepth=4):
        self.abs, self.rng, self.maxdepth = abs_, rng, maxdepth
        self.models = {str(m.class_info.name): m for m in abs_.models}

    def valid(self, k, d=0, canonical=True):
        """a JSON value valid for kind k (None result is a legitimate JSON null; use self.FAIL for 'cannot')."""
        rng = self.rng
        t = k[0]
        if d > 14:
            raise NoInstance()
        if t == "any":
            return scalar(rng) if rng.random() < 0.8 else rng.choice([[1, "a"], {"z": 1}, []])
        if t == "none":
            return None
        if t == "bool":
            return rng.random() < 0.5
        if t == "int":
            return rng.choice([0, 1, -1, 7, 12345678901234567890])
        if t == "float":
            return rng.choice([1.5, -0.25, 3, 0, 1e-3])
        if t == "str":
            return rng.choice(STRS)
        if t == "date":
            return rng.choice(DATES) if canonical or rng.random() < 0.7 else rng.choice(NONCANON)
        if t == "datetime":
            return rng.choice(DATETIMES) if canonical or rng.random() < 0.7 else rng.choice(NONCANON)
        if t == "uuid":
            return rng.choice(UUIDS) if canonical or rng.random() < 0.7 else rng.choice(NONCANON_UUID)
        if t == "file":
            return "bytes"
        if t == "const":
            return k[1]
        if t == "enum":
            return rng.choice(k[3])
        if t == "litenum":
            return rng.choice(k[2])
        if t == "list":
            n = 0 if d >= self.maxdepth else rng.choice([0, 1, 2, 3])
            return [self.valid(k[1], d + 1, canonical) for _ in range(n)]
        if t == "union":
            ms = k[1]
            if d >= self.maxdepth:
                simple = [m for m in ms if m[0] not in ("model", "list", "union")]
                if simple:
                    ms = simple
            return self.valid(rng.choice(ms), d + 1, canonical)
        if t == "model":
            return self.model_instance(k[1], d + 1, canonical)
        raise ValueError(t)

    def model_instance(self, cls, d=0, canonical=True):
        rng = self.rng
        m = self.models[cls]
        out = {}
        props_ = self.abs.class_props(m)
        if d > 0 and not any(r for _, r, _ in props_) and rng.random() < 0.3:
            return {}          # the falsy instance of a model without required properties
        for name, req, k in props_:
            deep = d >= self.maxdepth
            if has_file(k):
                if req:
                    raise NoInstance()      # a binary payload has no JSON representation
                continue
            if req or (not deep and rng.random() < 0.6):
                if deep and not req:
                    continue
                out[name] = self.valid(k, d, canonical)
        ad = self.abs.class_addl(m)
        if ad is not None and d < self.maxdepth and rng.random() < 0.6:
            for i in range(rng.randint(1, 2)):
                key = rng.choice(["extra", "zz", "A", "é", "x-1"])
                if key not in out and key not in [p[0] for p in self.abs.class_props(m)]:
                    out[key] = self.valid(ad, d + 1, canonical)
        return out

    def mutate(self, k, j, d=0):
        """near-valid instance: at ONE leaf / union position replace the value by a scalar of another type (positions where the
        model's totalisation is exact: leaves and union members; never a wrong container type in a direct position)."""
        rng = self.rng
        t = k[0]
        if t in ("any", "none", "bool", "int", "float", "str", "date", "datetime", "uuid", "const", "enum", "litenum"):
            return scalar(rng)
        if t == "union":
            r = rng.random()
            if r < 0.5:
                return scalar(rng)
            if r < 0.7:
                return rng.choice([[], ["hello"], ["2020-01-01"], [1], {}, {"m": 1}, {"zzz": "q"}, [None]])
            return self.valid(k, d)
        if t == "list" and isinstance(j, list) and j:
            i = rng.randrange(len(j))
            j = list(j)
            j[i] = self.mutate(k[1], j[i], d + 1)
            return j
        if t == "model" and isinstance(j, dict):
            m = self.models[k[1]]
            props = self.abs.class_props(m)
            j = dict(j)
            r = rng.random()
            present = [(n, rq, kk) for n, rq, kk in props if n in j]
            if r < 0.2 and present:
                n, rq, kk = rng.choice(present)
                del j[n]          # missing key (KeyError when required)
            elif r < 0.35:
                j[rng.choice(["extra", "undeclared"])] = rng.choice([None, True, 7, 1.5])   # undeclared key (dropped by closed models); no strings: a string in a typed-array position is iterated
            elif present:
                n, rq, kk = rng.choice(present)
                j[n] = self.mutate(kk, j[n], d + 1)
            return j
        return j
