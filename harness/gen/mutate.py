"""Hostile inputs for C06 (and reusable elsewhere): a feature-rich valid document, node-replacement mutations of valid
documents (replace / delete / duplicate any node by wrong type, null, empty, dangling / remote / self / mutually recursive
$ref, contradictory keywords), raw junk texts offered as JSON or YAML, and non-OpenAPI JSON values.
Every random choice comes from the rng passed in."""
from __future__ import annotations
import copy, json, random

REF = "#/components/schemas/"


def sink_doc(version="3.1.0"):
    """One valid document touching most parser paths (all component sections, every body encoding, path-level parameters)."""
    o = lambda props, **kw: {"type": "object", "properties": props, **kw}
    r = lambda n: {"$ref": REF + n}
    nullable_str = {"type": ["string", "null"]} if version.startswith("3.1") else {"type": "string", "nullable": True}
    schemas = {
        "Kind": {"type": "string", "enum": ["cat", "dog", "two words"]},
        "Level": {"type": "integer", "enum": [1, 2, 3]},
        "Base": o({"id": {"type": "integer"}, "created": {"type": "string", "format": "date-time"}}, required=["id"]),
        "Owner": {"allOf": [r("Base"), o({"name": {"type": "string", "default": "nobody"}, "pets": {"type": "array", "items": r("Pet")}})]},
        "Pet": o({"name": {"type": "string"}, "kind": r("Kind"), "level": r("Level"), "owner": r("Owner"), "kids": {"type": "array", "items": r("Pet")},
                  "born": {"type": "string", "format": "date"}, "uid": {"type": "string", "format": "uuid"}, "nick": nullable_str,
                  "either": {"anyOf": [r("Owner"), r("Base"), {"type": "string"}]}, "photo": {"type": "string", "format": "binary"},
                  "fixed": {"const": "pet"}, "inline": o({"deep": o({"z": {"type": "number", "default": 1.5}})}),
                  "count": {"type": "integer", "default": 3}, "flag": {"type": "boolean", "default": True}},
                 required=["name", "kind"], additionalProperties={"type": "string"}),
        "Error": o({"code": {"type": "integer"}, "message": {"type": "string"}}, required=["code"], additionalProperties=False),
        "Tree": o({"value": {"type": "integer"}, "children": {"type": "array", "items": r("Tree")}}),
        "PetList": {"type": "array", "items": r("Pet")},
        "StrMap": {"type": "object", "additionalProperties": r("Error")},
        "OneOfThem": {"oneOf": [r("Pet"), r("Error")]},
        "AnyThing": {},
    }
    parameters = {
        "Limit": {"name": "limit", "in": "query", "schema": {"type": "integer", "default": 10}},
        "Trace": {"name": "X-Trace", "in": "header", "schema": {"type": "string"}},
        "Session": {"name": "session", "in": "cookie", "schema": {"type": "string"}},
        "KindQ": {"name": "kind", "in": "query", "required": True, "schema": r("Kind")},
    }
    pet_json = {"application/json": {"schema": r("Pet")}}
    request_bodies = {
        "PetBody": {"required": True, "content": pet_json},
        "Alias": {"$ref": "#/components/requestBodies/PetBody"},
        "Multi": {"content": {"application/json": {"schema": r("Pet")}, "application/x-www-form-urlencoded": {"schema": r("Error")},
                              "multipart/form-data": {"schema": o({"file": {"type": "string", "format": "binary"}, "meta": r("Error")})},
                              "application/octet-stream": {"schema": {"type": "string", "format": "binary"}}, "text/plain": {"schema": {"type": "string"}}}},
    }
    responses = {
        "NotFound": {"description": "nf", "content": {"application/json": {"schema": r("Error")}}},
        "Empty": {"description": "empty"},
    }
    ok = lambda s: {"description": "ok", "content": {"application/json": {"schema": s}}}
    paths = {
        "/pets": {
            "get": {"operationId": "listPets", "tags": ["pets"], "parameters": [{"$ref": "#/components/parameters/Limit"}, {"$ref": "#/components/parameters/KindQ"},
                                                                              {"name": "tags", "in": "query", "schema": {"type": "array", "items": {"type": "string"}}}],
                    "responses": {"200": ok(r("PetList")), "404": {"$ref": "#/components/responses/NotFound"}, "default": ok(r("Error"))}},
            "post": {"operationId": "addPet", "tags": ["pets", "admin"], "requestBody": {"$ref": "#/components/requestBodies/Alias"},
                     "responses": {"201": ok(r("Pet")), "204": {"$ref": "#/components/responses/Empty"}}},
        },
        "/pets/{petId}": {
            "parameters": [{"name": "petId", "in": "path", "required": True, "schema": {"type": "string", "format": "uuid"}}, {"$ref": "#/components/parameters/Trace"}],
            "get": {"operationId": "getPet", "tags": ["pets"], "parameters": [{"$ref": "#/components/parameters/Session"}], "responses": {"200": ok(r("OneOfThem")), "4XX": ok(r("Error"))}},
            "put": {"operationId": "putPet", "tags": ["pets"], "requestBody": {"content": pet_json}, "responses": {"200": ok(r("Pet"))}},
            "delete": {"tags": ["admin"], "responses": {"204": {"description": "gone"}}},
        },
        "/upload": {"post": {"operationId": "upload", "requestBody": {"$ref": "#/components/requestBodies/Multi"},
                             "responses": {"200": {"description": "t", "content": {"text/plain": {"schema": {"type": "string"}}}}}}},
        "/tree": {"get": {"operationId": "get tree", "tags": ["trees"], "responses": {"200": ok(r("Tree")), "500": {"description": "bin", "content": {"application/octet-stream": {"schema": {"type": "string", "format": "binary"}}}}}}},
        "/map": {"patch": {"operationId": "patchMap", "requestBody": {"content": {"application/json": {"schema": r("StrMap")}}}, "responses": {"200": ok({"type": "array", "items": {"anyOf": [r("Kind"), r("Level")]}})}}},
    }
    doc = {"openapi": version, "info": {"title": "Sink API", "version": "1.0", "description": "d"}, "servers": [{"url": "https://x.test"}], "paths": paths,
           "components": {"schemas": schemas, "parameters": parameters, "requestBodies": request_bodies, "responses": responses,
                          "securitySchemes": {"key": {"type": "apiKey", "in": "header", "name": "X-Key"}}},
           "security": [{"key": []}], "tags": [{"name": "pets"}]}
    return doc


# ------------------------------------------------------------------ node enumeration
def node_paths(doc, pre=()):
    """all paths (tuples of keys / indices) below the root, excluding the root itself"""
    out = []
    if isinstance(doc, dict):
        for k, v in doc.items():
            out.append(pre + (k,))
            out.extend(node_paths(v, pre + (k,)))
    elif isinstance(doc, list):
        for i, v in enumerate(doc):
            out.append(pre + (i,))
            out.extend(node_paths(v, pre + (i,)))
    return out


def get_at(doc, path):
    for k in path:
        doc = doc[k]
    return doc


def enclosing_component(path):
    """('schemas', name) when the path lies inside components/<section>/<name>"""
    if len(path) >= 3 and path[0] == "components":
        return path[1], path[2]
    return None


SCALAR_JUNK = [None, True, False, 0, -1, 7, 1.5, 10 ** 30, -0.0, "", "x", "null", "true", "1", "$ref", "a/b", "é中", "A" * 300, "\u0000", "\ud800"[:0] + "\x7f"]
CONTAINER_JUNK = [[], {}, [[]], [{}], {"": {}}, [None], {"x": None}, [1, "a", None], {"a": {"b": {"c": []}}}]


def ref_junk(rng, path, doc):
    comp = enclosing_component(path)
    section = comp[0] if comp else rng.choice(["schemas", "parameters", "requestBodies", "responses"])
    names = list((doc.get("components") or {}).get(section) or {}) if isinstance(doc.get("components"), dict) else []
    self_name = comp[1] if comp else (rng.choice(names) if names else "Nope")
    other_sections = [s for s in ["schemas", "parameters", "requestBodies", "responses", "examples", "headers"] if s != section]
    pool = [
        ("ref-dangling", {"$ref": f"#/components/{section}/DoesNotExist"}),
        ("ref-remote", {"$ref": "https://example.test/other.json#/components/schemas/Thing"}),
        ("ref-relative-file", {"$ref": "other.yaml#/components/schemas/Thing"}),
        ("ref-self", {"$ref": f"#/components/{section}/{self_name}"}),
        ("ref-empty", {"$ref": ""}),
        ("ref-hash", {"$ref": "#"}),
        ("ref-hash-slash", {"$ref": "#/"}),
        ("ref-no-hash", {"$ref": f"/components/{section}/{self_name}"}),
        ("ref-wrong-section", {"$ref": f"#/components/{rng.choice(other_sections)}/{self_name}"}),
        ("ref-non-string", {"$ref": rng.choice([5, None, [], {}])}),
        ("ref-percent", {"$ref": f"#/components/{section}/{self_name}%20x"}),
        ("ref-tilde", {"$ref": f"#/components/{section}/a~1b~0c"}),
        ("ref-deep", {"$ref": f"#/components/{section}/{self_name}/properties/name"}),
        ("ref-with-siblings", {"$ref": f"#/components/{section}/{self_name}", "type": "string", "description": "sib", "default": 5}),
        ("ref-trailing-slash", {"$ref": f"#/components/{section}/{self_name}/"}),
        ("ref-paths", {"$ref": "#/paths/~1pets/get"}),
    ]
    if names:
        pool.append(("ref-existing", {"$ref": f"#/components/{section}/{rng.choice(names)}"}))
    return rng.choice(pool)


def contradiction(rng, path, doc):
    comp = enclosing_component(path)
    selfref = {"$ref": REF + (comp[1] if comp and comp[0] == "schemas" else "Pet")}
    pool = [
        ("kw-type-enum-mismatch", {"type": "string", "enum": [1, 2]}),
        ("kw-enum-empty", {"type": "string", "enum": []}),
        ("kw-enum-dup", {"type": "string", "enum": ["a", "a"]}),
        ("kw-enum-case-dup", {"enum": ["a", "A"]}),
        ("kw-enum-mixed", {"enum": ["a", 1, None, True, 1.5, [], {}]}),
        ("kw-enum-null-only", {"enum": [None]}),
        ("kw-enum-float", {"enum": [0.5, 1.5]}),
        ("kw-enum-bool", {"enum": [True, False]}),
        ("kw-enum-typed-float", {"type": "number", "enum": [0.5, 1.5]}),
        ("kw-enum-of-lists", {"enum": [[1], [2]]}),
        ("kw-enum-default-missing", {"type": "string", "enum": ["a", "b"], "default": "zzz"}),
        ("kw-const-enum", {"const": 1, "enum": [2]}),
        ("kw-const-default", {"const": "a", "default": "b"}),
        ("kw-const-object", {"const": {"a": [1]}}),
        ("kw-int-default-str", {"type": "integer", "default": "abc"}),
        ("kw-int-default-inf", {"type": "integer", "default": "inf"}),
        ("kw-number-default-nan", {"type": "number", "default": "nan"}),
        ("kw-int-default-huge", {"type": "number", "default": 10 ** 400}),
        ("kw-bool-default-str", {"type": "boolean", "default": "maybe"}),
        ("kw-date-default-bad", {"type": "string", "format": "date", "default": "not-a-date"}),
        ("kw-datetime-default-bad", {"type": "string", "format": "date-time", "default": 5}),
        ("kw-uuid-default-bad", {"type": "string", "format": "uuid", "default": "zz"}),
        ("kw-default-object", {"type": "object", "properties": {"a": {"type": "integer"}}, "default": {"a": 1}}),
        ("kw-array-default", {"type": "array", "items": {"type": "integer"}, "default": [1, "x"]}),
        ("kw-array-no-items", {"type": "array"}),
        ("kw-array-items-list", {"type": "array", "items": [{"type": "string"}]}),
        ("kw-array-prefix", {"type": "array", "prefixItems": [{"type": "string"}, selfref]}),
        ("kw-type-unknown", {"type": "nul"}),
        ("kw-type-list-empty", {"type": []}),
        ("kw-type-list-dup", {"type": ["string", "string", "null"]}),
        ("kw-type-list-format", {"type": ["string", "integer"], "format": "date"}),
        ("kw-type-list-all", {"type": ["string", "integer", "number", "boolean", "array", "object", "null"]}),
        ("kw-allof-type", {"allOf": [selfref], "type": "string"}),
        ("kw-allof-self", {"allOf": [selfref, {"type": "object", "properties": {"q": {"type": "string"}}}]}),
        ("kw-allof-empty", {"allOf": []}),
        ("kw-allof-conflict", {"allOf": [{"type": "object", "properties": {"a": {"type": "string"}}}, {"type": "object", "properties": {"a": {"type": "integer"}}}]}),
        ("kw-allof-scalar-mix", {"allOf": [{"type": "string"}, {"type": "integer"}]}),
        ("kw-allof-enum-mix", {"allOf": [{"type": "string", "enum": ["a"]}, {"type": "string", "enum": ["b"]}]}),
        ("kw-oneof-empty", {"oneOf": []}),
        ("kw-anyof-blank", {"anyOf": [{}]}),
        ("kw-oneof-anyof", {"oneOf": [{"type": "string"}], "anyOf": [{"type": "integer"}]}),
        ("kw-union-self", {"anyOf": [selfref, {"type": "null"}]}),
        ("kw-required-missing", {"type": "object", "properties": {"a": {"type": "string"}}, "required": ["nope", "a", "a"]}),
        ("kw-properties-scalar", {"type": "object", "properties": 5}),
        ("kw-properties-keys", {"type": "object", "properties": {"": {"type": "string"}, "1": {"type": "string"}, "class": {"type": "string"}, "a-b": {"type": "integer"}, "a_b": {"type": "integer"}}}),
        ("kw-addl-self", {"type": "object", "additionalProperties": selfref}),
        ("kw-items-self", {"type": "array", "items": selfref}),
        ("kw-nullable-ref", {"nullable": True, "allOf": [selfref]}),
        ("kw-not", {"not": {"type": "string"}}),
        ("kw-discriminator", {"oneOf": [selfref], "discriminator": {"propertyName": "kind", "mapping": {"a": "#/nowhere"}}}),
        ("kw-format-on-int", {"type": "integer", "format": "date-time", "default": 1}),
        ("kw-min-str", {"type": "number", "minimum": "x", "maximum": []}),
        ("kw-title-weird", {"type": "object", "title": "", "properties": {}}),
        ("kw-title-keyword", {"type": "object", "title": "class", "properties": {"self": {"type": "string"}}}),
        ("kw-binary-default", {"type": "string", "format": "binary", "default": "x"}),
        ("kw-readonly", {"type": "string", "readOnly": True, "writeOnly": True, "deprecated": "yes"}),
        ("kw-example-huge", {"type": "string", "example": {"a": [1, 2, {"b": None}]}}),
    ]
    return rng.choice(pool)


def mutate_once(doc, rng, two_comps=None):
    """returns (label, new_doc). The document is deep-copied."""
    d = copy.deepcopy(doc)
    paths = node_paths(d)
    if not paths:
        return "noop", d
    path = rng.choice(paths)
    parent = get_at(d, path[:-1])
    key = path[-1]
    op = rng.choice(["replace-scalar", "replace-container", "replace-ref", "replace-ref", "contradiction", "contradiction", "delete", "duplicate", "rename-key", "mutual-ref", "swap-subtree", "collide"])
    if op == "collide":
        return collide_mutation(d, rng)
    depth = "d%d" % min(len(path), 6)
    if op == "replace-scalar":
        v = rng.choice(SCALAR_JUNK)
        parent[key] = v
        return f"replace:{type(v).__name__}:{depth}", d
    if op == "replace-container":
        parent[key] = copy.deepcopy(rng.choice(CONTAINER_JUNK))
        return f"replace:container:{depth}", d
    if op == "replace-ref":
        lab, v = ref_junk(rng, path, d)
        parent[key] = v
        return f"{lab}:{depth}", d
    if op == "contradiction":
        lab, v = contradiction(rng, path, d)
        node = parent[key]
        if isinstance(node, dict) and rng.random() < 0.5:
            node.update(copy.deepcopy(v))      # add the keywords next to what is there
            return f"{lab}:merge:{depth}", d
        parent[key] = copy.deepcopy(v)
        return f"{lab}:{depth}", d
    if op == "delete":
        del parent[key]
        return f"delete:{depth}", d
    if op == "duplicate":
        if isinstance(parent, list):
            parent.insert(key, copy.deepcopy(parent[key]))
        else:
            newk = rng.choice([str(key) + "2", str(key).upper(), str(key).lower(), str(key) + " ", "_" + str(key), str(key).replace("e", "E", 1)])
            parent[newk] = copy.deepcopy(parent[key])
        return f"duplicate:{depth}", d
    if op == "rename-key":
        if isinstance(parent, dict):
            v = parent.pop(key)
            newk = rng.choice(["", " ", "1", "class", "None", "a-b", "a b", "é", "$ref", "x" * 200, "__init__", "self", "../up", "a/b", "{id}", "200", "default", "2XX", "9999", "-1"])
            parent[newk] = v
            return f"rename:{depth}", d
        parent[key] = None
        return f"replace:NoneType:{depth}", d
    if op == "mutual-ref":
        comps = d.get("components") if isinstance(d.get("components"), dict) else None
        section = rng.choice(["schemas", "requestBodies", "parameters", "responses"])
        table = comps.get(section) if comps else None
        if isinstance(table, dict) and len(table) >= 2:
            names = rng.sample(list(table), min(len(table), rng.choice([2, 2, 3])))
            for i, n in enumerate(names):
                tgt = {"$ref": f"#/components/{section}/{names[(i + 1) % len(names)]}"}
                style = rng.choice(["bare", "allOf", "items", "prop"]) if section == "schemas" else "bare"
                table[n] = {"bare": tgt, "allOf": {"allOf": [tgt]}, "items": {"type": "array", "items": tgt}, "prop": {"type": "object", "properties": {"n": tgt}, "required": ["n"]}}[style]
            return f"mutual-ref:{section}:{len(names)}", d
        parent[key] = {"$ref": "#/components/schemas/DoesNotExist"}
        return f"ref-dangling:{depth}", d
    # swap-subtree: put a copy of another node here (type confusion at depth)
    other = get_at(d, rng.choice(paths))
    parent[key] = copy.deepcopy(other)
    return f"swap:{depth}", d


def mutate(doc, rng, n=1):
    labels = []
    d = doc
    for _ in range(n):
        try:
            lab, d = mutate_once(d, rng)
        except (KeyError, IndexError, TypeError, ValueError, AttributeError):
            lab = "noop"
        labels.append(lab)
    return "+".join(labels), d


# ------------------------------------------------------------------ raw junk
def raw_junk(rng, valid_texts):
    """list of (label, bytes, suffix)"""
    out = []
    fixed = [
        ("empty", b""), ("space", b"  \n\t "), ("null", b"null"), ("int", b"5"), ("float", b"1.5"), ("true", b"true"), ("string", b'"abc"'), ("swagger-str", b'"swagger"'),
        ("empty-list", b"[]"), ("list", b"[1, 2]"), ("empty-dict", b"{}"), ("dict", b'{"a": 1}'), ("swagger2", b'{"swagger": "2.0", "info": {}, "paths": {}}'),
        ("openapi-only", b'{"openapi": "3.0.0"}'), ("openapi-int", b'{"openapi": 3, "info": {"title": "t", "version": "1"}, "paths": {}}'),
        ("openapi-2", b'{"openapi": "2.0.0", "info": {"title": "t", "version": "1"}, "paths": {}}'), ("openapi-4", b'{"openapi": "4.0.0", "info": {"title": "t", "version": "1"}, "paths": {}}'),
        ("nan", b'{"a": NaN, "b": Infinity}'), ("bom", b"\xef\xbb\xbf{}"), ("utf16", '{"a": 1}'.encode("utf-16")), ("latin1", "{\"a\": \"\xe9\"}".encode("latin-1")),
        ("bad-utf8", b"\xff\xfe\x00\x80"), ("nul", b"\x00"), ("nul-mid", b'{"a":\x00 1}'), ("dup-keys", b'{"a": 1, "a": 2}'), ("trailing-comma", b'{"a": 1,}'), ("single-quotes", b"{'a': 1}"),
        ("unterminated", b'{"a": "x'), ("bad-escape", b'{"a": "\\q"}'), ("lone-surrogate", b'{"a": "\\ud800"}'), ("huge-int", b'{"a": ' + b"9" * 5000 + b"}"),
        ("deep-list", b"[" * 100000), ("deep-list-closed", b"[" * 5000 + b"]" * 5000), ("deep-dict", b'{"a":' * 5000 + b"1" + b"}" * 5000), ("long-string", b'"' + b"x" * 200000 + b'"'),
        ("comment", b'// c\n{"a": 1}'), ("two-values", b"{} {}"), ("html", b"<html><body>404</body></html>"), ("binary-png", b"\x89PNG\r\n\x1a\n\x00\x00\x00\rIHDR"),
    ]
    for lab, b in fixed:
        out.append((f"json:{lab}", b, ".json"))
        out.append((f"yaml:{lab}", b, ".yaml"))
    yaml_only = [
        ("date", b"2020-01-01"), ("datetime", b"2020-01-01T10:00:00Z"), ("binary", b"!!binary aGk="), ("set", b"!!set {a, b}"), ("omap", b"!!omap [a: 1]"), ("python-tag", b"!!python/object/apply:os.system ['true']"),
        ("anchor-cycle-list", b"&a [*a]"), ("anchor-cycle-map", b"&a {x: *a}"), ("complex-key", b"? [1, 2]\n: x"), ("int-keys", b"1: x\n2: y"), ("null-key", b"~: x"), ("dup-keys", b"a: 1\na: 2"),
        ("multi-doc", b"---\na: 1\n---\nb: 2"), ("tab-indent", b"a:\n\t- 1"), ("bad-indent", b"a:\n  b: 1\n c: 2"), ("undefined-alias", b"a: *nope"), ("merge-key", b"a: &x {k: 1}\nb: {<<: *x}"),
        ("billion-laughs", b"a: &a [x,x,x,x,x,x,x,x]\nb: &b [*a,*a,*a,*a,*a,*a,*a,*a]\nc: &c [*b,*b,*b,*b,*b,*b,*b,*b]\nd: &d [*c,*c,*c,*c,*c,*c,*c,*c]\ne: [*d,*d,*d,*d,*d,*d,*d,*d]"),
        ("deep-flow", b"[" * 20000 + b"]" * 20000), ("deep-block", b"".join(b" " * i + b"a:\n" for i in range(3000))), ("directive", b"%YAML 9.9\n---\na: 1"), ("tag-unknown", b"!foo bar"),
        ("octal-bool", b"openapi: 3.1.0\ninfo: {title: yes, version: 010}\npaths: {}"), ("version-float", b"openapi: 3.1\ninfo: {title: t, version: 1}\npaths: {}"),
        ("paths-null", b"openapi: 3.1.0\ninfo: {title: t, version: '1'}\npaths: ~"), ("cyclic-valid", b"&a {openapi: '3.1.0', info: {title: t, version: '1'}, paths: {}, x-self: *a}"),
        ("cyclic-schema", b"openapi: '3.1.0'\ninfo: {title: t, version: '1'}\npaths: {}\ncomponents:\n  schemas:\n    A: &s\n      type: object\n      properties:\n        me: *s\n"),
        ("cyclic-paths", b"openapi: '3.1.0'\ninfo: {title: t, version: '1'}\npaths: &p\n  /a: *p\n"),
        ("crlf", b"openapi: 3.1.0\r\ninfo:\r\n  title: t\r\n  version: '1'\r\npaths: {}\r\n"), ("cr-only", b"a: 1\rb: 2"), ("nel", "a: 1\u0085b: 2".encode()), ("ctrl", b"a: \x07"),
    ]
    for lab, b in yaml_only:
        out.append((f"yaml:{lab}", b, rng.choice([".yaml", ".yml", "", ".txt"])))
    # derived from valid texts: truncations, byte flips, deletions, insertions, case / quote damage
    for vt in valid_texts:
        vb = vt.encode()
        for _ in range(6):
            k = rng.randrange(1, len(vb))
            out.append(("json:truncated", vb[:k], ".json"))
            out.append(("yaml:truncated", vb[:k], ".yaml"))
        for _ in range(10):
            b = bytearray(vb)
            for _ in range(rng.choice([1, 1, 2, 5])):
                i = rng.randrange(len(b))
                c = rng.choice(["flip", "del", "ins", "struct"])
                if c == "flip":
                    b[i] = rng.randrange(256)
                elif c == "del":
                    del b[i:i + rng.choice([1, 1, 3, 20])]
                elif c == "ins":
                    b[i:i] = rng.choice([b"{", b"}", b"[", b"]", b",", b":", b'"', b"\\", b"\n", b"null", b"\x00", b"\xff", b"&a ", b"*a ", b"!!", b"- ", b"? "])
                else:
                    j = rng.randrange(len(b))
                    b[i], b[j] = b[j], b[i]
            suf = rng.choice([".json", ".yaml"])
            out.append((f"{suf[1:]}:bytes-mutated", bytes(b), suf))
    # purely random bytes / printable noise
    for _ in range(12):
        n = rng.choice([1, 2, 8, 64, 512])
        out.append(("json:random-bytes", bytes(rng.randrange(256) for _ in range(n)), ".json"))
        out.append(("yaml:random-bytes", bytes(rng.randrange(256) for _ in range(n)), ".yaml"))
        alphabet = "{}[]:,\"'-?&*!|>%@`#\n \tabc019.~"
        out.append(("yaml:random-punct", "".join(rng.choice(alphabet) for _ in range(n)).encode(), ".yaml"))
        out.append(("json:random-punct", "".join(rng.choice(alphabet) for _ in range(n)).encode(), ".json"))
    return out


def random_json_value(rng, depth=3):
    r = rng.random()
    if depth <= 0 or r < 0.35:
        return rng.choice([None, True, False, 0, 1, -5, 2.5, "", "a", "openapi", "3.1.0", "swagger", "paths", "$ref"])
    if r < 0.6:
        return [random_json_value(rng, depth - 1) for _ in range(rng.randint(0, 3))]
    keys = ["openapi", "info", "paths", "components", "schemas", "title", "version", "swagger", "$ref", "type", "properties", "a", "", "x-ext", "get", "/p", "responses", "200"]
    return {rng.choice(keys): random_json_value(rng, depth - 1) for _ in range(rng.randint(0, 4))}


def non_openapi_docs(rng, n):
    out = []
    for _ in range(n):
        v = random_json_value(rng, rng.choice([1, 2, 3, 4]))
        out.append((f"value:{type(v).__name__}", v))
    # near misses: the three required keys with junk below
    for _ in range(n):
        d = {"openapi": rng.choice(["3.0.0", "3.1.0", "3.0", "3", 3.1, "v3", "", None]), "info": random_json_value(rng, 2), "paths": random_json_value(rng, 3)}
        if rng.random() < 0.5:
            d["info"] = {"title": rng.choice(["t", "", None, 5, "class", "é", "a" * 300]), "version": rng.choice(["1", 1, None, "", "1\n2"])}
        if rng.random() < 0.5:
            d["components"] = random_json_value(rng, 3)
        out.append(("near-miss", d))
    return out


# ------------------------------------------------------------------ class-name collisions across kinds
def collision_docs():
    """Documents in which two schemas of possibly different KINDS derive the same generated class name (all classes share one
    table, Schemas.classes_by_name).  Every one must end in diagnostics, never in an exception.  list of (label, document)."""
    R = REF
    o = lambda **p: {"type": "object", "properties": p}
    enum = lambda *v: {"type": "string", "enum": list(v)}
    ienum = lambda *v: {"type": "integer", "enum": list(v)}

    def doc(schemas, paths=None, params=None, version="3.1.0"):
        comps = {"schemas": schemas}
        if params:
            comps["parameters"] = params
        return {"openapi": version, "info": {"title": "t", "version": "1"}, "paths": paths or {}, "components": comps}

    def rev(d):
        return {k: d[k] for k in reversed(list(d))}
    kinds = {
        "model": lambda: o(x={"type": "string"}),
        "model2": lambda: o(y={"type": "integer"}),
        "enum": lambda: enum("a", "b"),
        "enum-same": lambda: enum("a", "b"),
        "enum-other": lambda: enum("c"),
        "int-enum": lambda: ienum(1, 2),
        "union": lambda: {"anyOf": [{"type": "string"}, {"type": "integer"}]},
        "array": lambda: {"type": "array", "items": {"type": "string"}},
        "scalar": lambda: {"type": "string"},
        "allof": lambda: {"allOf": [{"$ref": R + "Base"}, o(z={"type": "string"})]},
    }
    out = []
    # 1. component FooBar (kind A) vs inline property Foo.bar (kind B), both declaration orders
    inline_kinds = ["model", "enum", "int-enum", "enum-other"]
    for a in ["model", "enum", "enum-same", "int-enum", "union", "array", "allof"]:
        for b in inline_kinds:
            S = {"Base": o(id={"type": "integer"}), "FooBar": kinds[a](), "Foo": o(bar=kinds[b](), other={"type": "string"})}
            out.append((f"collide:component-{a}:inline-{b}", doc(S)))
            out.append((f"collide:inline-{b}:component-{a}", doc(rev(S))))
    # 2. inline vs inline: Foo.bar_baz and FooBar.baz both derive FooBarBaz
    for a in inline_kinds:
        for b in inline_kinds:
            S = {"Foo": o(bar_baz=kinds[a]()), "FooBar": o(baz=kinds[b]())}
            out.append((f"collide:inline-{a}:inline-{b}", doc(S)))
    # 3. component vs component whose names differ only in what pascal_case removes
    for a in ["model", "enum", "int-enum"]:
        for b in ["model", "enum", "enum-other"]:
            S = {"foo_bar": kinds[a](), "FooBar": kinds[b](), "User": o(p={"$ref": R + "foo_bar"}, q={"$ref": R + "FooBar"})}
            out.append((f"collide:component-{a}:component-{b}", doc(S)))
    # 4. array items / union members / additionalProperties positions minting the colliding name
    for b in inline_kinds:
        out.append((f"collide:component-model:items-{b}", doc({"FooBarItem": kinds["model"](), "Foo": o(bar={"type": "array", "items": kinds[b]()})})))
        out.append((f"collide:items-{b}:component-model", doc(rev({"FooBarItem": kinds["model"](), "Foo": o(bar={"type": "array", "items": kinds[b]()})}))))
        out.append((f"collide:component-enum:items-{b}", doc({"FooBarItem": kinds["enum"](), "Foo": o(bar={"type": "array", "items": kinds[b]()})})))
        out.append((f"collide:component-model:union-member-{b}", doc({"FooBarType0": kinds["model"](), "FooBarType1": kinds["enum"](),
                                                                     "Foo": o(bar={"anyOf": [kinds[b](), kinds["model2"]() if b != "model" else kinds["enum"]()]})})))
        out.append((f"collide:component-model:addl-{b}", doc({"FooAdditionalProperty": kinds["model"](), "Foo": {"type": "object", "additionalProperties": kinds[b]()}})))
    # 5. parameters and bodies / responses: operation getFoo with query parameter bar mints GetFooBar; JSON body mints GetFooBody...
    def op(param_schema, extra=None):
        d = {"operationId": "getFoo", "parameters": [{"name": "bar", "in": "query", "schema": param_schema}], "responses": {"200": {"description": "ok"}}}
        d.update(extra or {})
        return {"/foo": {"post": d}}
    for a in ["model", "enum", "enum-same", "int-enum"]:
        for b in ["enum", "int-enum", "enum-other", "model"]:
            out.append((f"collide:component-{a}:param-{b}", doc({"GetFooBar": kinds[a]()}, op(kinds[b]()))))
        out.append((f"collide:component-{a}:body-inline", doc({"GetFooBody": kinds[a]()}, op({"type": "string"}, {"requestBody": {"content": {"application/json": {"schema": o(v=kinds["enum"]())}}}}))))
        out.append((f"collide:component-{a}:response-inline", doc({"GetFooResponse200": kinds[a]()}, op({"type": "string"}, {"responses": {"200": {"description": "ok", "content": {"application/json": {"schema": o(v=kinds["enum"]())}}}}}))))
        out.append((f"collide:component-{a}:component-param-enum", doc({"BarParam": kinds[a](), "Bar": kinds[a]()}, op({"type": "string"}), params={"Bar": {"name": "bar", "in": "query", "schema": enum("p", "q")}})))
    # 6. title-driven names: an inline schema's title names another component
    for a in ["model", "enum"]:
        for b in ["model", "enum", "enum-other"]:
            inner = kinds[b]()
            inner["title"] = "Target"
            out.append((f"collide:component-{a}:titled-{b}", doc({"Target": kinds[a](), "Holder": o(t=inner)})))
            out.append((f"collide:titled-{b}:component-{a}", doc(rev({"Target": kinds[a](), "Holder": o(t=inner)}))))
    return out


def collide_mutation(doc, rng):
    """add to a valid document a component whose class name collides with an inline class of another kind (or vice versa)"""
    d = copy.deepcopy(doc)
    schemas = ((d.get("components") or {}).get("schemas")) if isinstance(d.get("components"), dict) else None
    if not isinstance(schemas, dict) or not schemas:
        return "noop", d
    cands = []
    for n, s_ in schemas.items():
        if isinstance(s_, dict) and isinstance(s_.get("properties"), dict):
            for pn in s_["properties"]:
                cands.append((n, pn))
    if not cands:
        return "noop", d
    n, pn = rng.choice(cands)
    kind_inline = rng.choice(["enum", "model", "int-enum"])
    kind_comp = rng.choice(["model", "enum", "union"])
    mk = {"enum": {"type": "string", "enum": ["k1", "k2"]}, "int-enum": {"type": "integer", "enum": [7, 8]},
          "model": {"type": "object", "properties": {"kx": {"type": "string"}}}, "union": {"anyOf": [{"type": "string"}, {"type": "integer"}]}}
    schemas[n]["properties"][pn] = copy.deepcopy(mk[kind_inline])
    comp_name = rng.choice([f"{n}_{pn}", f"{n} {pn}", f"{n}{pn[:1].upper()}{pn[1:]}"])
    new = {comp_name: copy.deepcopy(mk[kind_comp])}
    if rng.random() < 0.5:
        schemas.update(new)
    else:
        d["components"]["schemas"] = {**new, **schemas}
    return f"collide:{kind_comp}-vs-inline-{kind_inline}", d


# ------------------------------------------------------------------ failing schemas whose error value has NO detail text
DETAILLESS = {   # label -> schema that fails with a header-only error (detail=None): `Unsupported enum type <class ...>`
    "float-enum": {"enum": [0.5, 1.5]},
    "bool-enum": {"enum": [True, False]},
    "typed-float-enum": {"type": "number", "enum": [0.5, 1.5]},
    "list-enum": {"enum": [[1], [2]]},
    "dict-enum": {"enum": [{"a": 1}]},
}
OTHER_FAILING = {  # failing schemas WITH a detail text, for the mixed combinations
    "dangling-ref": {"$ref": "#/components/schemas/DoesNotExist"},
    "mixed-enum": {"enum": ["a", 1]},
}


def detailless_docs():
    """Documents that plant a schema failing with a detail-less error at every position whose error is later formatted into
    another diagnostic (request body: sole / every media type / inline property / array items / next to an unsupported media
    type; response; operation and path-item parameter; component parameter; component property; allOf member; union member;
    additionalProperties; array items of a component).  Every one must end in diagnostics.  list of (label, document)."""
    out = []
    o = lambda **p: {"type": "object", "properties": p}
    ok = {"200": {"description": "ok"}}

    def doc(paths=None, schemas=None, params=None, bodies=None, responses=None):
        comps = {}
        for k, v in (("schemas", schemas), ("parameters", params), ("requestBodies", bodies), ("responses", responses)):
            if v:
                comps[k] = v
        d = {"openapi": "3.1.0", "info": {"title": "t", "version": "1"}, "paths": paths or {}}
        if comps:
            d["components"] = comps
        return d
    bad_all = {**DETAILLESS, **OTHER_FAILING}
    for lab, bad in bad_all.items():
        content = lambda sch, mt="application/json": {mt: {"schema": sch}}
        post = lambda rb, extra=None: {"/ratio": {"post": {"operationId": "postRatio", "requestBody": rb, "responses": ok, **(extra or {})}}}
        # --- request bodies
        out.append((f"detailless:{lab}:body-sole-json", doc(post({"content": content(bad)}))))
        out.append((f"detailless:{lab}:body-sole-form", doc(post({"content": content(bad, "application/x-www-form-urlencoded")}))))
        out.append((f"detailless:{lab}:body-sole-multipart", doc(post({"content": content(bad, "multipart/form-data")}))))
        out.append((f"detailless:{lab}:body-inline-property", doc(post({"content": content(o(ratio=bad, name={"type": "string"}))}))))
        out.append((f"detailless:{lab}:body-array-items", doc(post({"content": content({"type": "array", "items": bad})}))))
        out.append((f"detailless:{lab}:body-json+xml", doc(post({"content": {**content(bad), "application/xml": {"schema": {"type": "string"}}}}))))
        out.append((f"detailless:{lab}:body-all-bad", doc(post({"content": {**content(bad), **content(DETAILLESS["bool-enum"], "application/x-www-form-urlencoded"),
                                                                           **content({"type": "array", "items": bad}, "multipart/form-data")}}))))
        out.append((f"detailless:{lab}:body-one-good", doc(post({"content": {**content(bad), **content(o(a={"type": "string"}), "multipart/form-data")}}))))
        out.append((f"detailless:{lab}:body-component-ref", doc(post({"$ref": "#/components/requestBodies/B"}), bodies={"B": {"content": content(bad)}})))
        out.append((f"detailless:{lab}:body-schema-ref", doc(post({"content": content({"$ref": "#/components/schemas/Bad"})}), schemas={"Bad": bad})))
        # --- responses
        resp = lambda r: {"/ratio": {"get": {"operationId": "getRatio", "responses": r}}}
        out.append((f"detailless:{lab}:response", doc(resp({"200": {"description": "ok", "content": content(bad)}}))))
        out.append((f"detailless:{lab}:response-only-of-two", doc(resp({"200": {"description": "ok", "content": content(bad)}, "404": {"description": "nf", "content": content(o(m={"type": "string"}))}}))))
        out.append((f"detailless:{lab}:response-items", doc(resp({"200": {"description": "ok", "content": content({"type": "array", "items": bad})}}))))
        out.append((f"detailless:{lab}:response-component", doc(resp({"200": {"$ref": "#/components/responses/R"}}), responses={"R": {"description": "r", "content": content(bad)}})))
        # --- parameters
        for loc in ("query", "header", "cookie", "path"):
            path = "/ratio/{p}" if loc == "path" else "/ratio"
            par = {"name": "p", "in": loc, "required": loc == "path", "schema": bad}
            out.append((f"detailless:{lab}:param-{loc}", doc({path: {"get": {"operationId": "getRatio", "parameters": [par], "responses": ok}}})))
            out.append((f"detailless:{lab}:pathitem-param-{loc}", doc({path: {"parameters": [par], "get": {"operationId": "getRatio", "responses": ok}}})))
        out.append((f"detailless:{lab}:param-component", doc({"/ratio": {"get": {"parameters": [{"$ref": "#/components/parameters/P"}], "responses": ok}}},
                                                                params={"P": {"name": "p", "in": "query", "schema": bad}})))
        out.append((f"detailless:{lab}:param-array-items", doc({"/ratio": {"get": {"parameters": [{"name": "p", "in": "query", "schema": {"type": "array", "items": bad}}], "responses": ok}}})))
        out.append((f"detailless:{lab}:param-content", doc({"/ratio": {"get": {"parameters": [{"name": "p", "in": "query", "content": content(bad)}], "responses": ok}}})))
        # --- component schemas
        user = {"/u": {"get": {"operationId": "getU", "responses": {"200": {"description": "ok", "content": content({"$ref": "#/components/schemas/Holder"})}}}}}
        out.append((f"detailless:{lab}:component", doc(user, schemas={"Holder": bad})))
        out.append((f"detailless:{lab}:component-property", doc(user, schemas={"Holder": o(ratio=bad, fine={"type": "string"}), "Uses": o(h={"$ref": "#/components/schemas/Holder"})})))
        out.append((f"detailless:{lab}:component-deep-property", doc(user, schemas={"Holder": o(inner=o(deeper=o(ratio=bad)))})))
        out.append((f"detailless:{lab}:allof-member", doc(user, schemas={"Base": o(id={"type": "integer"}), "Holder": {"allOf": [{"$ref": "#/components/schemas/Base"}, bad]}})))
        out.append((f"detailless:{lab}:allof-member-property", doc(user, schemas={"Base": o(id={"type": "integer"}), "Holder": {"allOf": [{"$ref": "#/components/schemas/Base"}, o(ratio=bad)]}})))
        out.append((f"detailless:{lab}:allof-parent", doc(user, schemas={"Base": o(ratio=bad), "Holder": {"allOf": [{"$ref": "#/components/schemas/Base"}, o(x={"type": "string"})]}})))
        out.append((f"detailless:{lab}:union-member", doc(user, schemas={"Holder": o(u={"anyOf": [bad, {"type": "string"}]})})))
        out.append((f"detailless:{lab}:component-union", doc(user, schemas={"Holder": {"oneOf": [{"type": "integer"}, bad]}})))
        out.append((f"detailless:{lab}:additional-properties", doc(user, schemas={"Holder": {"type": "object", "additionalProperties": bad}})))
        out.append((f"detailless:{lab}:component-array-items", doc(user, schemas={"Holder": {"type": "array", "items": bad}})))
        out.append((f"detailless:{lab}:component-list-property", doc(user, schemas={"Holder": o(ratios={"type": "array", "items": bad})})))
        out.append((f"detailless:{lab}:ref-chain", doc(user, schemas={"Bad": bad, "Mid": {"type": "array", "items": {"$ref": "#/components/schemas/Bad"}}, "Holder": o(m={"$ref": "#/components/schemas/Mid"})})))
    return out
