"""Operation-level document generators for C03 / C04 / C10 / C18: atlas (deterministic small scope) and random operations,
plus argument-value generators. Values are small tagged tuples that can be turned into runner markers and Coq pv terms:
 ("j", json) | ("date", iso) | ("datetime", iso) | ("uuid", s) | ("enum", ClassName, value) | ("unset",) | ("model", ClassName, json)
 | ("list", [values])"""
from __future__ import annotations
import itertools, random
from gen.schemas import REF, obj, arr, any_of, NULL

COMPONENT_SCHEMAS = {
    "Item": obj({"id": {"type": "integer"}, "tag": {"type": "string"}, "when": {"type": "string", "format": "date"}}, required=["id"]),
    "Other": obj({"name": {"type": "string"}}, required=["name"]),
    "Color": {"type": "string", "enum": ["red", "green", "dark blue"]},
    "Level": {"type": "integer", "enum": [1, 2, 30]},
}

PARAM_KINDS = {
    "str": {"type": "string"}, "int": {"type": "integer"}, "float": {"type": "number"}, "bool": {"type": "boolean"},
    "date": {"type": "string", "format": "date"}, "datetime": {"type": "string", "format": "date-time"}, "uuid": {"type": "string", "format": "uuid"},
    "enumstr": {"$ref": REF + "Color"}, "enumint": {"$ref": REF + "Level"},
    "liststr": arr({"type": "string"}), "listenum": arr({"$ref": REF + "Color"}), "listdate": arr({"type": "string", "format": "date"}),
    "nullstr": any_of({"type": "string"}, NULL), "nullint": {"type": ["integer", "null"]}, "model": {"$ref": REF + "Item"},
    "unionintstr": any_of({"type": "integer"}, {"type": "string"}),
    # parameters whose model / enum classes reach the endpoint module only through a list or union (their imports are 'lazy' ones)
    "listmodel": arr({"$ref": REF + "Item"}), "unionmodel": {"oneOf": [{"$ref": REF + "Other"}, {"type": "string"}]}, "unionenum": any_of({"$ref": REF + "Level"}, {"type": "string"}),
}
OK200 = {"200": {"description": "ok"}}


def doc(paths, schemas=None, extra=None, version="3.1.0"):
    d = {"openapi": version, "info": {"title": "t", "version": "1"}, "paths": paths, "components": {"schemas": dict(COMPONENT_SCHEMAS, **(schemas or {}))}}
    if extra:
        for k, v in extra.items():
            if k == "components":
                d["components"].update(v)
            else:
                d[k] = v
    return d


def P(name, loc, schema, required=None):
    p = {"name": name, "in": loc, "schema": schema}
    if required is not None:
        p["required"] = required
    if loc == "path":
        p["required"] = True
    return p


def op(oid, params=None, body=None, responses=None, tags=None, security=None):
    o = {"operationId": oid, "responses": responses or OK200}
    if params:
        o["parameters"] = params
    if body is not None:
        o["requestBody"] = body
    if tags:
        o["tags"] = tags
    if security is not None:
        o["security"] = security
    return o


def atlas_param_docs():
    """one operation per (location, kind): a required and an optional parameter whose names need pythonisation"""
    docs = []
    for loc in ("query", "header", "cookie"):
        paths = {}
        for kn, sch in PARAM_KINDS.items():
            paths[f"/{loc}/{kn}"] = {"get": op(f"{loc}_{kn}", [P("r-Val", loc, sch, True), P("o_val", loc, sch, False), P("X-Plain", loc, {"type": "string"}, False)])}
        # optional declared BEFORE required, with nothing else in the signature (keyword-only marker / ordering)
        paths[f"/{loc}/order"] = {"get": op(f"{loc}_order", [P("o1", loc, {"type": "string"}, False), P("r1", loc, {"type": "integer"}, True)])}
        paths[f"/{loc}/order/{{pid}}"] = {"get": op(f"{loc}_order_path", [P("pid", "path", {"type": "string", "default": "dflt"}), P("r2", loc, {"type": "string"}, True),
                                                                       P("o2", loc, {"type": "string", "default": "z"}, False)])}
        paths[f"/{loc}/single"] = {"get": op(f"{loc}_single_optional", [P("only", loc, {"type": "string"}, False)])}
        docs.append((f"params_{loc}", doc(paths)))
    return docs


def atlas_path_docs():
    paths = {
        "/a/{p-id}/b/{sid}": {"get": op("two_params", [P("sid", "path", {"type": "string"}), P("p-id", "path", {"type": "integer"})])},
        "/x/{X}/{y}/{Zed}": {"put": op("three_params", [P("Zed", "path", {"$ref": REF + "Color"}), P("X", "path", {"type": "string", "format": "uuid"}),
                                                          P("y", "path", {"type": "string", "format": "date"})])},
        "/same/{id}": {"get": op("same_name", [P("id", "path", {"type": "integer"}), P("id", "query", {"type": "string"}, False), P("id", "header", {"type": "string"}, False)]),
                       "delete": op("del_it", [P("id", "path", {"type": "string"})])},
        "/item/{item_id}/sub/{subId}": {
            "parameters": [P("item_id", "path", {"type": "integer"}), P("subId", "path", {"type": "string"}), P("verbose", "query", {"type": "boolean"}, False),
                           P("limit", "query", {"type": "integer"}, False)],
            "get": op("path_item_level"),
            "post": op("path_item_override", [P("limit", "query", {"type": "string"}, True), P("subId", "path", {"$ref": REF + "Level"})]),
            "patch": op("patch_it"), "head": op("head_it"), "options": op("options_it"), "trace": op("trace_it"),
        },
        "/shared/{sid}": {
            "parameters": [P("sid", "path", {"type": "string"}), P("version", "header", {"type": "string"}, True), P("trace", "header", {"type": "string"}, False),
                           P("page", "query", {"type": "integer"}, False), P("page", "cookie", {"type": "string"}, False)],
            "get": op("shared_diff_location", [P("version", "query", {"type": "string"}, True), P("trace", "cookie", {"type": "string"}, False)]),
            "put": op("shared_same_location", [P("version", "header", {"type": "integer"}, False), P("page", "query", {"type": "string"}, True)]),
            "post": op("shared_untouched"),
        },
        # path-item-level parameters whose INLINE schema creates a class (enum / object): the class must reach models/
        "/reports/{report-id}": {
            "parameters": [P("report-id", "path", {"type": "string"}), P("format", "query", {"type": "string", "enum": ["csv", "json"]}, False),
                           P("X-Level", "header", {"type": "integer", "enum": [1, 2, 3]}, False)],
            "get": op("get_report"), "delete": op("delete_report", [P("force", "query", {"type": "boolean"}, False)]),
        },
        "/refd/{itemId}": {
            "parameters": [{"$ref": "#/components/parameters/XTraceId"}],
            "get": op("ref_params", [P("itemId", "path", {"type": "integer"}), {"$ref": "#/components/parameters/PageSize"}, {"$ref": "#/components/parameters/SessionId"}]),
            "delete": op("ref_params_item_only", [P("itemId", "path", {"type": "integer"})]),
        },
        "/users/{user-id}/user-id-aliases/{alias}": {"get": op("literal_contains_name", [P("alias", "path", {"type": "string"}), P("user-id", "path", {"type": "integer"})])},
        "/v/{v}/v-items/{v-item}/v": {"delete": op("literal_contains_name2", [P("v-item", "path", {"type": "string"}), P("v", "path", {"type": "integer"})])},
        "/reserved/{client}": {"get": op("reserved_names", [P("client", "path", {"type": "string"}), P("url", "query", {"type": "string"}, False)])},
        "/noparams": {"get": op("no_params"), "post": op("no_params_post")},
        # operations WITHOUT an operationId: the function / module name is derived from method + path
        "/anon/{thing-id}/items/": {"get": {"responses": OK200, "parameters": [P("thing-id", "path", {"type": "integer"}), P("q", "query", {"type": "string"}, False)]},
                                    "delete": {"responses": {"204": {"description": "gone"}}, "parameters": [P("thing-id", "path", {"type": "integer"})]}},
        "/": {"get": {"responses": OK200}},
        "/secure": {"get": op("secure_op", [P("q", "query", {"type": "string"}, False)], security=[{"key": []}])},
        "/literal/{a}/{{x}}": {"get": op("literal_braces", [P("a", "path", {"type": "string"})])} if False else {"get": op("plain2")},
    }
    extra = {"components": {"securitySchemes": {"key": {"type": "apiKey", "in": "header", "name": "X-Key"}},
                            # component keys deliberately differ from the declared (wire) names
                            "parameters": {"PageSize": P("page_size", "query", {"type": "integer"}, False), "XTraceId": P("X-Trace-Id", "header", {"type": "string"}, True),
                                           "SessionId": P("session_id", "cookie", {"type": "string"}, False)}}}
    return [("paths", doc(paths, extra=extra))]


def atlas_body_docs():
    J = lambda s: {"content": {"application/json": {"schema": s}}, "required": True}
    paths = {
        "/json/model": {"post": op("json_model", body=J({"$ref": REF + "Item"}))},
        "/json/list": {"post": op("json_list", body=J(arr({"$ref": REF + "Item"})))},
        "/json/str": {"post": op("json_str", body=J({"type": "string"}))},
        "/json/dates": {"post": op("json_dates", body=J(arr({"type": "string", "format": "date"})))},
        "/json/inline": {"post": op("json_inline", body=J(obj({"n": {"type": "integer"}, "c": {"$ref": REF + "Color"}}, required=["n"])))},
        "/json/suffix": {"post": op("json_suffix", body={"content": {"application/vnd.api+json": {"schema": {"$ref": REF + "Item"}}}})},
        "/form/model": {"post": op("form_model", body={"content": {"application/x-www-form-urlencoded": {"schema": {"$ref": REF + "Other"}}}})},
        "/multi/two": {"post": op("two_media", body={"content": {"application/json": {"schema": {"$ref": REF + "Item"}},
                                                                  "application/x-www-form-urlencoded": {"schema": {"$ref": REF + "Other"}}}},
                                  params=[P("q", "query", {"type": "string"}, False), P("X-H", "header", {"type": "string"}, False)])},
        "/multi/same": {"post": op("same_schema_two_media", body={"content": {"application/json": {"schema": {"$ref": REF + "Other"}},
                                                                                "application/x-www-form-urlencoded": {"schema": {"$ref": REF + "Other"}}}})},
        "/multi/twojson": {"patch": op("two_json_kinds", body={"content": {"application/json": {"schema": {"$ref": REF + "Item"}},
                                                                            "application/merge-patch+json": {"schema": {"$ref": REF + "Other"}}}})},
        "/multipart/model": {"post": op("multipart_model", body={"content": {"multipart/form-data": {"schema": {"$ref": REF + "Upload"}}}})},
        "/multipart/nullfirst": {"post": op("multipart_null_first", body={"content": {"multipart/form-data": {"schema": {"$ref": REF + "NullFirst"}}}})},
        "/multipart/files": {"post": op("multipart_file_list", body={"content": {"multipart/form-data": {"schema": {"$ref": REF + "UploadMany"}}}})},
        "/octet/raw": {"post": op("octet_raw", body={"content": {"application/octet-stream": {"schema": {"type": "string", "format": "binary"}}}})},
        "/byref/json": {"post": op("body_by_ref", body={"$ref": "#/components/requestBodies/ItemBody"})},
        "/byref/chain": {"put": op("body_by_ref_chain", body={"$ref": "#/components/requestBodies/Alias"})},
        "/mixed/unsupported": {"post": op("mixed_unsupported", body={"content": {"application/xml": {"schema": {"type": "string"}}, "application/json": {"schema": {"$ref": REF + "Item"}},
                                                                                 "text/plain": {"schema": {"type": "string"}}, "application/vnd.x+json": {}}})},
        "/json/spaced": {"post": op("json_spaced_param", body={"content": {"application/json ; charset=utf-8": {"schema": {"$ref": REF + "Item"}}}})},
        "/json/charset": {"post": op("json_charset", body={"content": {"application/json; charset=utf-8": {"schema": {"$ref": REF + "Item"}}}})},
    }
    upload = obj({"title": {"type": "string"}, "count": {"type": "integer"}, "flag": {"type": "boolean"}, "when": {"type": "string", "format": "date"},
                  "kind": {"$ref": REF + "Color"}, "tags": arr({"type": "string"}), "meta": {"$ref": REF + "Other"}, "ratio": {"type": "number"},
                  "ref_or_text": {"oneOf": [{"type": "integer"}, {"type": "string"}]}, "maybe_note": any_of({"type": "string"}, NULL),
                  "stamp": {"type": "string", "format": "date-time"}, "uid": {"type": "string", "format": "uuid"}, "lvl": any_of({"$ref": REF + "Level"}, NULL),
                  "attachment": {"type": "string", "format": "binary"}, "form_kind": {"const": "upload"}, "form_version": {"const": 7}},
                 required=["title", "count"])
    nullfirst = obj({"a": {"anyOf": [NULL, {"type": "string"}]}, "b": any_of({"type": "string"}, NULL)}, required=["a", "b"])
    extra = {"components": {"requestBodies": {"ItemBody": {"content": {"application/json": {"schema": {"$ref": REF + "Item"}}}, "required": True},
                                               "Alias": {"$ref": "#/components/requestBodies/ItemBody"}}}}
    upload_many = obj({"label": {"type": "string"}, "scans": arr({"type": "string", "format": "binary"})}, required=["label"])
    return [("bodies", doc(paths, schemas={"Upload": upload, "NullFirst": nullfirst, "UploadMany": upload_many}, extra=extra))]


def atlas_response_docs():
    Jc = lambda s: {"description": "d", "content": {"application/json": {"schema": s}}}
    paths = {
        "/r/many": {"get": op("many_statuses", responses={
            "200": Jc({"$ref": REF + "Item"}), "201": Jc(arr({"$ref": REF + "Item"})), "202": {"description": "t", "content": {"text/plain": {"schema": {"type": "string"}}}},
            "203": {"description": "b", "content": {"application/octet-stream": {"schema": {"type": "string", "format": "binary"}}}}, "204": {"description": "none"},
            "400": Jc({"$ref": REF + "Color"}), "404": {"description": "p", "content": {"application/problem+json": {"schema": {"$ref": REF + "Other"}}}},
            "409": Jc(any_of({"$ref": REF + "Item"}, {"$ref": REF + "Other"})), "410": Jc({"type": "integer"}), "418": Jc({"type": "string", "format": "date"}),
            "422": Jc(any_of({"type": "string", "format": "date"}, NULL))})},
        "/r/ref": {"get": op("ref_responses", responses={"200": {"$ref": "#/components/responses/Ok"}, "404": {"$ref": "#/components/responses/Missing"}})},
        "/r/catchall_first": {"get": op("catchall_first", responses={"default": {"description": "any"}, "200": Jc({"$ref": REF + "Item"}), "404": Jc({"$ref": REF + "Other"})})},
        "/r/range_middle": {"get": op("range_middle", responses={"200": Jc(arr({"type": "string"})), "4XX": {"description": "client error"}, "404": Jc({"$ref": REF + "Other"}), "2XX": {"description": "ok"}, "201": {"description": "t", "content": {"text/plain": {"schema": {"type": "string"}}}}})},
        "/r/none": {"get": op("no_content_only", responses={"204": {"description": "none"}, "202": {"description": "accepted"}})},
        "/r/emptycontent": {"put": op("empty_content_map", responses={"200": Jc({"$ref": REF + "Item"}), "204": {"description": "none", "content": {}},
                                                                       "205": {"description": "no schema", "content": {"application/json": {}}}})},
        "/r/textfirst": {"get": op("text_before_json", responses={"200": {"description": "x", "content": {"text/csv": {"schema": {"type": "string"}},
                                                                                                        "application/json": {"schema": {"$ref": REF + "Other"}}}}})},
        "/r/anyonly": {"get": op("any_only", responses={"200": Jc({})})},
        "/r/mixedany": {"get": op("mixed_any", responses={"200": Jc({}), "404": Jc({"$ref": REF + "Other"})})},
        "/r/texthtml": {"get": op("text_html", responses={"200": {"description": "h", "content": {"text/html": {"schema": {"type": "string"}}}}})},
        "/r/firstsupported": {"get": op("first_supported", responses={"200": {"description": "x", "content": {"application/xml": {"schema": {"type": "string"}},
                                                                                                              "application/json": {"schema": {"$ref": REF + "Other"}}}}})},
        # legal spellings of a media type (RFC 9110: optional white space around ';', parameters)
        "/r/spellings": {"get": op("media_type_spellings", responses={"200": {"description": "d", "content": {"application/json ; charset=utf-8": {"schema": {"$ref": REF + "Item"}}}},
                                                                    "201": {"description": "d", "content": {"application/json;charset=utf-8": {"schema": {"$ref": REF + "Other"}}}},
                                                                    "202": {"description": "d", "content": {"text/plain ;charset=iso-8859-1": {"schema": {"type": "string"}}}},
                                                                    "203": {"description": "d", "content": {"application/problem+json; profile=x": {"schema": {"$ref": REF + "Other"}}}}})},
        # one component response with an INLINE object schema shared by two operations at the same status
        "/r/shared/pet": {"get": op("shared_pet", responses={"200": Jc({"$ref": REF + "Item"}), "404": {"$ref": "#/components/responses/NotFound"}})},
        "/r/shared/owner": {"get": op("shared_owner", responses={"200": Jc({"$ref": REF + "Other"}), "404": {"$ref": "#/components/responses/NotFound"}})},
        # unions whose scalar member precedes / follows a model member
        "/r/union/scalarfirst": {"get": op("union_scalar_first", responses={"200": Jc({"oneOf": [{"type": "string"}, {"$ref": REF + "Item"}]}), "201": Jc({"oneOf": [{"type": "integer"}, {"$ref": REF + "Other"}]})})},
        "/r/union/modelfirst": {"get": op("union_model_first", responses={"200": Jc({"oneOf": [{"$ref": REF + "Item"}, {"type": "string"}]})})},
        "/r/enumlist": {"get": op("enum_list", responses={"200": Jc(arr({"$ref": REF + "Level"})), "500": Jc(obj({"msg": {"type": "string"}}))})},
    }
    extra = {"components": {"responses": {"Ok": Jc({"$ref": REF + "Item"}), "Missing": {"description": "m", "content": {"text/plain": {"schema": {"type": "string"}}}},
                                          "NotFound": Jc(obj({"message": {"type": "string"}, "code": {"type": "integer"}}, required=["message"]))}}}
    return [("responses", doc(paths, extra=extra))]


OVERRIDES = {"application/x-yaml": "text/yaml", "application/zip": "application/octet-stream", "application/hal": "application/json",
             "application/x-ndjson": "application/json", "application/x-form": "application/x-www-form-urlencoded", "text/x-weird": "application/json"}


def atlas_override_docs():
    """[(label, doc, cfg)]: media types that become supported (or change their meaning) only through the content_type_overrides option"""
    R = lambda ct, s: {"description": "d", "content": {ct: {"schema": s}}}
    paths = {
        "/ov/yaml": {"get": op("ov_yaml", responses={"200": R("application/x-yaml", {"type": "string"}), "404": {"description": "n"}})},
        "/ov/zip": {"get": op("ov_zip", responses={"200": R("application/zip", {"type": "string", "format": "binary"})})},
        "/ov/hal": {"get": op("ov_hal", responses={"200": R("application/hal", {"$ref": REF + "Item"}), "404": R("application/json", {"$ref": REF + "Other"})})},
        "/ov/weird": {"get": op("ov_text_becomes_json", responses={"200": R("text/x-weird", {"$ref": REF + "Other"})})},
        "/ov/notlisted": {"get": op("ov_not_listed", responses={"200": R("application/x-other", {"type": "string"}), "201": R("application/json", {"$ref": REF + "Item"})})},
        "/ov/body/ndjson": {"post": op("ov_body_ndjson", body={"content": {"application/x-ndjson": {"schema": {"$ref": REF + "Item"}}}, "required": True})},
        "/ov/body/form": {"post": op("ov_body_form", body={"content": {"application/x-form": {"schema": {"$ref": REF + "Other"}}}, "required": True})},
    }
    return [("overrides", doc(paths), {"content_type_overrides": dict(OVERRIDES)})]


def path_defaults_doc():
    """path parameters are positional: every arrangement of schema defaults over two / three path parameters (a default BEFORE a
    parameter without one was a SyntaxError before repair b9d7aba: fixed finding path_default_before_required), with and without
    keyword parameters behind them"""
    paths = {}
    S, D = {"type": "string"}, {"type": "string", "default": "dflt"}
    for i, flags in enumerate([(0, 0), (0, 1), (1, 1), (1, 0), (0, 1, 1), (0, 1, 0), (1, 0, 1)]):
        seg = "".join("/{p%d}/s%d" % (j, j) for j in range(len(flags)))
        ps = [P("p%d" % j, "path", D if f else S) for j, f in enumerate(flags)]
        paths[f"/pd{i}{seg}"] = {"get": op(f"pd{i}_bare", list(ps)), "post": op(f"pd{i}_kw", ps + [P("q", "query", S, False), P("r", "query", S, True)]),
                                 # the request body as the ONLY argument behind the path parameters (the keyword-only marker must still be there)
                                 "put": op(f"pd{i}_body_only", list(ps), body={"content": {"application/json": {"schema": {"$ref": REF + "Item"}}}, "required": True})}
    paths["/api/{api-version}/widgets/{widget_id}"] = {"get": op("renamed_default_first", [P("api-version", "path", {"type": "string", "default": "v1"}), P("widget_id", "path", {"type": "integer"}),
                                                                                             P("verbose", "query", {"type": "boolean"}, False)])}
    return doc(paths)


def atlas_docs():
    return [("path_defaults", path_defaults_doc())] + atlas_param_docs() + atlas_path_docs() + atlas_body_docs() + atlas_response_docs()


# ------------------------------------------------------------------ random operations
NAMES = ["id", "user-id", "userId", "X-Token", "q", "from", "class", "page_size", "Page", "a.b", "é", "type", "filter[x]", "sort by", "v1", "_private"]


def random_doc(rng: random.Random, n_ops=6):
    paths = {}
    for i in range(n_ops):
        npath = rng.randint(0, 3)
        pnames = rng.sample([n for n in NAMES if "[" not in n and " " not in n], npath)
        path = "/" + "/".join([f"r{i}"] + [rng.choice(["seg", "v"]) + "/{" + n + "}" for n in pnames])
        params = [P(n, "path", rng.choice([PARAM_KINDS[k] for k in ("str", "int", "uuid", "enumstr", "date")])) for n in pnames]
        rng.shuffle(params)
        for loc in ("query", "header", "cookie"):
            for n in rng.sample(NAMES, rng.randint(0, 2)):
                kinds = ["str", "int", "float", "bool", "enumstr", "enumint", "nullstr", "uuid", "date"] + (["liststr", "listenum", "model", "unionintstr"] if loc == "query" else [])
                params.append(P(n, loc, PARAM_KINDS[rng.choice(kinds)], rng.random() < 0.4))
        body = None
        r = rng.random()
        if r < 0.3:
            body = {"content": {"application/json": {"schema": rng.choice([{"$ref": REF + "Item"}, arr({"$ref": REF + "Other"}), {"type": "string"}])}}}
        elif r < 0.4:
            body = {"content": {"application/x-www-form-urlencoded": {"schema": {"$ref": REF + "Other"}}}}
        codes = rng.sample(["200", "201", "204", "400", "404", "500"], rng.randint(1, 3))
        responses = {}
        for c in codes:
            rr = rng.random()
            if rr < 0.5:
                responses[c] = {"description": "d", "content": {"application/json": {"schema": rng.choice([{"$ref": REF + "Item"}, arr({"$ref": REF + "Other"}), {"$ref": REF + "Color"}, {"type": "integer"}])}}}
            elif rr < 0.7:
                responses[c] = {"description": "d", "content": {"text/plain": {"schema": {"type": "string"}}}}
            else:
                responses[c] = {"description": "d"}
        method = rng.choice(["get", "post", "put", "delete", "patch"])
        item = paths.setdefault(path, {})
        item[method] = op(f"op {i} {method}", params, body, responses, tags=[rng.choice(["alpha", "beta"])])
        if rng.random() < 0.5:
            # path-item level parameters: some share a name (same or different location) with operation-level ones
            shared = []
            pool = [p for p in params if p["in"] != "path"]
            for _ in range(rng.randint(1, 3)):
                if pool and rng.random() < 0.6:
                    q = rng.choice(pool)
                    loc = rng.choice(["query", "header", "cookie"])
                    shared.append(P(q["name"], loc, PARAM_KINDS[rng.choice(["str", "int", "enumstr"])], rng.random() < 0.5))
                else:
                    shared.append(P(rng.choice(NAMES), rng.choice(["query", "header", "cookie"]), PARAM_KINDS["str"], rng.random() < 0.5))
            seen = set()
            item["parameters"] = [x for x in shared if (x["name"], x["in"]) not in seen and not seen.add((x["name"], x["in"]))]
    return doc(paths)


# ------------------------------------------------------------------ argument values per abstracted kind (lib.absprop kind tuples)
def values_for(kind, rng, abs_=None):
    t = kind[0]
    if t == "str":
        return [("j", "hello"), ("j", ""), ("j", "a b/c?d=e&f#g"), ("j", "é中")]
    if t == "int":
        return [("j", 0), ("j", 7), ("j", -3)]
    if t == "float":
        return [("j", 1.5), ("j", 3), ("j", -0.25)]
    if t == "bool":
        return [("j", True), ("j", False)]
    if t == "date":
        return [("date", "2020-01-31")]
    if t == "datetime":
        return [("datetime", "2020-01-31T10:20:30"), ("datetime", "2021-06-30T23:59:59+00:00")]
    if t == "uuid":
        return [("uuid", "12345678-1234-5678-1234-567812345678")]
    if t == "enum":
        return [("enum", kind[1], v) for v in kind[3][:2]]
    if t == "litenum":
        return [("j", v) for v in kind[2][:2]]
    if t == "none":
        return [("j", None)]
    if t == "any":
        return [("j", "x"), ("j", 5), ("j", None)]
    if t == "const":
        return [("j", kind[1])]
    if t == "list":
        inner = values_for(kind[1], rng, abs_)
        return [("list", []), ("list", inner[:2]), ("list", inner[:1])]
    if t == "union":
        out = []
        for m in kind[1]:
            out += values_for(m, rng, abs_)[:2]
        return out
    if t == "model":
        if abs_ is None:
            return []
        from gen.schemas import Inst
        inst = Inst(abs_, rng)
        return [("model", kind[1], inst.model_instance(kind[1], 0, True)) for _ in range(2)]
    if t == "file":
        return [("file", "00ff10626c6f62")]
    return []


def to_marker(v):
    t = v[0]
    if t == "j":
        return {"@f": repr(v[1])} if isinstance(v[1], float) else v[1]
    if t == "unset":
        return {"@unset": True}
    if t in ("date", "datetime", "uuid"):
        return {"@" + t: v[1]}
    if t == "enum":
        return {"@enum": [v[1], v[2]]}
    if t == "model":
        from lib.absprop import to_runner_json
        return {"@model": [v[1], to_runner_json(v[2])] + ([v[3]] if len(v) > 3 else [])}
    if t == "list":
        return {"@list": [to_marker(x) for x in v[1]]}
    if t == "file":
        return {"@file": v[1]}
    raise ValueError(v)


def to_cpv(v, ab, oname="O0", tname="T0"):
    """Coq pv term of an argument value (model values are obtained through the proved-correspondent decoder)"""
    from lib.absprop import cjson
    from lib.common import cstr
    t = v[0]
    if t == "j":
        return f"(PJ {cjson(v[1])})"
    if t == "unset":
        return "PUnset"
    if t == "date":
        return f"(PDate {cstr(v[1])})"
    if t == "datetime":
        return f"(PDateTime {cstr(v[1])})"
    if t == "uuid":
        return f"(PUuid {cstr(v[1])})"
    if t == "enum":
        return f"(PEnum {ab.cls_id[v[1]]}%N {cjson(v[2])})"
    if t == "model":
        return f"(match dec {oname} {tname} 40 (KModel {ab.cls_id[v[1]]}%N) {cjson(v[2])} with Some x => x | None => PUnset end)"
    if t == "list":
        items = [to_cpv(x, ab, oname, tname) for x in v[1]]
        return "(PList [" + "; ".join(items) + "])"
    if t == "file":
        return "(PJ (JStr " + cstr(bytes.fromhex(v[1]).decode("latin-1")) + "))"
    raise ValueError(v)
