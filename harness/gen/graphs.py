"""Schema-graph generators for the graph properties (C08 C07): graph SPEC -> OpenAPI document.

A spec is a list of nodes in document order; node = {"type": obj|arr|uni|wrap|enum|refnode, "edges": [(kind, target)], "fail": None|"first"|"last",
"title": optional}.  target is an index into the list, None (dangling: a name that is not declared) or "remote".
Edge kinds by source type:
  obj : prop | addl | allof | parr (array-of-ref property) | puni (anyOf[ref,string] property) | pinl (inline object property holding
        the ref) | pwrap (single-ref allOf property) | penum (inline enum, no target)
  arr : item | iinl (items = inline object holding the ref)
  uni : member | minl (member = inline object holding the ref)
  wrap: wrapper
`fail` inserts the intrinsically invalid piece `{"type": "array"}` (no items): obj -> a property (first / last), arr -> the array itself
(edges dropped), uni -> an extra member (first / last), enum -> mixed-type values.
exhaustive(n, kinds) enumerates the family used by stage B; random_spec(rng, n) draws richer graphs (several edges per node, inline
variants, enums, Reference components, dangling/remote references, class-name pressure, several failures)."""
from __future__ import annotations
import itertools, random

REF = "#/components/schemas/"
BAD = {"type": "array"}
OBJ_KINDS_FULL = ["prop", "addl", "allof", "parr", "puni"]
OBJ_KINDS_SMALL = ["prop", "allof"]


def name_of(i):
    return f"N{i}"


def _ref(t, names):
    if t is None:
        return {"$ref": REF + "Missing"}
    if t == "remote":
        return {"$ref": "other.yaml#/components/schemas/Far"}
    if isinstance(t, tuple) and t[0] == "relfile":      # a relative FILE reference whose fragment names an existing local component
        return {"$ref": ("common.json", "./shared/defs.yaml", "../x/y.json")[t[1] % 3] + REF + names[t[1] % len(names)]}
    if isinstance(t, tuple) and t[0] == "host":
        return {"$ref": "//example.com/defs.json" + REF + names[t[1] % len(names)]}
    return {"$ref": REF + names[t]}


def node_schema(node, names, idx=0):
    t = node["type"]
    edges = node.get("edges", [])
    fail = node.get("fail")
    if t == "obj":
        props, parents, addl = {}, [], None
        for k, (kind, tgt) in enumerate(edges):
            r = _ref(tgt, names)
            if kind == "prop":
                props[f"n{idx}p{k}"] = r
            elif kind == "parr":
                props[f"n{idx}p{k}"] = {"type": "array", "items": r}
            elif kind == "puni":
                props[f"n{idx}p{k}"] = {"anyOf": [r, {"type": "string"}]}
            elif kind == "pinl":
                props[f"n{idx}p{k}"] = {"type": "object", "properties": {"q": r}}
            elif kind == "pwrap":
                props[f"n{idx}p{k}"] = {"allOf": [r]}
            elif kind == "penum":
                props[f"n{idx}p{k}"] = {"type": "string", "enum": ["u", "v"]}
            elif kind == "addl":
                addl = r
            elif kind == "allof":
                parents.append(r)
            else:
                raise ValueError(kind)
        if fail == "first":
            props = {"a_bad": dict(BAD), **props}
        elif fail == "last":
            props["z_bad"] = dict(BAD)
        body = {"type": "object", "properties": props}
        if addl is not None:
            body["additionalProperties"] = addl
        if node.get("title"):
            body["title"] = node["title"]
        return {"allOf": parents + [body]} if parents else body
    if t == "arr":
        if fail or not edges:
            return dict(BAD) if fail else {"type": "array", "items": {"type": "string"}}
        kind, tgt = edges[0]
        r = _ref(tgt, names)
        return {"type": "array", "items": r if kind == "item" else {"type": "object", "properties": {"q": r}}}
    if t == "uni":
        ms = []
        for kind, tgt in edges:
            r = _ref(tgt, names)
            ms.append(r if kind == "member" else {"type": "object", "properties": {"q": r}})
        ms.append({"type": "string"})
        if not edges:
            ms.append({"type": "integer"})
        if fail == "first":
            ms.insert(0, dict(BAD))
        elif fail == "last":
            ms.append(dict(BAD))
        return {node.get("kw", "anyOf"): ms}
    if t == "wrap":
        kind, tgt = edges[0]
        return {node.get("kw", "allOf"): [_ref(tgt, names)]}
    if t == "enum":
        return {"type": "string", "enum": [1, "a"] if fail else list(node.get("values", ["x", "y"]))}
    if t == "refnode":
        return _ref(edges[0][1], names)
    raise ValueError(t)


def doc_of(spec, names=None, version="3.1.0"):
    names = names or [name_of(i) for i in range(len(spec))]
    schemas = {names[i]: node_schema(n, names, i) for i, n in enumerate(spec)}
    return {"openapi": version, "info": {"title": "t", "version": "1"}, "paths": {}, "components": {"schemas": schemas}}


# ------------------------------------------------------------------ exhaustive family
def node_options(n, obj_kinds):
    """every (type, edges) a node of an n-node graph can have in the exhaustive family (at most one outgoing edge)"""
    opts = [("obj", [])]
    for k in obj_kinds:
        for t in range(n):
            opts.append(("obj", [(k, t)]))
    for t in range(n):
        opts.append(("arr", [("item", t)]))
        opts.append(("uni", [("member", t)]))
        opts.append(("wrap", [("wrapper", t)]))
    return opts


def family_size(n, obj_kinds):
    return (len(node_options(n, obj_kinds)) ** n) * (2 * n + 1)


def family_spec(n, obj_kinds, index):
    """the index-th member: node options in mixed radix, then the failure position (none, or node i failing first/last)"""
    opts = node_options(n, obj_kinds)
    k = len(opts)
    fpos = index % (2 * n + 1)
    index //= (2 * n + 1)
    spec = []
    for _ in range(n):
        ty, edges = opts[index % k]
        index //= k
        spec.append({"type": ty, "edges": list(edges), "fail": None})
    if fpos:
        i, which = (fpos - 1) // 2, ("first", "last")[(fpos - 1) % 2]
        if spec[i]["type"] == "wrap":
            return None          # a wrapper has no intrinsic failure of its own
        if spec[i]["type"] == "arr" and which == "last":
            return None          # one way only for an array to fail
        spec[i]["fail"] = which
    return spec


# ------------------------------------------------------------------ random graphs
def random_spec(rng: random.Random, n: int, p_fail=0.15, cyclic=True):
    spec = []
    for i in range(n):
        r = rng.random()
        ty = "obj" if r < 0.5 else "arr" if r < 0.62 else "uni" if r < 0.76 else "wrap" if r < 0.86 else "enum" if r < 0.95 else "refnode"
        def target():
            x = rng.random()
            if x < 0.04:
                return None
            if x < 0.06:
                return "remote"
            if x < 0.09:
                return ("relfile", rng.randrange(n))
            if x < 0.10:
                return ("host", rng.randrange(n))
            if not cyclic and i > 0:
                return rng.randrange(i)
            return rng.randrange(n)
        node = {"type": ty, "edges": [], "fail": None}
        if ty == "obj":
            used_addl = False
            for _ in range(rng.choice([0, 1, 1, 2, 2, 3, 4])):
                k = rng.choice(["prop", "prop", "addl", "allof", "parr", "puni", "pinl", "pwrap", "penum"])
                if k == "addl":
                    if used_addl:
                        continue
                    used_addl = True
                node["edges"].append((k, target() if k != "penum" else None))
            if rng.random() < 0.08:
                node["title"] = rng.choice(["Shared", name_of(rng.randrange(n)), "N0N0p0"])     # class-name pressure
        elif ty == "arr":
            node["edges"] = [(rng.choice(["item", "item", "iinl"]), target())]
        elif ty == "uni":
            node["edges"] = [(rng.choice(["member", "member", "minl"]), target()) for _ in range(rng.choice([1, 1, 2]))]
            node["kw"] = rng.choice(["anyOf", "oneOf"])
        elif ty == "wrap":
            node["edges"] = [("wrapper", target())]
            node["kw"] = rng.choice(["allOf", "anyOf", "oneOf"])
        elif ty == "enum":
            node["values"] = rng.choice([["x", "y"], ["x", "y"], ["p", "q", "r"]])
        else:
            node["edges"] = [("refnode", target())]
        if rng.random() < p_fail and ty in ("obj", "arr", "uni", "enum"):
            node["fail"] = rng.choice(["first", "last"])
        spec.append(node)
    return spec


def add_name_clashes(rng, spec, names):
    """class-name coincidences between an ENUM and a MODEL, in both directions and both declaration orders, inline vs component:
    component <X>N<i>p<k> (object or enum) next to component X whose property n<i>p<k> is an inline enum / inline object"""
    cands = [(i, k, kind) for i, nd in enumerate(spec) if nd["type"] == "obj" for k, (kind, _) in enumerate(nd["edges"]) if kind in ("penum", "pinl")]
    if not cands:
        return spec, names
    i, k, kind = rng.choice(cands)
    twin = f"{names[i]}N{i}p{k}"
    if twin in names:
        return spec, names
    node = {"type": rng.choice(["obj", "enum", "enum"]) if kind == "pinl" else rng.choice(["obj", "obj", "enum"]), "edges": [], "fail": None}
    if node["type"] == "enum":
        node["values"] = rng.choice([["u", "v"], ["p", "q", "r"]])      # equal to / different from the inline enum's values
    pos = rng.choice([0, len(spec)])
    if pos == 0:
        # indices shift by one: edges and the generated property names (n<i>p<k>) follow the index, so re-target and rename
        spec = [node] + [{**nd, "edges": [(kd, (t + 1 if isinstance(t, int) else t)) for kd, t in nd["edges"]]} for nd in spec]
        names = [f"{names[i]}N{i + 1}p{k}"] + names
    else:
        spec = spec + [node]
        names = names + [twin]
    return spec, names


def prefix_names(rng, spec, names):
    """rename the targets of some edges so that the DEPENDANT's name is a proper prefix of its target's name (N3 -> N3Item): the
    dependant's reference path is then a substring of the target's"""
    names = list(names)
    edges = [(i, t) for i, nd in enumerate(spec) for _, t in nd.get("edges", []) if isinstance(t, int) and t != i and t < len(names)]
    rng.shuffle(edges)
    done = set()
    for i, t in edges[:3]:
        if t in done or i in done:
            continue
        cand = names[i] + rng.choice(["Item", "x", "2"])
        if cand not in names:
            names[t] = cand
            done.add(t)
    return names


def random_names(rng, n):
    """mostly N<i>; sometimes two names whose class names coincide (n0 / N0) or that collide with a minted inline class name"""
    names = [name_of(i) for i in range(n)]
    if n >= 2 and rng.random() < 0.1:
        i, j = rng.sample(range(n), 2)
        names[j] = names[i].lower() if names[i].lower() not in names else names[j]
    if n >= 2 and rng.random() < 0.1:
        i, j = rng.sample(range(n), 2)
        cand = f"{names[i]}N{i}p0"
        if cand not in names:
            names[j] = cand
    return names
