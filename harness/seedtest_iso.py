#!/venv/bin/python
"""Run checks against a seeded change WITHOUT touching /repo: isolated copies of /repo and /verif under /tmp.
usage: seedtest_iso.py <patch.diff> <ID> [<ID>...] [--tier quick|thorough]   -> prints one line per check: ID exit-code last-lines"""
import os, subprocess, sys, shutil, tempfile, uuid
args = [a for a in sys.argv[1:] if not a.startswith("--")]
tier = "thorough" if "--tier=thorough" in sys.argv or "thorough" in sys.argv[1:] and "--tier" in sys.argv else "quick"
patch, ids = os.path.abspath(args[0]), [a for a in args[1:] if a not in ("quick", "thorough")]
tag = uuid.uuid4().hex[:8]
r, v = f"/tmp/seed_r_{tag}", f"/tmp/seed_v_{tag}"
try:
    subprocess.run(["rsync", "-a", "--exclude", ".git", "/repo/", r + "/"], check=True)
    subprocess.run(["rsync", "-a", "--exclude", ".git", "--exclude", "replays", "/verif/", v + "/"], check=True)
    subprocess.run(["git", "init", "-q"], cwd=r, check=True)
    ap = subprocess.run(["git", "apply", "--whitespace=nowarn", patch], cwd=r, capture_output=True, text=True)
    if ap.returncode != 0:
        ap = subprocess.run(["patch", "-p1", "-i", patch], cwd=r, capture_output=True, text=True)
        if ap.returncode != 0:
            print("PATCH DOES NOT APPLY:", ap.stdout[-500:], ap.stderr[-500:]); sys.exit(2)
    for pid in ids:
        env = dict(os.environ, OPC_REPO=r, VERIF_SEED=os.environ.get("VERIF_SEED", "0"))
        p = subprocess.run(["/venv/bin/python", f"{v}/harness/check.py", pid, "--tier", tier], capture_output=True, text=True, env=env, timeout=3600)
        lines = [l for l in (p.stdout + p.stderr).splitlines() if l.startswith(("VIOLATION", "OK ", "KNOWN-FINDING", "   {"))]
        viol = [l for l in lines if l.startswith("VIOLATION")]
        print(f"=== {pid} exit={p.returncode} {'CAUGHT' if viol else 'missed'}")
        for l in lines[-6:]:
            print("   ", l[:700])
finally:
    shutil.rmtree(r, ignore_errors=True); shutil.rmtree(v, ignore_errors=True)
