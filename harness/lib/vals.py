"""Shared by C13/C14: JSON value <-> Coq jval printers, ckind of a real property object, oracle tables for Values.oracles,
building real property objects through property_from_data."""
from __future__ import annotations
import math
from lib.common import cstr, cZ, cbool, copt, clist


def is_jsonable_str(s: str) -> bool:
    return not any(0xD800 <= ord(c) <= 0xDFFF for c in s)


def cfl(f: float) -> str:
    fin = math.isfinite(f)
    fi = int(f) if fin and f == int(f) else None
    return "{| f_tok := %s; f_int := %s; f_finite := %s |}" % (cstr(str(f)), copt(fi, cZ), cbool(fin))


def cjval(v) -> str:
    if v is None:
        return "JNull"
    if isinstance(v, bool):
        return f"(JBool {cbool(v)})"
    if isinstance(v, int):
        return f"(JInt {cZ(v)})"
    if isinstance(v, float):
        return f"(JFloat {cfl(v)})"
    if isinstance(v, str):
        return f"(JStr {cstr(v)})"
    return f"(JOther {cstr(str(v))})"


def cevalue(v) -> str:
    if isinstance(v, bool):
        raise TypeError("bool is not an enum value")
    if isinstance(v, int):
        return f"(EInt {cZ(v)})"
    if isinstance(v, str):
        return f"(EStr {cstr(v)})"
    raise TypeError(repr(v))


def cvtype(t) -> str:
    return "VInt" if t is int else "VStr"


def cmembers(values: dict) -> str:
    return clist([f"({cstr(k)}, {cevalue(v)})" for k, v in values.items()], "(str * evalue)")


def ckind_of(prop) -> str:
    """The model's ckind for a real property object (derived from the object, so union member order is the real one)."""
    n = type(prop).__name__
    simple = {"AnyProperty": "CAny", "NoneProperty": "CNone", "BooleanProperty": "CBool", "IntProperty": "CInt", "FloatProperty": "CFloat",
              "StringProperty": "CStr", "DateProperty": "CDate", "DateTimeProperty": "CDateTime", "UuidProperty": "CUuid", "FileProperty": "CFile",
              "ListProperty": "CList", "ModelProperty": "CModel"}
    if n in simple:
        return simple[n]
    if n == "ConstProperty":
        return f"(CConst {cjval(prop.value.raw_value)})"
    if n == "EnumProperty":
        return f"(CEnum {cvtype(prop.value_type)} {cstr(prop.class_info.name)} {cmembers(prop.values)})"
    if n == "LiteralEnumProperty":
        vals = sorted(prop.values, key=lambda x: (str(type(x)), x))
        return f"(CLitEnum {cvtype(prop.value_type)} {clist([cevalue(v) for v in vals], 'evalue')})"
    if n == "UnionProperty":
        return f"(CUnion {clist([ckind_of(p) for p in prop.inner_properties], 'ckind')})"
    raise TypeError(n)


# ---------------------------------------------------------------- oracles
def oracle_rows(strings, ints):
    """Evaluate the real float()/isoparse/UUID on the strings (and float() on the ints) occurring in a run.
    Returns (coq definition text of `O : oracles`, dict of python-side facts, list of anomalies)."""
    from dateutil.parser import isoparse
    from uuid import UUID
    pf, iso, uu, anomalies = [], [], [], []
    facts = {"float": {}, "iso": {}, "uuid": {}, "float_of_int": {}}
    for s in sorted(set(strings)):
        try:
            f = float(s)
            pf.append(f"({cstr(s)}, {cfl(f)})")
            facts["float"][s] = f
        except ValueError:
            facts["float"][s] = None
        try:
            isoparse(s)
            iso.append(cstr(s))
            facts["iso"][s] = True
        except ValueError:
            facts["iso"][s] = False
        except Exception as e:  # noqa
            facts["iso"][s] = False
            anomalies.append(("isoparse", s, repr(e)))
        try:
            UUID(s)
            uu.append(cstr(s))
            facts["uuid"][s] = True
        except ValueError:
            facts["uuid"][s] = False
        except Exception as e:  # noqa
            facts["uuid"][s] = False
            anomalies.append(("UUID", s, repr(e)))
    fi = []
    for z in sorted(set(ints)):
        try:
            f = float(z)
            fi.append(f"({cZ(z)}, {cfl(f)})")
            facts["float_of_int"][z] = f
        except OverflowError:
            facts["float_of_int"][z] = None
    txt = (
        "Definition __pf : list (str * fl) := %s.\n" % clist(pf, "(str * fl)")
        + "Definition __fi : list (Z * fl) := %s.\n" % clist(fi, "(Z * fl)")
        + "Definition __iso : list str := %s.\n" % clist(iso, "str")
        + "Definition __uu : list str := %s.\n" % clist(uu, "str")
        + "Fixpoint __assoc (s : str) (l : list (str * fl)) : option fl := match l with [] => None | (k, v) :: r => if str_eqb s k then Some v else __assoc s r end.\n"
        + "Fixpoint __assocz (z : Z) (l : list (Z * fl)) : option fl := match l with [] => None | (k, v) :: r => if Z.eqb z k then Some v else __assocz z r end.\n"
        + "Definition O : oracles := {| parse_float := fun s => __assoc s __pf; float_of_int := fun z => __assocz z __fi;\n"
        + "  isoparse_ok := fun s => mem_str s __iso; uuid_ok := fun s => mem_str s __uu |}.\n"
    )
    return txt, facts, anomalies


RES_EQB = """Definition res_eqb (a b : result) : bool :=
  match a, b with
  | Ok None, Ok None => true
  | Ok (Some x), Ok (Some y) => value_eqb x y
  | Err, Err => true
  | Crash, Crash => true
  | _, _ => false
  end.
"""


def cresult(r) -> str:
    """Coq `result` literal for what the implementation returned: ('ok', Value|None) | ('err',) | ('crash', exc)."""
    if r[0] == "err":
        return "Err"
    if r[0] == "crash":
        return "Crash"
    v = r[1]
    if v is None:
        return "(Ok None)"
    return "(Ok (Some {| code := %s; raw := %s |}))" % (cstr(v[0]), cjval(v[1]))


def observe_convert(prop, v):
    from openapi_python_client.parser.errors import PropertyError
    try:
        r = prop.convert_value(v)
    except Exception as e:  # noqa
        return ("crash", type(e).__name__)
    if isinstance(r, PropertyError):
        return ("err",)
    if r is None:
        return ("ok", None)
    return ("ok", (r.python_code, r.raw_value))


# component schemas that ref-wrapper kinds point at (C13 route: a default declared NEXT TO a reference)
REF_COMPONENTS = {
    "RPriority": {"type": "integer", "enum": [0, 1, 2]},
    "RMode": {"type": "string", "enum": ["", "a", "b"]},
    "RFlag": {"type": "boolean"},
    "RName": {"type": "string"},
    "RNum": {"type": "number"},
    "RCnt": {"type": "integer"},
    "RDay": {"type": "string", "format": "date"},
}
_SCHEMAS = {}


def ref_schemas(cfg_kw=None):
    """(config, Schemas) with REF_COMPONENTS built by the real parser (cached per configuration)."""
    from openapi_python_client import schema as oai
    from openapi_python_client.parser.properties import Schemas, build_schemas
    from openapi_python_client.config import Config, ConfigFile, MetaType
    from pathlib import Path
    key = tuple(sorted((cfg_kw or {}).items()))
    if key not in _SCHEMAS:
        config = Config.from_sources(ConfigFile(post_hooks=[], **(cfg_kw or {})), MetaType.NONE, Path("/nonexistent/doc.json"), "utf-8", False, output_path=None)
        schemas = build_schemas(components={k: oai.Schema.model_validate(v) for k, v in REF_COMPONENTS.items()}, schemas=Schemas(), config=config)
        assert not schemas.errors, schemas.errors
        _SCHEMAS[key] = (config, schemas)
    return _SCHEMAS[key]


def build_prop(schema: dict, cfg_kw=None, name="x", parent="P", required=False):
    """property_from_data on a small schema (references to REF_COMPONENTS resolve); returns ('prop', obj) | ('err', PropertyError) | ('crash', exc name)."""
    from openapi_python_client import schema as oai
    from openapi_python_client.parser.properties import property_from_data
    from openapi_python_client.parser.errors import PropertyError
    import copy
    config, schemas = ref_schemas(cfg_kw)
    try:
        data = oai.Schema.model_validate(copy.deepcopy(schema))
    except Exception as e:  # noqa
        return ("invalid", type(e).__name__)
    try:
        p, _ = property_from_data(name=name, required=required, data=data, schemas=schemas, parent_name=parent, config=config)
    except Exception as e:  # noqa
        return ("crash", type(e).__name__)
    if isinstance(p, PropertyError):
        return ("err", p)
    return ("prop", p)
