"""Shared plumbing: Coq build / cases runner, evidence, replay files, known findings."""
from __future__ import annotations
import fcntl, hashlib, json, os, re, subprocess, sys, tempfile, time, shutil, random
from pathlib import Path

VERIF = Path(__file__).resolve().parents[2]   # /verif (or an isolated copy of it)
COQ = VERIF / "coq"
REPO = Path(os.environ.get("OPC_REPO", "/repo"))   # the tree under verification (OPC_REPO: scratch copy for mutation tests)
BUILD = VERIF / "build"
PY = "/venv/bin/python"

if str(REPO) not in sys.path:
    sys.path.insert(0, str(REPO))
os.environ.setdefault("PYTHONHASHSEED", "0")

# ---------------------------------------------------------------- Coq term printers
def cstr(s: str) -> str:
    return "[" + ";".join(str(ord(c)) for c in s) + "]%N" if s else "(@nil N)"

def clist(items, ty=None) -> str:
    items = list(items)
    if not items:
        return f"(@nil {ty})" if ty else "[]"
    return "[" + "; ".join(items) + "]"

def cbool(b) -> str:
    return "true" if b else "false"

def copt(x, f=lambda v: v) -> str:
    return "None" if x is None else f"(Some {f(x)})"

def cN(n: int) -> str:
    return f"{n}%N"

def cZ(n: int) -> str:
    return f"({n})%Z"

# ---------------------------------------------------------------- build
class BuildResult:
    def __init__(self, ok, log, failing_file=None, failing_line=None, failing_item=None, regen=None):
        self.ok, self.log, self.failing_file, self.failing_line, self.failing_item = ok, log, failing_file, failing_line, failing_item
        self.regen = regen or {}

def _lock():
    BUILD.mkdir(exist_ok=True)
    f = open(BUILD / ".lock", "w")
    fcntl.flock(f, fcntl.LOCK_EX)
    return f

def enclosing_item(vfile: Path, line: int):
    try:
        lines = vfile.read_text(encoding="utf-8").split("\n")
    except OSError:
        return None
    for i in range(min(line, len(lines)) - 1, -1, -1):
        m = re.match(r"\s*(Theorem|Lemma|Corollary|Example|Fact|Definition|Fixpoint)\s+([A-Za-z0-9_']+)", lines[i])
        if m:
            return m.group(2)
    return None

def regen_all():
    """Run every translator; returns {file: changed?}. Translators live in harness/translate and are fail-closed."""
    sys.path.insert(0, str(VERIF / "harness"))
    out = {}
    import importlib
    tdir = VERIF / "harness" / "translate"
    for p in sorted(tdir.glob("gen_*.py")):
        r = subprocess.run([PY, str(p)], capture_output=True, text=True, env={**os.environ, "PYTHONPATH": str(REPO), "PYTHONHASHSEED": "0"}, timeout=600)
        out[p.name] = (r.returncode, (r.stdout + r.stderr).strip()[-2000:])
    return out

def build(regen=True, timeout=1500) -> BuildResult:
    """Stage A: regenerate facts from /repo and rebuild the whole Coq development (full .vo build)."""
    lock = _lock()
    try:
        rg = regen_all() if regen else {}
        tfail = {k: msg for k, (rc, msg) in rg.items() if rc != 0}
        if not (COQ / "Makefile").exists() or (COQ / "Makefile").stat().st_mtime < (COQ / "_CoqProject").stat().st_mtime:
            subprocess.run(["coq_makefile", "-f", "_CoqProject", "-o", "Makefile"], cwd=COQ, capture_output=True, text=True, check=True)
        r = subprocess.run(["timeout", str(timeout), "make", "-k", "-j16"], cwd=COQ, capture_output=True, text=True)
        log = r.stdout + r.stderr
        if tfail:
            # a translator that fails leaves a STALE gen file behind: fail closed for every property whose cone contains it
            k = sorted(tfail)[0]
            gen = "gen/Gen" + k[len("gen_"):-len(".py")].capitalize() + ".v"
            br = BuildResult(False, f"translator {k} failed:\n{tfail[k]}\n" + log[-3000:], failing_file=gen, failing_item=f"translator:{k}", regen=rg)
            br.translator_failures = {"gen/Gen" + t[len("gen_"):-len(".py")].capitalize() + ".v": m for t, m in tfail.items()}
            return br
        if r.returncode == 0:
            return BuildResult(True, log, regen=rg)
        m = re.search(r'File "\./([^"]+)", line (\d+)', log)
        ff = fl = item = None
        if m:
            ff, fl = m.group(1), int(m.group(2))
            item = enclosing_item(COQ / ff, fl)
        return BuildResult(False, log[-6000:], ff, fl, item, regen=rg)
    finally:
        lock.close()

def count_items(vfile: Path) -> int:
    try:
        return len(re.findall(r"^\s*(?:Theorem|Lemma|Corollary|Example|Fact)\s", vfile.read_text(encoding="utf-8"), re.M))
    except OSError:
        return 0

def deps_of(vfile: str) -> list[str]:
    """Transitive OPC.* dependencies of a .v file (by Require lines)."""
    seen, todo = [], [vfile]
    while todo:
        f = todo.pop()
        if f in seen:
            continue
        seen.append(f)
        try:
            txt = (COQ / f).read_text(encoding="utf-8")
        except OSError:
            continue
        for m in re.finditer(r"OPC\.([A-Za-z0-9_]+(?:\.[A-Za-z0-9_]+)*)", txt):
            cand = m.group(1).replace(".", "/") + ".v"
            if (COQ / cand).exists():
                todo.append(cand)
    return seen

def prop_compile(pid: str, timeout=600):
    """Compile props/<pid>.v on its own (after build) to capture Print Assumptions output."""
    lock = _lock()
    try:
        r = subprocess.run(["timeout", str(timeout), "coqc", "-R", ".", "OPC", "-w", "-notation-overridden", f"props/{pid}.v"], cwd=COQ, capture_output=True, text=True)
    finally:
        lock.close()
    out = r.stdout + r.stderr
    closed = len(re.findall(r"Closed under the global context", out))
    axioms = []
    for blk in re.findall(r"Axioms:\n((?:.+\n?)+?)(?:\n|$)", out):
        for ln in blk.split("\n"):
            m = re.match(r"^([A-Za-z_][\w.']*)\s*:", ln)
            if m:
                axioms.append(m.group(1))
    txt = (COQ / "props" / f"{pid}.v").read_text(encoding="utf-8")
    theorems = re.findall(r"^\s*Theorem\s+([A-Za-z0-9_']+)", txt, re.M)
    return {"ok": r.returncode == 0, "out": out[-4000:], "closed": closed, "axioms": sorted(set(axioms)), "theorems": theorems}

def stage_a(pid: str):
    """Returns dict with ok, obligations, discharged, checker_cmd, axioms, failing (name or None), log."""
    t = time.time()
    b = build()
    deps = deps_of(f"props/{pid}.v")
    obligations = sum(count_items(COQ / d) for d in deps)
    res = {"ok": False, "obligations": obligations, "discharged": 0, "failing": None, "log": "", "axioms": [], "theorems": [],
           "checker_cmd": f"cd /verif/coq && make -j16 (coqc 8.16.1, full .vo build of {len(deps)} files in the cone of props/{pid}.v after regenerating coq/gen/*.v from /repo) && coqc -R . OPC props/{pid}.v",
           "deps": deps, "wall_s": 0.0}
    if not b.ok:
        tf = getattr(b, "translator_failures", None)
        if tf:
            hit = [g for g in tf if g in deps]
            in_cone = bool(hit)
            if hit:
                b.failing_file, b.failing_item = hit[0], "translator-failed (stale regenerated facts)"
        else:
            in_cone = b.failing_file in deps if b.failing_file else True
        res["log"] = b.log
        if in_cone:
            res["failing"] = f"{b.failing_file}:{b.failing_item}" if b.failing_file else "build"
            # count items before the failure point in that file as discharged, plus all files that did build
            res["discharged"] = 0
            res["wall_s"] = time.time() - t
            return res
        # failure outside this property's cone: compile the cone only
    pc = prop_compile(pid)
    res["theorems"] = pc["theorems"]
    res["axioms"] = pc["axioms"]
    if not pc["ok"]:
        res["failing"] = f"props/{pid}.v"
        res["log"] = pc["out"]
    else:
        res["ok"] = True
        res["discharged"] = obligations
    res["wall_s"] = time.time() - t
    return res

# ---------------------------------------------------------------- cases runner (model evaluated inside Coq by vm_compute)
_IDX = r"""
Definition __bad_idx (l : list bool) : list N :=
  (fix go (i : N) (l : list bool) : list N :=
     match l with [] => [] | b :: l' => if b then go (N.succ i) l' else i :: go (N.succ i) l' end) 0%N l.
"""

def run_cases(header: str, terms: list[str], shard: int = 400, jobs: int = 12, timeout: int = 900) -> list[int]:
    """Each term is a Coq expression of type bool; returns indices whose term evaluates to false.
    A shard that fails to compile raises RuntimeError (never silently passes)."""
    if not terms:
        return []
    tmp = Path(tempfile.mkdtemp(prefix="opc_cases_"))
    try:
        files = []
        for k in range(0, len(terms), shard):
            name = f"cases_{k // shard}"
            body = "From Coq Require Import NArith ZArith List Bool. Import ListNotations.\n" + header + "\n" + _IDX
            body += "Definition __cases : list bool := [\n" + ";\n".join(terms[k:k + shard]) + "\n].\n"
            body += "Eval vm_compute in (__bad_idx __cases).\n"
            (tmp / f"{name}.v").write_text(body, encoding="utf-8")
            files.append((k, name))
        procs = []
        bad = []
        def launch(k, name):
            return (k, name, subprocess.Popen(["timeout", str(timeout), "coqc", "-R", str(COQ), "OPC", "-w", "-notation-overridden", f"{name}.v"], cwd=tmp, stdout=subprocess.PIPE, stderr=subprocess.STDOUT, text=True))
        pending = list(files)
        running = []
        while pending or running:
            while pending and len(running) < jobs:
                running.append(launch(*pending.pop(0)))
            k, name, p = running.pop(0)
            out, _ = p.communicate()
            if p.returncode != 0:
                raise RuntimeError(f"cases shard {name} failed to evaluate:\n{out[-3000:]}")
            m = re.search(r"=\s*(\[.*?\]|nil)", out, re.S)
            if not m:
                raise RuntimeError(f"cannot parse Coq output: {out[-1000:]}")
            for d in re.findall(r"\d+", m.group(1)):
                bad.append(k + int(d))
        return sorted(bad)
    finally:
        shutil.rmtree(tmp, ignore_errors=True)

def coq_eval(header: str, term: str, timeout=120) -> str:
    tmp = Path(tempfile.mkdtemp(prefix="opc_eval_"))
    try:
        (tmp / "e.v").write_text("From Coq Require Import NArith ZArith List Bool. Import ListNotations.\n" + header + "\nEval vm_compute in (" + term + ").\n", encoding="utf-8")
        r = subprocess.run(["timeout", str(timeout), "coqc", "-R", str(COQ), "OPC", "-w", "-notation-overridden", "e.v"], cwd=tmp, capture_output=True, text=True)
        return (r.stdout + r.stderr).strip()
    finally:
        shutil.rmtree(tmp, ignore_errors=True)

def decode_coq_str(txt: str) -> str:
    """Best effort: turn '[97; 98]%N' found in Coq output into a Python string."""
    m = re.search(r"\[([0-9; \n]*)\]", txt)
    if not m:
        return ""
    return "".join(chr(int(x)) for x in re.findall(r"\d+", m.group(1)))

# ---------------------------------------------------------------- known findings / evidence / replay
def known_findings(pid: str):
    data = json.loads((VERIF / "known_findings.json").read_text())
    return [f for f in data["findings"] if pid in f["properties"]]

class Run:
    """Accumulates the result of one check run and writes evidence / replay / verdict lines."""
    def __init__(self, pid: str, tier: str, seed: int):
        self.pid, self.tier, self.seed = pid, tier, seed
        self.t0 = time.time()
        self.evals = 0
        self.distinct = set()
        self.samples = []
        self.hist = {}
        self.violations = []   # list of dicts (replay payloads)
        self.known_hits = {}   # finding id -> description
        self.known = {f["id"]: f for f in known_findings(pid) if f.get("status", "open") == "open"}
        self.stageA = None
        self.corr = {"cases": 0, "mismatches": 0}
        self.rule = ""
        self.assumptions = []
        self.extra = {}
        self.exhaustive = False
        self.rng = random.Random(seed)

    def note_case(self, case, nontrivial=True, kind=None):
        self.evals += 1
        if nontrivial:
            self.distinct.add(hashlib.sha1(json.dumps(case, sort_keys=True, default=str).encode()).hexdigest())
        if kind is not None:
            self.hist[kind] = self.hist.get(kind, 0) + 1
        if len(self.samples) < 6 and (self.evals in (1, 2, 3) or self.rng.random() < 0.01):
            self.samples.append(case)

    def known_finding(self, fid: str, what: str):
        """Report an observation that belongs to a listed open finding; returns False if not listed (caller must then report a violation)."""
        if fid in self.known:
            if fid not in self.known_hits:
                self.known_hits[fid] = what
            return True
        return False

    def violation(self, kind: str, payload: dict, no_input=False):
        self.violations.append({"kind": kind, "no_failing_input_found": no_input, **payload})

    def finish(self) -> int:
        wall = time.time() - self.t0
        (VERIF / "evidence").mkdir(exist_ok=True)
        (VERIF / "replays").mkdir(exist_ok=True)
        a = self.stageA or {"obligations": 0, "discharged": 0, "checker_cmd": "", "axioms": [], "theorems": []}
        tb = ["Coq 8.16.1 kernel + vm_compute (no native_compute)",
              "axioms reported by Print Assumptions for props/%s.v: %s" % (self.pid, ", ".join(a["axioms"]) if a["axioms"] else "none (Closed under the global context)"),
              "translators harness/translate/gen_*.py (regenerated facts)",
              "correspondence harness harness/props/%s.py (model evaluated by vm_compute inside coqc on the implementation's inputs/outputs)" % self.pid.lower(),
              "CPython 3.12 of /venv as semantics of str/re/tokenize/ast"] + self.assumptions
        cov = {
            "obligations": a["obligations"], "discharged": a["discharged"], "checker_cmd": a["checker_cmd"], "trusted_base": tb,
            "property_theorems": a["theorems"],
            "evaluations": self.evals, "distinct_nontrivial": len(self.distinct), "rule": self.rule,
            "samples": self.samples[:6] if self.samples else [{"note": "no sampled case"}],
            "input_histogram": self.hist, "correspondence": self.corr, "exhaustive": self.exhaustive,
            "known_findings_reproduced": sorted(self.known_hits), **self.extra,
        }
        ev = {"property_id": self.pid, "tier": self.tier, "seed": self.seed, "level": "proof", "coverage": cov,
              "assumptions": self.assumptions, "wall_s": round(wall, 2), "violations": len(self.violations)}
        (VERIF / "evidence" / f"{self.pid}.json").write_text(json.dumps(ev, indent=1, default=str, ensure_ascii=True))
        for fid, what in sorted(self.known_hits.items()):
            print(f"KNOWN-FINDING: property={self.pid} {fid}: {what}")
        if self.violations:
            rp = VERIF / "replays" / f"{self.pid}_{self.tier}_{self.seed}.json"
            rp.write_text(json.dumps({"property": self.pid, "violations": self.violations[:20]}, indent=1, default=str, ensure_ascii=True))
            noinput = all(v["no_failing_input_found"] for v in self.violations)
            print(f"VIOLATION property={self.pid} replay={rp}" + (" no-failing-input-found" if noinput else ""))
            for v in self.violations[:5]:
                print("  ", json.dumps(v, default=str, ensure_ascii=True)[:600])
            return 1
        print(f"OK property={self.pid} tier={self.tier} seed={self.seed} obligations={a['obligations']}/{a['discharged']} cases={self.evals} corr={self.corr} wall={wall:.1f}s")
        return 0
