"""Shared by C03 / C04 / C10 / C18: abstraction of the implementation's Endpoint objects into coq/Endpoint.v terms, argument
vectors, execution of the generated endpoint code (get_kwargs / call / parse ops of client_runner) and conversion of what
was observed into Coq terms. Trusted (listed in evidence); checked by the correspondence itself."""
from __future__ import annotations
import json, random, urllib.parse
from lib.common import cstr
from lib import impl, absprop
from gen import ops as OPS

BT = {"json": "BJson", "data": "BData", "files": "BFiles", "content": "BContent"}
SRC = {"response.json()": "SJson", "response.content": "SBytes", "response.text": "SText", "None": "SNone"}


def cparam(ab, p):
    return f"{{| pa_name := {cstr(p.name)}; pa_py := {cstr(str(p.python_name))}; pa_req := {'true' if p.required else 'false'}; pa_kind := {ab.ckind(ab.kind(p))} |}}"


def clist(xs):
    xs = list(xs)
    return "[" + "; ".join(xs) + "]" if xs else "[]"


def cendpoint(ab, ep):
    bodies = [f"{{| b_ctype := {cstr(b.content_type)}; b_type := {BT[str(b.body_type.value)]}; b_kind := {ab.ckind(ab.kind(b.prop))} |}}" for b in ep.bodies]
    resps = [f"{{| rs_status := ({int(r.status_code)})%Z; rs_kind := {ab.ckind(ab.kind(r.prop))}; rs_source := {SRC[r.source["attribute"] if isinstance(r.source, dict) else r.source.attribute]} |}}" for r in ep.responses]
    return ("{| ep_method := %s; ep_path := %s; ep_pathp := %s; ep_query := %s; ep_header := %s; ep_cookie := %s; ep_bodies := %s; ep_security := %s; ep_responses := %s |}" % (
        cstr(ep.method), cstr(ep.path), clist(cparam(ab, p) for p in ep.path_parameters), clist(cparam(ab, p) for p in ep.query_parameters),
        clist(cparam(ab, p) for p in ep.header_parameters), clist(cparam(ab, p) for p in ep.cookie_parameters), clist(bodies),
        "true" if ep.requires_security else "false", clist(resps)))


def endpoints_of(data, config):
    """[(module path, tag, endpoint)] in generation order (first tag only unless generate_all_tags)"""
    from openapi_python_client.utils import PythonIdentifier
    out = []
    for tag, coll in data.endpoint_collections_by_tag.items():
        for ep in coll.endpoints:
            out.append((f"api.{tag}.{PythonIdentifier(ep.name, config.field_prefix)}", str(tag), ep))
    return out


def arg_vectors(ab, ep, rng, n):
    """n argument vectors: dict python_name -> value tuple (gen.ops). First vector: everything set; second: optionals unset."""
    params = list(ep.path_parameters) + list(ep.query_parameters) + list(ep.header_parameters) + list(ep.cookie_parameters)
    choices = {}
    for p in params:
        vals = OPS.values_for(ab.kind(p), rng, ab)
        choices[str(p.python_name)] = (p, vals)
    body_vals = []
    for b in ep.bodies:
        body_vals += OPS.values_for(ab.kind(b.prop), rng, ab)
    vecs = []
    for i in range(n):
        v = {}
        ok = True
        for name, (p, vals) in choices.items():
            if not vals:
                ok = False
                break
            if not p.required and (i == 1 or (i > 1 and rng.random() < 0.35)):
                v[name] = ("unset",)
            else:
                v[name] = vals[0] if i == 0 else rng.choice(vals)
        if ep.bodies:
            if not body_vals:
                ok = False
            else:
                bv = body_vals[i % len(body_vals)]
                is_mp = any(str(b.body_type.value if hasattr(b.body_type, "value") else b.body_type) == "files" for b in ep.bodies)
                if bv[0] == "model" and is_mp:
                    # str() of a list / dict (the text an UNTYPED additional property is sent as in a multipart body) is not modelled: keep scalars only
                    m0 = next((m for m in ab.models if str(m.class_info.name) == bv[1]), None)
                    declared = {p.name for p in ((m0.required_properties or []) + (m0.optional_properties or []) if m0 else [])}
                    bv = (bv[0], bv[1], {k: x for k, x in bv[2].items() if k in declared or not isinstance(x, (list, dict))})
                if bv[0] == "model" and any(str(b.body_type.value if hasattr(b.body_type, "value") else b.body_type) == "files" for b in ep.bodies) and i % 2 == 0:
                    # binary attributes of a multipart body model cannot come from JSON: attach File objects to every other vector
                    m = next((m for m in ab.models if str(m.class_info.name) == bv[1]), None)
                    files = {str(p.python_name): ("F1LE\x00\xff%d" % i).encode("latin-1").hex() for p in ((m.required_properties or []) + (m.optional_properties or []) if m else [])
                             if type(p).__name__ == "FileProperty" and str(p.python_name) == p.name}
                    # an ARRAY of binary strings: one File per element
                    files.update({str(p.python_name): [("F1LE-%d-%d" % (i, n)).encode().hex() for n in range(2)] for p in ((m.required_properties or []) + (m.optional_properties or []) if m else [])
                                  if type(p).__name__ == "ListProperty" and type(p.inner_property).__name__ == "FileProperty" and str(p.python_name) == p.name})
                    if files:
                        bv = (bv[0], bv[1], bv[2], files)
                v["body"] = bv
        if ok:
            vecs.append(v)
    return vecs


def cargs(ab, vec, oname, tname):
    return clist(f"({cstr(k)}, {OPS.to_cpv(v, ab, oname, tname)})" for k, v in vec.items())


def ckwargs(ab, kw):
    """observed kwargs dict (values serialised by client_runner.ser) -> Coq kwargs record"""
    def cdict(d):
        if d is None:
            return "None"
        if d["t"] != "dict":
            raise ValueError("kwargs entry is not a dict: %r" % (d,))
        items = sorted(d["v"].items(), key=lambda kv: [ord(c) for c in kv[0]])
        return "(Some " + clist(f"({cstr(k)}, {ab.cpv(v)})" for k, v in items) + ")"
    def cval(name):
        return "(Some " + ab.cpv(kw[name]) + ")" if name in kw else "None"
    method = kw["method"]["v"]
    url = kw["url"]["v"]
    return ("{| kw_method := %s; kw_url := %s; kw_params := %s; kw_cookies := %s; kw_headers := %s; kw_json := %s; kw_data := %s; kw_other_body := %s |}" % (
        cstr(method), cstr(url), cdict(kw.get("params")), cdict(kw.get("cookies")), cdict(kw.get("headers")), cval("json"), cval("data"),
        "true" if ("files" in kw or "content" in kw) else "false"))


def strings_in_vec(vec, acc):
    for v in vec.values():
        _sv(v, acc)


def _sv(v, acc):
    if v[0] in ("date", "datetime", "uuid"):
        acc.add(v[1])
    elif v[0] == "j":
        absprop.strings_in(v[1], acc)
    elif v[0] == "model":
        absprop.strings_in(v[2], acc)
    elif v[0] == "list":
        for x in v[1]:
            _sv(x, acc)


# ------------------------------------------------------------------ expected wire values (independent oracle, httpx conventions)
def wire_str(v):
    """how a primitive argument appears on the wire once httpx has encoded it (query / header / path)"""
    t = v[0]
    if t == "j":
        x = v[1]
        if x is True:
            return "true"
        if x is False:
            return "false"
        if x is None:
            return ""
        return str(x)
    if t in ("date", "uuid"):
        return v[1]
    if t == "datetime":
        return v[1]
    if t == "enum":
        return str(v[2])
    raise ValueError(v)


def non_identifier_params(ep):
    """python names of parameters that are not Python identifiers (finding raw_fallback: colliding names fall back to the raw name)"""
    import keyword
    out = []
    for p in list(ep.path_parameters) + list(ep.query_parameters) + list(ep.header_parameters) + list(ep.cookie_parameters):
        n = str(p.python_name)
        if not n.isidentifier() or keyword.iskeyword(n):
            out.append(n)
    return out
