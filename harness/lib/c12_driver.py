"""C12 driver: executed in a FRESH interpreter (PYTHONHASHSEED chosen by the caller, PYTHONPATH = tree under verification).
stdin: JSON {"jobs":[{"id":..,"doc":<path to json document>,"out":<output dir>,"hooks":bool,"cfg":{...}}]}.
For every job: generate the client exactly as `generate()` does (_get_project_for_url_or_path + Project.build) and report
diagnostics plus, for the emission correspondence, the import sets of every model / endpoint IN THE ORDER IN WHICH THIS
PROCESS ENUMERATES THEM (the same set objects the templates iterated over)."""
import contextlib, io, json, sys, traceback
from pathlib import Path


def one(job):
    from openapi_python_client import _get_project_for_url_or_path
    from openapi_python_client.config import Config, ConfigFile, MetaType
    from openapi_python_client.parser.errors import GeneratorError
    from openapi_python_client.parser.properties.schemas import Class
    try:
        from openapi_python_client import import_string_from_class
    except ImportError:  # pragma: no cover
        import_string_from_class = None
    c = dict(job.get("cfg") or {})
    if not job.get("hooks"):
        c.setdefault("post_hooks", [])
    cf = ConfigFile(**c)
    config = Config.from_sources(cf, MetaType(job.get("meta", "none")), Path(job["doc"]), "utf-8", False, output_path=Path(job["out"]))
    res = {"id": job["id"], "exc": None, "diag": [], "models": [], "endpoints": [], "init": None, "classes": [], "enums": []}
    buf = io.StringIO()
    try:
        with contextlib.redirect_stdout(buf):
            project = _get_project_for_url_or_path(config=config)
            if isinstance(project, GeneratorError):
                res["diag"] = [[str(getattr(project.level, "name", project.level)), project.header, project.detail]]
                return res
            # GeneratorData.models / .enums are one-shot iterators consumed by Project.build: record what flows through them
            data = project.openapi
            seen_models, seen_enums = [], []

            def tee(it, sink):
                for x in it:
                    sink.append(x)
                    yield x
            data.models = tee(data.models, seen_models)
            data.enums = tee(data.enums, seen_enums)
            errors = project.build()
        res["diag"] = [[str(getattr(e.level, "name", e.level)), e.header, e.detail] for e in errors]
        for m in seen_models:
            ap = m.additional_properties
            ap_lazy = getattr(ap, "lazy_imports", None) if ap is not None and not isinstance(ap, bool) else None
            res["models"].append({"module": str(m.class_info.module_name), "cls": str(m.class_info.name),
                                  "lazy": list(m.lazy_imports or []), "relative": list(m.relative_imports or []),
                                  "addl_lazy": list(ap_lazy) if ap_lazy else []})
        for e in seen_enums:
            vals = e.values
            res["enums"].append({"module": str(e.class_info.module_name), "cls": str(e.class_info.name), "kind": type(e).__name__,
                                 "value_type": getattr(getattr(e, "value_type", None), "__name__", None),
                                 "members": ([[str(k), v] for k, v in vals.items()] if isinstance(vals, dict) else sorted(map(repr, vals)))})
        from openapi_python_client import utils
        for tag, coll in data.endpoint_collections_by_tag.items():
            for ep in coll.endpoints:
                res["endpoints"].append({"tag": str(tag), "module": str(utils.PythonIdentifier(ep.name, config.field_prefix)), "relative": list(ep.relative_imports), "n_bodies": len(ep.bodies)})
        if import_string_from_class is not None:
            classes = [m.class_info for m in seen_models] + [e.class_info for e in seen_enums]
            res["classes"] = [[str(ci.module_name), str(ci.name)] for ci in classes]
            res["init"] = {"imports": [import_string_from_class(ci) for ci in classes], "alls": [str(ci.name) for ci in classes]}
    except BaseException as e:  # noqa
        res["exc"] = repr(e) + "\n" + traceback.format_exc()[-1500:]
    return res


def main():
    inp = json.loads(sys.stdin.read())
    out = [one(j) for j in inp["jobs"]]
    sys.stdout.write("\n@@RESULT@@\n" + json.dumps(out))


if __name__ == "__main__":
    main()
