"""Abstraction function: the implementation's parsed property objects -> the `pk` terms / class table of coq/Codec.v,
and JSON / run-time values -> Coq terms. Trusted (listed in the evidence); itself checked by the correspondence: if it
misdescribes a property the model's decode/encode disagrees with the generated code."""
from __future__ import annotations
import ast, json
from lib.common import cstr


# ------------------------------------------------------------------ JSON <-> Coq
def cjson(j) -> str:
    if j is None:
        return "JNull"
    if isinstance(j, bool):
        return "(JBool true)" if j else "(JBool false)"
    if isinstance(j, int):
        return f"(JInt ({j})%Z)"
    if isinstance(j, float):
        return f"(JFlt {cstr(repr(j))})"
    if isinstance(j, str):
        return f"(JStr {cstr(j)})"
    if isinstance(j, list):
        return "(JArr [" + "; ".join(cjson(x) for x in j) + "])" if j else "(JArr [])"
    if isinstance(j, dict):
        items = sorted(j.items(), key=lambda kv: [ord(c) for c in kv[0]])
        return "(JObj [" + "; ".join(f"({cstr(k)}, {cjson(v)})" for k, v in items) + "])" if items else "(JObj [])"
    raise TypeError(f"not JSON: {j!r}")


def from_jsonable(x):
    """inverse of client_runner.jsonable; raises ValueError for non-JSON leaves"""
    if isinstance(x, dict):
        if set(x) == {"@f"}:
            return float(x["@f"])
        if "@nonjson" in x:
            raise ValueError("nonjson")
        if set(x) == {"@d"}:
            return {k: from_jsonable(v) for k, v in x["@d"].items()}
        return {k: from_jsonable(v) for k, v in x.items()}
    if isinstance(x, list):
        return [from_jsonable(v) for v in x]
    return x


def to_runner_json(j):
    """floats are sent to the runner as {"@f": repr} so that their text survives"""
    if isinstance(j, float):
        return {"@f": repr(j)}
    if isinstance(j, list):
        return [to_runner_json(x) for x in j]
    if isinstance(j, dict):
        return {k: to_runner_json(v) for k, v in j.items()}
    return j


def strings_in(j, acc):
    if isinstance(j, str):
        acc.add(j)
    elif isinstance(j, list):
        for x in j:
            strings_in(x, acc)
    elif isinstance(j, dict):
        for k, v in j.items():
            strings_in(v, acc)


# ------------------------------------------------------------------ property objects -> pk
class Abs:
    """Abstracts the models/enums of one parsed document (GeneratorData)."""

    def __init__(self, data):
        self.data = data
        self.models = list(data.models)
        self.enums = list(data.enums)
        self.cls_id = {}
        for i, m in enumerate(self.models):
            self.cls_id[str(m.class_info.name)] = i
        for i, e in enumerate(self.enums):
            self.cls_id.setdefault(str(e.class_info.name), 1000 + i)
        self.py2wire = {}   # class name -> {python_name: wire name}
        for m in self.models:
            self.py2wire[str(m.class_info.name)] = {str(p.python_name): p.name for p in (m.required_properties or []) + (m.optional_properties or [])}

    @staticmethod
    def enum_runtime_value(v):
        """the value the generated Enum member holds: the template writes KEY = "<escaped>" for strings"""
        if isinstance(v, str):
            try:
                return ast.literal_eval('"' + v + '"')
            except Exception:
                return v
        return v

    def kind(self, p):
        """python-side mirror of pk: tuples ("any",) ("enum", cls, vt, [vals]) ("list", inner) ("union", [..]) ("model", cls)"""
        n = type(p).__name__
        simple = {"AnyProperty": "any", "NoneProperty": "none", "BooleanProperty": "bool", "IntProperty": "int", "FloatProperty": "float",
                  "StringProperty": "str", "DateProperty": "date", "DateTimeProperty": "datetime", "UuidProperty": "uuid", "FileProperty": "file"}
        if n in simple:
            return (simple[n],)
        if n == "ConstProperty":
            return ("const", p.value.raw_value)
        if n == "EnumProperty":
            vt = "VTInt" if p.value_type is int else "VTStr"
            return ("enum", str(p.class_info.name), vt, [self.enum_runtime_value(v) for v in p.values.values()])
        if n == "LiteralEnumProperty":
            vt = "VTInt" if p.value_type is int else "VTStr"
            return ("litenum", vt, sorted(p.values))
        if n == "ListProperty":
            return ("list", self.kind(p.inner_property))
        if n == "UnionProperty":
            return ("union", [self.kind(x) for x in p.inner_properties])
        if n == "ModelProperty":
            return ("model", str(p.class_info.name))
        raise ValueError("unknown property class " + n)

    def ckind(self, k) -> str:
        t = k[0]
        simple = {"any": "KAny", "none": "KNone", "bool": "KBool", "int": "KInt", "float": "KFloat", "str": "KStr", "date": "KDate",
                  "datetime": "KDateTime", "uuid": "KUuid", "file": "KFile"}
        if t in simple:
            return simple[t]
        if t == "const":
            return f"(KConst {cjson(k[1])})"
        if t == "enum":
            return f"(KEnum {self.cls_id[k[1]]}%N {k[2]} [" + "; ".join(cjson(v) for v in k[3]) + "])"
        if t == "litenum":
            return f"(KLitEnum {k[1]} [" + "; ".join(cjson(v) for v in k[2]) + "])"
        if t == "list":
            return f"(KList {self.ckind(k[1])})"
        if t == "union":
            return "(KUnion [" + "; ".join(self.ckind(x) for x in k[1]) + "])"
        if t == "model":
            return f"(KModel {self.cls_id[k[1]]}%N)"
        raise ValueError(t)

    def class_props(self, m):
        return [(p.name, p.required, self.kind(p)) for p in (m.required_properties or []) + (m.optional_properties or [])]

    def class_addl(self, m):
        ap = m.additional_properties
        return None if ap is None or ap is False else (("any",) if ap is True else self.kind(ap))

    def ctable(self) -> str:
        rows = []
        for m in self.models:
            props = "[" + "; ".join(f"({cstr(n)}, ({'true' if r else 'false'}, {self.ckind(k)}))" for n, r, k in self.class_props(m)) + "]"
            ad = self.class_addl(m)
            rows.append(f"{{| c_props := {props}; c_addl := {'None' if ad is None else '(Some ' + self.ckind(ad) + ')'} |}}")
        return "[" + ";\n ".join(rows) + "]" if rows else "(@nil cdef)"

    # ---- run-time value (client_runner.ser) -> normalised Coq pv
    def cpv(self, s) -> str:
        v = self._norm(s)
        return self._cpv(v)

    def _norm(self, s):
        """python-side normal form: ("j", json) | ("unset",) | ("date", s) ... | ("list", [..]) | ("obj", cls, fields, addl)"""
        t = s["t"]
        if t == "unset":
            return ("unset",)
        if t == "j":
            return ("j", s["v"])
        if t == "f":
            return ("j", float(s["v"]))
        if t in ("date", "datetime", "uuid"):
            return (t, s["v"])
        if t == "enum":
            return ("enum", s["cls"], s["v"])
        if t == "list":
            items = [self._norm(x) for x in s["v"]]
            if all(i[0] == "j" for i in items) and not s.get("tuple"):
                return ("j", [i[1] for i in items])
            return ("list", items)
        if t == "dict":
            items = {k: self._norm(x) for k, x in s["v"].items()}
            if all(i[0] == "j" for i in items.values()):
                return ("j", {k: i[1] for k, i in items.items()})
            return ("other", "dict with typed values")
        if t == "obj":
            wire = self.py2wire.get(s["cls"], {})
            fields = [(wire.get(k, "?" + k), self._norm(x)) for k, x in s["fields"].items()]
            addl = [(k, self._norm(x)) for k, x in (s["addl"] or {}).items()]
            return ("obj", s["cls"], fields, addl)
        return ("other", s.get("repr", t))

    def _cpv(self, v) -> str:
        t = v[0]
        if t == "unset":
            return "PUnset"
        if t == "j":
            return f"(PJ {cjson(v[1])})"
        if t == "date":
            return f"(PDate {cstr(v[1])})"
        if t == "datetime":
            return f"(PDateTime {cstr(v[1])})"
        if t == "uuid":
            return f"(PUuid {cstr(v[1])})"
        if t == "enum":
            return f"(PEnum {self.cls_id.get(v[1], 9999)}%N {cjson(v[2])})"
        if t == "list":
            return "(PList [" + "; ".join(self._cpv(x) for x in v[1]) + "])"
        if t == "obj":
            m = self.models[self.cls_id[v[1]]] if v[1] in self.cls_id and self.cls_id[v[1]] < 1000 else None
            order = [p[0] for p in self.class_props(m)] if m is not None else []
            fd = dict(v[2])
            fs = "[" + "; ".join(f"({cstr(n)}, {self._cpv(fd[n])})" for n in order if n in fd) + "]"
            ad = sorted(v[3], key=lambda kv: [ord(c) for c in kv[0]])
            ads = "[" + "; ".join(f"({cstr(k)}, {self._cpv(x)})" for k, x in ad) + "]"
            return f"(PObj {self.cls_id.get(v[1], 9999)}%N {fs} {ads})"
        raise ValueError("unrepresentable run-time value: %r" % (v,))


def oracle_terms(strings):
    """mk_oracles argument lists from the real parsers, for the strings occurring in a shard"""
    from dateutil.parser import isoparse
    import uuid as _uuid
    d, dt, u = [], [], []
    for s in sorted(strings):
        try:
            d.append((s, isoparse(s).date().isoformat()))
        except Exception:
            pass
        try:
            dt.append((s, isoparse(s).isoformat()))
        except Exception:
            pass
        try:
            u.append((s, str(_uuid.UUID(s))))
        except Exception:
            pass
    f = lambda l: "[" + "; ".join(f"({cstr(a)}, {cstr(b)})" for a, b in l) + "]" if l else "[]"
    return f"(mk_oracles {f(d)} {f(dt)} {f(u)})"
