"""Probe documents for C05: every string-valued slot of an OpenAPI document carries text chosen by a callback.

build(shape, C) returns a document (dict).  C(label) -> str is called once per string slot; `label` is
"<PydanticClass>.<field>[@position]" (the part before '@' names the pydantic field, so the slot inventory can be diffed
against the schema classes).  Shapes: "A" = the comprehensive probe used by the translator gen_sites.py,
"B" = a differently shaped document (3.0.3, component/path-item parameters, nested inline models, several bodies) used
to cross-check the table.  Shared by harness/translate/gen_sites.py and harness/props/c05.py."""
from __future__ import annotations
import re, io, tokenize, token

# canaries: free-text slots carry zq???jh; validated-format slots (defaults of kind date / date-time / uuid / number given as a string) carry a
# token that is valid for the kind's validator: a date 18NN-11-22 / 19NN-11-22, a 31-digit uuid head, a number 734NNN
CAN_RE = re.compile(r"zq[a-z]{3}jh|1[89]\d\d-11-22|0000\d{4}-aaaa-4bbb-8ccc-d{11}|734\d{3}", re.I)
KIND_TOKEN = {"date": lambda n: "%d-11-22" % (1800 + n), "datetime": lambda n: "%d-11-22" % (1800 + n),
              "uuid": lambda n: "0000%04d-aaaa-4bbb-8ccc-ddddddddddd" % n, "int": lambda n: "734%03d" % n, "float": lambda n: "734%03d" % n,
              "enumdef": lambda n: canary(17000 + n)}
KIND_BASE = {"date": "{tok}", "datetime": "{tok}T10:20:30", "uuid": "{tok}d", "int": "{tok}", "float": "{tok}.5", "enumdef": "{tok}"}
# classification probe: a value the kind's validator accepts and whose emitted form tells repr from hand-quoting / from number normalisation
KIND_Q = {"date": "{tok}\\10", "datetime": "{tok}\\10:20:30", "uuid": "\t{tok}", "int": " +{tok} ", "float": " +{tok}.5 ",
          "enumdef": "{tok} Yy'kw"}     # enum value that is also the default: no double quote (rejected on the unchanged tree)


def canary(i: int) -> str:
    a, b, c = i // 676 % 26, i // 26 % 26, i % 26
    return "zq" + chr(97 + a) + chr(97 + b) + chr(97 + c) + "jh"


class Canaries:
    """C callback that hands out one unique lower-case canary per slot call; `wrap(label, canary)` may decorate it."""
    def __init__(self, wrap=None, wrap_kind=None):
        self.by_canary = {}     # canary -> label
        self.by_label = {}      # label -> canary
        self.text = {}          # label -> full text put into the document (fmt applied)
        self.core = {}          # label -> the text that replaces the canary (wrap applied, fmt not)
        self.kind = {}          # label -> kind, for validated-format slots
        self.wrap = wrap
        self.wrap_kind = wrap_kind

    def __call__(self, label: str, fmt: str = "{}", kind: str = None) -> str:
        """fmt places fixed characters around the slot text (e.g. "1{}": a value whose first character is not a letter).
        kind: the slot only takes values its validator accepts; the canary is a token valid for that kind and the text is
        wrap_kind(label, token, kind) (default: the plain base value of the kind)."""
        if label in self.by_label:
            raise ValueError("duplicate slot label " + label)
        if kind:
            c = KIND_TOKEN[kind](len(self.kind))
            self.kind[label] = kind
            core = self.wrap_kind(label, c, kind) if self.wrap_kind else KIND_BASE[kind].replace("{tok}", c)
        else:
            c = canary(len(self.by_label))
            core = self.wrap(label, c) if self.wrap else c
        self.by_label[label] = c
        self.by_canary[c] = label
        self.core[label] = core
        self.text[label] = fmt.format(core) if not kind else core
        return self.text[label]


# slots whose text is meaningful at run time: the generated string constant must equal the document text
_RUNTIME_FIELDS = ("Schema.properties.key", "Parameter.name", "Schema.enum.item", "Schema.const", "Schema.default", "OpenAPI.paths.key", "RequestBody.content.key")


def is_runtime(label: str) -> bool:
    return label.split("@")[0] in _RUNTIME_FIELDS and label != "Parameter.name@path"


class _Runtime:
    def __contains__(self, label):
        return is_runtime(label)


RUNTIME_SLOTS = _Runtime()


def _ref(name):
    return {"$ref": "#/components/schemas/" + name}


def build(shape: str, C):
    return _build_a(C) if shape == "A" else _build_b(C)



def _shape_schemas(C):
    """One named property per schema SHAPE that takes a different path through property_from_data / _process_properties, plus pairs of names
    that collide after snake-casing (the raw-name fallback PythonIdentifier(skip_snake_case=True)). The partner of a colliding name is
    the same text followed by '_' (same snake_case image, different wire name)."""
    K = lambda pos: C("Schema.properties.key@" + pos)
    tgt, enm = _ref("ShapeTarget"), _ref("ShapeEnum")
    col, colref = K("collide"), K("collide-ref")
    inherited = K("inherited")
    reqref = K("ref-model-required")
    return {
        "ShapeTarget": {"type": "object", "properties": {inherited: {"type": "string"}}},
        "ShapeEnum": {"type": "string", "enum": ["a", "b"]},
        "Shapes": {
            "type": "object",
            "required": [reqref],
            "properties": {
                K("inline-object"): {"type": "object", "description": C("Schema.description@inline-object-prop"), "properties": {"i": {"type": "integer"}}},
                K("inline-enum"): {"type": "string", "enum": ["a", "b"]},
                K("inline-int-enum"): {"type": "integer", "enum": [1, 2]},
                K("ref-model"): tgt,
                reqref: tgt,
                K("ref-enum"): enm,
                K("allof-ref"): {"allOf": [tgt]},
                K("allof-ref-enum"): {"allOf": [enm], "description": C("Schema.description@allof-ref-enum")},
                K("oneof-ref"): {"oneOf": [tgt]},
                K("anyof-ref-enum"): {"anyOf": [enm]},
                K("union"): {"oneOf": [tgt, {"type": "string"}]},
                K("union-enums"): {"anyOf": [enm, {"type": "integer", "enum": [1, 2]}]},
                K("array-ref"): {"type": "array", "items": tgt},
                K("array-ref-enum"): {"type": "array", "items": enm},
                K("array-inline-object"): {"type": "array", "items": {"type": "object", "title": C("Schema.title@items-object"), "description": C("Schema.description@items-object"),
                                                                       "properties": {K("items-object-prop"): {"type": "string"}}}},
                K("array-inline-enum"): {"type": "array", "items": {"type": "string", "enum": [C("Schema.enum.item@items"), "b", C("Schema.enum.item@items-positional", "1{}")]}},
                K("allof-merge"): {"allOf": [{"type": "string"}, {"description": C("Schema.description@allof-merge")}]},
                K("date"): {"type": "string", "format": "date"},
                K("file"): {"type": "string", "format": "binary"},
                K("any"): {},
                K("type-list"): {"type": ["string", "null"]},
            },
            "additionalProperties": {"type": "object", "title": C("Schema.title@additional-object"), "description": C("Schema.description@additional-object"),
                                     "properties": {K("additional-object-prop"): {"type": "integer"}}},
        },
        "ShapesRefAdditional": {"type": "object", "additionalProperties": tgt},
        "ShapesAllOf": {"allOf": [tgt, {"type": "object", "properties": {K("allof-member"): {"type": "string"}, K("allof-member-ref"): enm}}]},
        "Collide": {"type": "object", "required": [colref], "properties": {col: {"type": "string"}, col + "_": {"type": "string"}, colref: enm, colref + "_": {"type": "integer"}}},
    }


def _shape_paths(C, comp_param="SharedShape"):
    P = lambda pos: C("Parameter.name@" + pos)
    enm, tgt = _ref("ShapeEnum"), _ref("ShapeTarget")
    params = []
    for loc in ("query", "header", "cookie"):
        params += [
            {"name": P(loc + "-inline-enum"), "in": loc, "schema": {"type": "string", "enum": ["a", "b"]}},
            {"name": P(loc + "-ref-enum"), "in": loc, "required": loc == "header", "schema": enm},
            {"name": P(loc + "-allof-ref-enum"), "in": loc, "schema": {"allOf": [enm]}},
            {"name": P(loc + "-int"), "in": loc, "schema": {"type": "integer"}},
        ]
        col = P(loc + "-collide")
        params += [{"name": col, "in": loc, "schema": {"type": "string"}}, {"name": col + "_", "in": loc, "schema": {"type": "string"}}]
    params += [
        {"name": P("query-ref-model"), "in": "query", "schema": tgt},
        {"name": P("query-array-ref-enum"), "in": "query", "schema": {"type": "array", "items": enm}},
        {"name": P("query-array-inline"), "in": "query", "schema": {"type": "array", "items": {"type": "string"}}},
        {"name": P("query-union"), "in": "query", "schema": {"oneOf": [{"type": "string"}, {"type": "integer"}]}},
        {"name": P("query-date"), "in": "query", "schema": {"type": "string", "format": "date"}},
        {"$ref": "#/components/parameters/" + comp_param},
    ]
    pathname = P("path")
    pathenum = P("path-ref-enum")
    ok = {"200": {"description": "ok"}}
    return {
        "/shapes": {
            "parameters": [{"name": P("pathitem-query"), "in": "query", "schema": {"type": "string"}},
                           {"name": P("pathitem-header-ref-enum"), "in": "header", "schema": enm}],
            "get": {"operationId": "shapesOp", "tags": ["shapes"], "parameters": params, "responses": ok},
        },
        # path-parameter names are validated against the path template ([a-zA-Z_-][a-zA-Z0-9_-]*): one endpoint per slot, nothing else in it
        "/pathshape/{" + pathname + "}": {"get": {"operationId": "pathShapeOne", "tags": ["shapes"], "responses": ok,
                                                   "parameters": [{"name": pathname, "in": "path", "required": True, "schema": {"type": "string"}}]}},
        "/pathshapes/{" + pathenum + "}": {"get": {"operationId": "pathShapeTwo", "tags": ["shapes"], "responses": ok,
                                                    "parameters": [{"name": pathenum, "in": "path", "required": True, "schema": enm}]}},
    }


def _default_schemas(C):
    """Default values of every kind that turns a string default into code, in a model."""
    D = lambda pos, kind: C("Schema.default@" + pos, kind=kind)
    em, cv = C("Schema.enum.item@prop-default-member", kind="enumdef"), C("Schema.const@prop-with-default")
    return {
        # an enum default must equal a member (and class enums look it up by the escaped spelling: a double quote is rejected - finding
        # enum_default_dq of C13/C14), a const default must equal the const: separate models so that a rejection stays local
        "DefaultEnum": {"type": "object", "properties": {"den": {"type": "string", "enum": [em, "zz"], "default": em}}},
        "DefaultConst": {"type": "object", "properties": {"dco": {"const": cv, "default": cv}}},
        "Defaults": {"type": "object", "properties": {
            "dda": {"type": "string", "format": "date", "default": D("prop-date", "date")},
            "ddt": {"type": "string", "format": "date-time", "default": D("prop-datetime", "datetime")},
            "duu": {"type": "string", "format": "uuid", "default": D("prop-uuid", "uuid")},
            "din": {"type": "integer", "default": D("prop-int-string", "int")},
            "dfl": {"type": "number", "default": D("prop-float-string", "float")},
            "dun": {"oneOf": [{"type": "string", "format": "date-time"}, {"type": "integer"}], "default": D("prop-union-datetime", "datetime")},
            "duq": {"anyOf": [{"type": "string", "format": "uuid"}, {"type": "boolean"}], "default": D("prop-union-uuid", "uuid")},
        }},
    }


def _default_paths(C):
    D = lambda pos, kind: C("Schema.default@" + pos, kind=kind)
    params = []
    for loc in ("query", "header", "cookie"):
        params.append({"name": loc[0] + "uu", "in": loc, "schema": {"type": "string", "format": "uuid", "default": D(loc + "-uuid", "uuid")}})
        if loc != "header":     # date / date-time parameters are not allowed in headers
            params.append({"name": loc[0] + "dt", "in": loc, "schema": {"type": "string", "format": "date-time", "default": D(loc + "-datetime", "datetime")}})
        else:
            params.append({"name": "hin", "in": loc, "schema": {"type": "integer", "default": D("header-int-string", "int")}})
        if loc != "query":
            params.append({"name": loc[0] + "st", "in": loc, "schema": {"type": "string", "default": C("Schema.default@" + loc + "-string")}})
    em = C("Schema.enum.item@query-default-member", kind="enumdef")
    params += [
        {"name": "qda", "in": "query", "schema": {"type": "string", "format": "date", "default": D("query-date", "date")}},
        {"name": "qin", "in": "query", "schema": {"type": "integer", "default": D("query-int-string", "int")}},
        {"name": "qfl", "in": "query", "schema": {"type": "number", "default": D("query-float-string", "float")}},
        {"name": "qun", "in": "query", "schema": {"oneOf": [{"type": "string", "format": "date-time"}, {"type": "integer"}], "default": D("query-union-datetime", "datetime")}},
        {"name": "qen", "in": "query", "schema": {"type": "string", "enum": [em, "zz"], "default": em}},
    ]
    return {"/defaults": {"get": {"operationId": "defaultsOp", "tags": ["shapes"], "parameters": params, "responses": {"200": {"description": "ok"}}}}}


def _x(C, cls, pos=""):
    """An x- extension value on an object of pydantic class cls (every schema class is declared with extra='allow')."""
    return {"x-ext": C(cls + ".x-ext" + (("@" + pos) if pos else ""))}


def _bare_paths(C):
    """Fields the generator does not read today, in the configurations where a FALLBACK would pick them up: path items with summary /
    description whose operations have none (or only one of the two), parameters / request bodies / responses whose descriptions have no
    competing schema description, free-text response keys, path-item servers, callbacks, examples maps, x- extensions."""
    ok = lambda lab: {"200": {"description": C("Response.description@" + lab)}}
    resp_key = C("Components.responses.key")
    body_key = C("Components.requestBodies.key")
    return {
        "/bare/" + C("OpenAPI.paths.key@bare"): {
            "summary": C("PathItem.summary@bare"), "description": C("PathItem.description@bare"), **_x(C, "PathItem"),
            "servers": [{"url": C("Server.url@pathitem"), "description": C("Server.description@pathitem")}],
            "parameters": [{"name": "bq", "in": "query", "description": C("Parameter.description@bare-pathitem"), "schema": {"type": "string"}, **_x(C, "Parameter")}],
            "get": {
                "parameters": [{"name": "bh", "in": "header", "description": C("Parameter.description@bare-header"), "schema": {"type": "integer"},
                                "examples": {C("Parameter.examples.key@bare"): {"value": C("Example.value@bare")}}},
                               {"name": "bc", "in": "cookie", "description": C("Parameter.description@bare-cookie"), "example": C("Parameter.example@bare"), "schema": {"type": "string"}}],
                "requestBody": {"description": C("RequestBody.description@bare"), **_x(C, "RequestBody"),
                                "content": {"application/json": {"schema": {"type": "object", "properties": {"z": {"type": "string"}}, **_x(C, "Schema", "inline")},
                                                                 "examples": {C("MediaType.examples.key"): {"summary": C("Example.summary@media"), "value": {"z": C("Example.value@media")}}},
                                                                 **_x(C, "MediaType")}}},
                "responses": {"200": {"description": C("Response.description@bare"), **_x(C, "Response"),
                                      "headers": {C("Response.headers.key@bare"): {"description": C("Header.description@bare"), "style": C("Header.style"), "example": C("Header.example"),
                                                                                    "name": C("Header.name"), "schema": {"type": "string"},
                                                                                    "examples": {C("Header.examples.key"): {"value": C("Example.value@header")}}}},
                                      "content": {"application/json": {"schema": {"type": "string"}, "example": C("MediaType.example@response")}}},
                              "201": {"$ref": "#/components/responses/" + resp_key},
                              C("Operation.responses.key"): {"description": C("Response.description@free-key")}},
                "servers": [{"url": C("Server.url@operation")}],
                "callbacks": {C("Operation.callbacks.key"): {"{$request.body#/z}": {"post": {"responses": ok("callback")}}}},
                **_x(C, "Operation"),
            },
        },
        "/bare-summary-only": {"summary": C("PathItem.summary@op-has-summary"), "description": C("PathItem.description@op-has-summary"),
                               "get": {"summary": C("Operation.summary@only"), "responses": ok("summary-only")}},
        "/bare-description-only": {"summary": C("PathItem.summary@op-has-description"), "description": C("PathItem.description@op-has-description"),
                                   "put": {"description": C("Operation.description@only"), "requestBody": {"$ref": "#/components/requestBodies/" + body_key},
                                           "responses": ok("description-only")}},
        "/bare-param-content": {"get": {"parameters": [{"name": "pc", "in": "query", "content": {C("Parameter.content.key"): {"schema": {"type": "string"}}}}],
                                        "responses": ok("param-content")}},
    }, {
        "responses": {resp_key: {"description": C("Response.description@component"), "content": {"application/json": {"schema": {"type": "string"}}}}},
        "requestBodies": {body_key: {"description": C("RequestBody.description@component"), "content": {"application/json": {"schema": {"type": "object", "properties": {"y": {"type": "integer"}}}}}}},
        "headers": {C("Components.headers.key"): {"description": C("Header.description@component"), "schema": {"type": "string"}}},
        "examples": {C("Components.examples.key"): {"summary": C("Example.summary@component"), "value": C("Example.value@component")}},
        "links": {C("Components.links.key"): {"operationId": C("Link.operationId@component"), "parameters": {C("Link.parameters.key"): C("Link.parameters.value")}, "requestBody": C("Link.requestBody")}},
        "callbacks": {C("Components.callbacks.key"): {"{$url}": {"get": {"responses": ok("component-callback")}}}},
    }


def _build_a(C):
    model_name = C("Components.schemas.key@model-titled")
    enum_name = C("Components.schemas.key@enum-titled")
    other_name = C("Components.schemas.key@model2")
    enum2_name = C("Components.schemas.key@enum")
    pname = C("Schema.properties.key@model")
    req_name = C("Schema.properties.key@required")
    sec_name = C("Components.securitySchemes.key")  # also Operation.security.item.key
    tag = C("Operation.tags.item")
    schemas = {
        model_name: {
            "type": "object",
            "title": C("Schema.title@model"),
            "description": C("Schema.description@model"),
            "example": C("Schema.example@model"),
            "externalDocs": {"url": C("ExternalDocumentation.url@schema"), "description": C("ExternalDocumentation.description@schema")},
            "xml": {"name": C("XML.name"), "namespace": C("XML.namespace"), "prefix": C("XML.prefix")},
            "required": [req_name, C("Schema.required.item@unmatched")],
            **_x(C, "Schema", "model"),
            "properties": {
                pname: {**_x(C, "Schema", "prop"), "type": "string", "title": C("Schema.title@prop"), "description": C("Schema.description@prop"), "default": C("Schema.default@prop-string"),
                        "example": C("Schema.example@prop"), "pattern": C("Schema.pattern"), "format": C("Schema.format")},
                req_name: {"type": "integer", "description": C("Schema.description@prop-required")},
                "e": {"type": "string", "enum": [C("Schema.enum.item@model-prop"), "other", C("Schema.enum.item@model-prop-positional", "1{}")], "description": C("Schema.description@enum-prop"), "title": C("Schema.title@enum-prop")},
                "k": {"const": C("Schema.const@prop"), "description": C("Schema.description@const-prop")},
                C("Schema.properties.key@const"): {"const": "plainconst"},
                "nested": {"type": "object", "description": C("Schema.description@nested"), "properties": {C("Schema.properties.key@nested"): {"type": "string"}}},
                "arr": {"type": "array", "description": C("Schema.description@array"), "items": {"type": "string", "description": C("Schema.description@items")}},
                "un": {"oneOf": [{"type": "string", "description": C("Schema.description@union-member")}, {"type": "integer"}], "description": C("Schema.description@union")},
                "dt": {"type": "string", "format": "date-time", "description": C("Schema.description@datetime-prop")},
                "uu": {"type": "string", "format": "uuid", "default": "abcdefab-cdef-abcd-efab-cdefabcdefab"},
                "ref": _ref(enum_name),
                "ref2": _ref(enum2_name),
                "other": _ref(other_name),
                "anyp": {"description": C("Schema.description@any-prop"), "example": C("Schema.example@any-prop")},
                "b": {"type": "boolean", "description": C("Schema.description@bool-prop")},
                "fl": {"type": "number", "description": C("Schema.description@float-prop")},
                "fi": {"type": "string", "format": "binary", "description": C("Schema.description@file-prop")},
                "nu": {"type": "null", "description": C("Schema.description@none-prop")},
            },
            "additionalProperties": {"type": "string", "description": C("Schema.description@additional")},
        },
        enum_name: {"type": "string", "enum": [C("Schema.enum.item@component"), "second", C("Schema.enum.item@component-positional", "1{}")], "title": C("Schema.title@enum"), "description": C("Schema.description@enum"),
                    "default": "second"},
        other_name: {"type": "object", "description": C("Schema.description@model2"), "properties": {"x": {"type": "integer"}},
                     "discriminator": {"propertyName": C("Discriminator.propertyName"), "mapping": {C("Discriminator.mapping.key"): C("Discriminator.mapping.value")}}},
        "IntEnum": {"type": "integer", "enum": [1, 2], "description": C("Schema.description@int-enum")},
        enum2_name: {"type": "string", "enum": ["m", "n"]},
        **_shape_schemas(C),
        **_default_schemas(C),
        C("Components.schemas.key@model"): {"type": "object", "properties": {"y": {"type": "string", "enum": ["m", "n"]}, "z": {"type": "object", "properties": {"w": {"type": "integer"}}}}},
    }
    op = {
        "operationId": C("Operation.operationId"),
        "summary": C("Operation.summary"),
        "description": C("Operation.description"),
        "tags": [tag],
        "externalDocs": {"url": C("ExternalDocumentation.url@operation"), "description": C("ExternalDocumentation.description@operation")},
        "security": [{sec_name: [C("Operation.security.item.item")]}],
        "parameters": [
            {"name": "pp", "in": "path", "required": True, "description": C("Parameter.description@path"), "schema": {"type": "string"}},
            {"name": C("Parameter.name@query"), "in": "query", "description": C("Parameter.description@query"), "style": C("Parameter.style"), "example": C("Parameter.example"),
             "schema": {"type": "string", "default": C("Schema.default@param-string"), "description": C("Schema.description@param"), "title": C("Schema.title@param"), "example": C("Schema.example@param")},
             "examples": {C("Parameter.examples.key"): {"summary": C("Example.summary"), "description": C("Example.description"), "value": C("Example.value"), "externalValue": C("Example.externalValue")}}},
            {"name": C("Parameter.name@header"), "in": "header", "description": C("Parameter.description@header"), "schema": {"type": "string"}},
            {"name": C("Parameter.name@cookie"), "in": "cookie", "required": True, "description": C("Parameter.description@cookie"), "schema": {"type": "string"}},
            {"name": "qe", "in": "query", "schema": {"type": "string", "enum": [C("Schema.enum.item@param"), "zz", C("Schema.enum.item@param-positional", "1{}")]}},
            {"name": "qm", "in": "query", "schema": _ref(other_name)},
            {"name": "qenum", "in": "query", "schema": _ref(enum_name)},
            {"name": "qenumtwo", "in": "query", "schema": _ref(enum2_name)},
        ],
        "requestBody": {"description": C("RequestBody.description"),
                        "content": {"application/json; a=" + C("RequestBody.content.key@param"): {"schema": _ref(model_name), "example": C("MediaType.example"),
                                                                                                    "encoding": {C("MediaType.encoding.key"): {"contentType": C("Encoding.contentType"), "style": C("Encoding.style")}}},
                                    "application/x-www-form-urlencoded": {"schema": {"type": "object", "properties": {"ff": {"type": "string"}}}}}},
        "responses": {"200": {"description": C("Response.description"),
                              "headers": {C("Response.headers.key"): {"description": C("Header.description"), "schema": {"type": "string"}}},
                              "links": {C("Response.links.key"): {"operationId": C("Link.operationId"), "operationRef": C("Link.operationRef"), "description": C("Link.description")}},
                              "content": {"application/json; b=" + C("Response.content.key@param"): {"schema": _ref(model_name)}}},
                      "404": {"description": C("Response.description@404"), "content": {"text/plain": {"schema": {"type": "string", "description": C("Schema.description@response")}}}}},
    }
    bare_paths, bare_components = _bare_paths(C)
    comp_param = C("Components.parameters.key")
    return _add_leaf_extensions(C, model_name, other_name, sec_name, {
        "openapi": "3.1.0",
        **_x(C, "OpenAPI"),
        "security": [{C("OpenAPI.security.item.key"): [C("OpenAPI.security.item.item")]}],
        "info": {**_x(C, "Info"), "title": C("Info.title"), "version": C("Info.version"), "description": C("Info.description"), "termsOfService": C("Info.termsOfService"),
                 "contact": {"name": C("Contact.name"), "url": C("Contact.url"), "email": C("Contact.email")},
                 "license": {"name": C("License.name"), "url": C("License.url")}},
        "servers": [{"url": C("Server.url"), "description": C("Server.description"),
                     "variables": {C("Server.variables.key"): {"default": C("ServerVariable.default"), "description": C("ServerVariable.description"), "enum": [C("ServerVariable.enum.item")]}}}],
        "tags": [{"name": tag, "description": C("Tag.description"), "externalDocs": {"url": C("ExternalDocumentation.url@tag")}}, {"name": C("Tag.name@unused")}],
        "externalDocs": {"url": C("ExternalDocumentation.url@root"), "description": C("ExternalDocumentation.description@root")},
        "paths": {"/p/{pp}/" + C("OpenAPI.paths.key"): {"summary": C("PathItem.summary"), "description": C("PathItem.description"), "post": op},
                  **_shape_paths(C, comp_param),
                  **_default_paths(C),
                  **bare_paths,
                  "/" + C("OpenAPI.paths.key@noparams"): {"post": {"tags": [C("Operation.tags.item@second")], "operationId": C("Operation.operationId@second"),
                                                          "requestBody": {"content": {"application/json": {"schema": {"type": "object", "properties": {"q": {"type": "string"}}}}}},
                                                          "responses": {"200": {"description": C("Response.description@second"),
                                                                                "content": {"application/json": {"schema": {"type": "array", "items": _ref(model_name)}}}}}}}},
        "components": {"schemas": schemas,
                       "parameters": {comp_param: {"name": C("Parameter.name@component"), "in": "query", "description": C("Parameter.description@component"), "schema": {"type": "string"}}},
                       **bare_components, **_x(C, "Components"),
                       "securitySchemes": {sec_name: {"type": "apiKey", "name": C("SecurityScheme.name"), "in": "header", "description": C("SecurityScheme.description"),
                                                      "scheme": C("SecurityScheme.scheme"), "bearerFormat": C("SecurityScheme.bearerFormat"), "openIdConnectUrl": C("SecurityScheme.openIdConnectUrl")},
                                           "free": {"type": C("SecurityScheme.type"), "in": C("SecurityScheme.in"), "name": "n", **_x(C, "SecurityScheme")},
                                           "oa": {"type": "oauth2", "flows": {"implicit": {"authorizationUrl": C("OAuthFlow.authorizationUrl"), "tokenUrl": C("OAuthFlow.tokenUrl"),
                                                                                          "refreshUrl": C("OAuthFlow.refreshUrl"), "scopes": {C("OAuthFlow.scopes.key"): C("OAuthFlow.scopes.value")}}}}}},
    })


def _add_leaf_extensions(C, model_name, other_name, sec_name, doc):
    """x- extension values on the leaf objects of the document, and the few remaining free-text positions."""
    def ext(obj, cls, pos=""):
        obj.update(_x(C, cls, pos))
    info = doc["info"]
    ext(info["contact"], "Contact"); ext(info["license"], "License")
    srv = doc["servers"][0]
    ext(srv, "Server")
    for v in srv["variables"].values():
        ext(v, "ServerVariable")
    ext(doc["tags"][0], "Tag")
    ext(doc["externalDocs"], "ExternalDocumentation")
    schemas = doc["components"]["schemas"]
    ext(schemas[model_name]["xml"], "XML")
    ext(schemas[other_name]["discriminator"], "Discriminator")
    op = next(iter(doc["paths"].values()))["post"]
    op["security"].append({C("Operation.security.item.key@unknown-scheme"): []})
    media = next(iter(op["requestBody"]["content"].values()))
    enc = next(iter(media["encoding"].values()))
    ext(enc, "Encoding")
    enc["headers"] = {C("Encoding.headers.key"): {"schema": {"type": "string"}}}
    r200 = op["responses"]["200"]
    hdr = next(iter(r200["headers"].values()))
    ext(hdr, "Header")
    hdr["content"] = {C("Header.content.key"): {"schema": {"type": "string"}}}
    del hdr["schema"]
    ext(next(iter(r200["links"].values())), "Link")
    ex = next(iter(op["parameters"][1]["examples"].values()))
    ext(ex, "Example")
    op["parameters"][-1]["schema"].update(_x(C, "Reference"))        # a Reference object with an extension
    flows = doc["components"]["securitySchemes"]["oa"]["flows"]
    ext(flows, "OAuthFlows"); ext(flows["implicit"], "OAuthFlow")
    doc["paths"]["/ref-item"] = {"$ref": C("PathItem.$ref"), "get": {"responses": {"200": {"description": C("Response.description@ref-item")}}}}
    return doc


def _build_b(C):
    """A differently shaped document over the same slot vocabulary (labels must be a subset of shape A's)."""
    model_name = C("Components.schemas.key@model-titled")
    enum_name = C("Components.schemas.key@enum")
    pname = C("Schema.properties.key@model")
    tag = C("Operation.tags.item")
    bcol = C("Schema.properties.key@collide")
    hcol = C("Parameter.name@header-collide")
    schemas = {
        "Zed": {"type": "object", "required": [bcol + "_"],
                "properties": {C("Schema.properties.key@ref-model"): _ref(model_name), C("Schema.properties.key@ref-enum"): _ref(enum_name),
                               C("Schema.properties.key@allof-ref"): {"allOf": [_ref(model_name)]},
                               C("Schema.properties.key@array-ref-enum"): {"type": "array", "items": _ref(enum_name)},
                               bcol + "_": {"type": "integer"}, bcol: {"type": "string"}}},
        enum_name: {"type": "string", "enum": ["first", C("Schema.enum.item@component"), "third", C("Schema.enum.item@component-positional", "1{}")], "description": C("Schema.description@enum")},
        model_name: {
            "type": "object", "description": C("Schema.description@model"), "title": C("Schema.title@model"),
            "required": [pname],
            "properties": {
                "aaa": {"type": "integer"},
                pname: {"type": "string", "description": C("Schema.description@prop"), "default": C("Schema.default@prop-string"), "example": C("Schema.example@prop")},
                "lvl": {"type": "object", "properties": {"deep": {"type": "object", "description": C("Schema.description@nested"),
                                                                   "properties": {C("Schema.properties.key@nested"): {"type": "integer"}}}}},
                "ee": {"type": "string", "enum": ["x", C("Schema.enum.item@model-prop")], "nullable": True},
                "kk": {"const": C("Schema.const@prop")},
                "ll": {"type": "array", "items": {"type": "array", "items": {"type": "string", "description": C("Schema.description@items")}}},
            },
        },
    }
    shared_param = {"name": C("Parameter.name@header"), "in": "header", "required": True, "description": C("Parameter.description@header"), "schema": {"type": "integer"}}
    doc_b = {
        "openapi": "3.0.3",
        "info": {"title": C("Info.title"), "version": C("Info.version"), "description": C("Info.description")},
        "paths": {
            "/" + C("OpenAPI.paths.key") + "/{a}/x/{b}": {
                "parameters": [{"name": "a", "in": "path", "required": True, "schema": {"type": "integer"}}, {"$ref": "#/components/parameters/Shared"}],
                "put": {
                    "operationId": C("Operation.operationId"), "description": C("Operation.description"), "summary": C("Operation.summary"), "tags": [tag, "second-tag"],
                    "parameters": [{"name": "b", "in": "path", "required": True, "schema": {"type": "string"}},
                                   {"name": C("Parameter.name@query"), "in": "query", "required": True, "description": C("Parameter.description@query"),
                                    "schema": {"type": "string", "default": C("Schema.default@param-string")}},
                                   {"name": C("Parameter.name@cookie"), "in": "cookie", "schema": {"type": "string"}},
                                   {"name": C("Parameter.name@query-ref-enum"), "in": "query", "required": True, "schema": _ref(enum_name)},
                                   {"name": C("Parameter.name@cookie-allof-ref-enum"), "in": "cookie", "schema": {"allOf": [_ref(enum_name)]}},
                                   {"name": hcol + "_", "in": "header", "schema": {"type": "integer"}}, {"name": hcol, "in": "header", "required": True, "schema": {"type": "string"}},
                                   {"name": "qq", "in": "query", "schema": {"type": "array", "items": {"type": "string", "enum": ["u", C("Schema.enum.item@param"), C("Schema.enum.item@param-positional", "1{}")]}}}],
                    "requestBody": {"content": {"application/json": {"schema": _ref(model_name)},
                                                "multipart/form-data; c=" + C("RequestBody.content.key@param"): {"schema": {"type": "object", "properties": {"f": {"type": "string", "format": "binary"}}}}}},
                    "responses": {"201": {"description": C("Response.description"), "content": {"application/json": {"schema": {"type": "array", "items": _ref(model_name)}}}},
                                  "default": {"description": "d"}},
                },
            },
        },
        "components": {"schemas": schemas, "parameters": {"Shared": shared_param}},
    }
    doc_b["paths"]["/bare-b"] = {"summary": C("PathItem.summary@bare"), "description": C("PathItem.description@bare"),
                                 "parameters": [{"name": "bq", "in": "query", "description": C("Parameter.description@bare-pathitem"), "schema": {"type": "string"}}],
                                 "delete": {"responses": {"204": {"description": C("Response.description@bare")}}}}
    return doc_b


# ---------------------------------------------------------------------------------------------- scanning generated files
def file_kind(path: str) -> str:
    """Normalise a generated file's relative path to a kind: components that derive from document text become '*'."""
    parts = path.split("/")
    out = []
    for i, p in enumerate(parts):
        stem, dot, ext = p.partition(".")
        if CAN_RE.search(stem):
            out.append("*" + dot + ext)
        else:
            out.append(p)
    # models/<module>.py and api/<tag>/<endpoint>.py are document-derived even when the probe happens not to name them
    if len(out) >= 2 and out[-2] == "models" and out[-1] not in ("__init__.py",):
        out[-1] = "*.py"
    if "api" in out:
        k = out.index("api")
        if len(out) == k + 3:
            out[k + 1] = "*"
            if out[k + 2] != "__init__.py":
                out[k + 2] = "*.py"
    # package directory of the meta flavours (derived from info.title)
    if len(out) >= 2 and out[0] == "*":
        out[0] = "<pkg>"
    return "/".join(out)


def py_contexts(src: str):
    """[(start_offset, end_offset, context)] for every token of a Python source; raises on tokenizer errors.
    Contexts: IDENT, DQ, SQ, DOC (triple double quote), RDOC (raw triple double quote), TSQ (triple single), FSTR_DQ / FSTR_SQ / FSTR_T (literal part of an f-string),
    FCODE (name inside f-string braces), COMMENT, CODE (anything else), OTHERSTR (any other string prefix)."""
    lines = src.split("\n")
    offs = [0]
    for ln in lines:
        offs.append(offs[-1] + len(ln) + 1)
    out = []
    fstack = []
    for t in tokenize.generate_tokens(io.StringIO(src).readline):
        s = offs[t.start[0] - 1] + t.start[1]
        e = offs[t.end[0] - 1] + t.end[1]
        ty = t.type
        if ty == token.NAME:
            out.append((s, e, "FCODE" if fstack else "IDENT", t.string))
        elif ty == token.STRING:
            out.append((s, e, _str_ctx(t.string), t.string))
        elif ty == token.FSTRING_START:
            fstack.append(t.string)
            out.append((s, e, "CODE", t.string))
        elif ty == token.FSTRING_MIDDLE:
            q = fstack[-1] if fstack else '"'
            body = q.lstrip("fFrRbBuU")
            ctx = "FSTR_T" if len(body) == 3 else ("FSTR_DQ" if body == '"' else "FSTR_SQ")
            if any(ch in "rR" for ch in q[: len(q) - len(body)]):
                ctx = "FSTR_RAW"
            out.append((s, e, ctx, t.string))
        elif ty == token.FSTRING_END:
            if fstack:
                fstack.pop()
            out.append((s, e, "CODE", t.string))
        elif ty == token.COMMENT:
            out.append((s, e, "COMMENT", t.string))
        elif ty == token.NUMBER:
            out.append((s, e, "NUMBER", t.string))
        elif ty in (token.NEWLINE, token.NL, token.INDENT, token.DEDENT, token.ENDMARKER):
            continue
        else:
            out.append((s, e, "CODE", t.string))
    return out


def _str_ctx(tok: str) -> str:
    i = 0
    while i < len(tok) and tok[i] not in "\"'":
        i += 1
    prefix, body = tok[:i].lower(), tok[i:]
    triple = body[:3] in ('"""', "'''")
    if prefix == "" and not triple:
        return "DQ" if body[0] == '"' else "SQ"
    if triple and body[0] == '"' and prefix == "":
        return "DOC"
    if triple and body[0] == '"' and prefix == "r":
        return "RDOC"
    if triple and prefix == "":
        return "TSQ"
    return "OTHERSTR"


def toml_contexts(src: str):
    """Minimal TOML scanner: [(start, end, context)] with contexts TOML_BASIC, TOML_LITERAL, TOML_MLBASIC, TOML_MLLITERAL, COMMENT, CODE (bare text)."""
    out = []
    i, n = 0, len(src)
    bare = None
    def flush(j):
        nonlocal bare
        if bare is not None and j > bare:
            out.append((bare, j, "CODE", src[bare:j]))
        bare = None
    while i < n:
        c = src[i]
        if src.startswith('"""', i) or src.startswith("'''", i):
            flush(i)
            q = src[i:i + 3]
            j = i + 3
            while j < n and not src.startswith(q, j):
                j += 2 if (q == '"""' and src[j] == "\\") else 1
            j = min(n, j + 3)
            out.append((i, j, "TOML_MLBASIC" if q == '"""' else "TOML_MLLITERAL", src[i:j]))
            i = j
        elif c == '"':
            flush(i)
            j = i + 1
            while j < n and src[j] != '"' and src[j] != "\n":
                j += 2 if src[j] == "\\" else 1
            j = min(n, j + 1)
            out.append((i, j, "TOML_BASIC", src[i:j]))
            i = j
        elif c == "'":
            flush(i)
            j = i + 1
            while j < n and src[j] != "'" and src[j] != "\n":
                j += 1
            j = min(n, j + 1)
            out.append((i, j, "TOML_LITERAL", src[i:j]))
            i = j
        elif c == "#":
            flush(i)
            j = src.find("\n", i)
            j = n if j < 0 else j
            out.append((i, j, "COMMENT", src[i:j]))
            i = j
        elif c in " \t\r\n":
            flush(i)
            i += 1
        else:
            if bare is None:
                bare = i
            i += 1
    flush(n)
    return out


def contexts_for(path: str, src: str):
    if path.endswith(".py"):
        return py_contexts(src)
    if path.endswith(".toml"):
        return toml_contexts(src)
    if path.endswith(".md"):
        return [(0, len(src), "MARKDOWN", src)]
    if path.endswith("py.typed") or path.endswith(".gitignore"):
        return [(0, len(src), "CODE", src)]
    return [(0, len(src), "UNKNOWNFILE", src)]


def occurrences(path: str, src: str):
    """[(canary_lower, offset, context, token_text, offset_in_token)] for every canary occurrence in a file; context 'TOKERR' if the file cannot be tokenized."""
    try:
        spans = contexts_for(path, src)
    except (tokenize.TokenError, SyntaxError, IndentationError) as e:  # fail closed
        return [(m.group().lower(), m.start(), "TOKERR", "", 0) for m in CAN_RE.finditer(src)]
    res = []
    covered = set()
    for s, e, ctx, text in spans:
        for m in CAN_RE.finditer(src, s, e):
            res.append((m.group().lower(), m.start(), ctx, text, m.start() - s))
            covered.add(m.start())
    for m in CAN_RE.finditer(src):
        if m.start() not in covered:
            res.append((m.group().lower(), m.start(), "CODE", "", 0))
    res.sort(key=lambda r: r[1])
    return res


# ---------------------------------------------------------------------------------------------- slot inventory from the pydantic classes
def schema_str_fields():
    """Every string-bearing position of the document grammar: '<Class>.<field>[.key|.item|.value]' for str / Any typed fields of the
    pydantic classes reachable from schema.OpenAPI."""
    import typing, enum
    from pydantic import BaseModel
    from openapi_python_client import schema as oai
    seen, todo, out, odd = set(), [oai.OpenAPI], set(), []

    def visit(cls, fname, ann, suffix=""):
        origin, args = typing.get_origin(ann), typing.get_args(ann)
        if ann is str or ann is typing.Any:
            out.add(f"{cls.__name__}.{fname}{suffix}")
        elif isinstance(ann, type) and issubclass(ann, BaseModel):
            if ann not in seen:
                todo.append(ann)
        elif isinstance(ann, type) and issubclass(ann, enum.Enum):
            pass
        elif origin in (list, typing.List):
            visit(cls, fname, args[0], suffix + ".item")
        elif origin in (dict, typing.Dict):
            if args[0] is str:
                out.add(f"{cls.__name__}.{fname}{suffix}.key")
            visit(cls, fname, args[1], suffix + ".value" if args[1] in (str, typing.Any) else suffix)
        elif origin is typing.Union or str(origin) == "types.UnionType":
            for a in args:
                if a is not type(None):
                    visit(cls, fname, a, suffix)
        elif origin is typing.Annotated:
            visit(cls, fname, args[0], suffix)
        elif ann in (int, float, bool, type(None)):
            pass
        else:
            odd.append(f"{cls.__name__}.{fname}:{ann}")
    while todo:
        c = todo.pop()
        if c in seen:
            continue
        seen.add(c)
        for fname, f in c.model_fields.items():
            visit(c, f.alias or fname, f.annotation)
        if c.model_config.get("extra") == "allow":
            out.add(f"{c.__name__}.x-ext")     # specification extensions: any x- key with a string value
    return out, odd


# ---------------------------------------------------------------------------------------------- the site table
VARIANTS = [("setup", {}), ("poetry", {}), ("pdm", {}), ("none", {"literal_enums": True, "docstrings_on_attributes": True})]
SUF_Q = " Yy\"'kw"      # benign specials: space, case change, both quote characters
SUF_B = " Yy\\kw"       # a backslash (never trailing)
_STRIP = re.compile(r"(?i)[_-]?yykw")


def norm_path(path: str) -> str:
    return _STRIP.sub("", path)


def strip_pkg(kind: str) -> str:
    return kind[len("<pkg>/"):] if kind.startswith("<pkg>/") else kind


def render(doc, meta, cfg):
    """path -> text of every generated file; raises RuntimeError if the generator raised."""
    from lib import impl
    with impl.Gen(doc, meta=meta, cfg=cfg) as g:
        if g.exc is not None:
            raise RuntimeError(f"generator raised {g.exc!r}")
        return {k: v.decode("utf-8", "replace") for k, v in g.files().items()}, g.diag()


def classify_kind(text: str, off: int, tok: str, kind: str, ctx: str = "") -> str:
    """How the text of a validated-format slot was emitted, from the image of KIND_Q[kind]."""
    before, after = text[max(0, off - 4):off], text[off + len(tok): off + len(tok) + 12]
    if kind == "enumdef":
        can = text[off:off + len(tok)]
        if after.startswith(" Yy'kw"):
            if ctx == "SQ":      # the canary-only rendering is a single-quoted literal: repr switches to double quotes, hand-quoting does not
                return "repr" if before.endswith('"') and after.startswith(" Yy'kw\"") else "none"
            if ctx in ("DOC", "RDOC"):
                return "repr" if before.endswith('"') and after.startswith(" Yy'kw\"") else "none"
            return "esc"         # on the accepted alphabet (no double quote) remove_string_escapes is the identity
        if after.startswith(" Yy\\'kw"):
            return "repr" if before.endswith("'") else "unknown"
        if can.islower() and after.startswith("_yykw"):
            return "snake"
        if can.isupper() and after.startswith("_YYKW"):
            return "upper_snake"
        if can[0].isupper() and after.startswith("Yykw"):
            return "pascal"
        return "unknown"
    if kind in ("date", "datetime"):
        if after.startswith("\\\\10") and before.endswith("'"):
            return "repr"
        if after.startswith("\\10"):
            return "none"
    elif kind == "uuid":
        if before.endswith("'\\t") and after.startswith("'"):
            return "repr"
        if before.endswith("\t"):
            return "none"
    elif kind in ("int", "float"):
        if before.rstrip(" ").endswith("+") or after.startswith(" ") and not before.endswith(" "):
            return "none" if before.rstrip(" ").endswith("+") else "number"
        return "number"
    return "unknown"


def classify_sanitiser(text: str, off: int) -> str:
    """Sanitiser class of the image of `canary + SUF_Q` found at text[off:]."""
    can = text[off:off + 7]
    tail = text[off + 7: off + 7 + 14]
    before = text[off - 1] if off > 0 else ""
    if before == "1" and off > 1:
        before = text[off - 2]      # slots built with fmt "1{}"
    if tail.startswith(" Yy\\\\\"\\'kw"):
        return "repr_esc" if before == "'" and tail.startswith(" Yy\\\\\"\\'kw'") else "unknown"
    if tail.startswith(" Yy\"\\'kw"):
        return "repr" if before == "'" and tail.startswith(" Yy\"\\'kw'") else "unknown"
    if tail.startswith(" Yy\\\"'kw"):
        return "esc"
    if tail.startswith(" Yy\"'kw"):
        return "none"
    if can.islower() and tail.startswith(" Yykw"):
        return "sanitize"      # PythonIdentifier(skip_snake_case=True): symbols stripped, case and delimiters kept
    if can.islower() and tail.startswith("_yykw"):
        return "snake"
    if can[0].isupper() and can[1:].islower() and tail.startswith("Yykw"):
        return "pascal"
    if can.islower() and tail.startswith("-yykw"):
        return "kebab"
    if can.isupper() and tail.startswith("_YYKW"):
        return "upper_snake"
    return "unknown"


def site_table(shape: str, variants=None):
    """Returns (rows, report). rows: sorted list of (slot, filekind, ctx, san). Derived from OUTPUT only:
    probe 1 (pure canaries) gives the lexical context of every occurrence, probe 2 (canary + benign specials) the sanitiser class,
    probe 3 (canary + backslash) whether a docstring switches to the raw form. Occurrences are aligned per file by position order; any
    misalignment or tokenizer failure yields context/sanitiser 'unknown' (fail closed)."""
    rows = set()
    report = {"variants": [], "slots": None, "labels": None, "diagnostics": []}
    for meta, cfg in (variants or VARIANTS):
        kq = lambda l, t, k: KIND_Q[k].replace("{tok}", t)
        c1, c2, c3 = Canaries(), Canaries(lambda l, c: c + SUF_Q, kq), Canaries(lambda l, c: c + SUF_B, kq)
        f1, d1 = render(build(shape, c1), meta, cfg)
        f2, d2 = render(build(shape, c2), meta, cfg)
        f3, d3 = render(build(shape, c3), meta, cfg)
        report["labels"] = sorted(c1.by_label)
        report["kinds"] = dict(c1.kind)
        report["diagnostics"] += [list(map(str, d)) for d in d1]
        n2 = {norm_path(p): p for p in f2}
        n3 = {norm_path(p): p for p in f3}
        aligned = len(n2) == len(f2) and len(n3) == len(f3)
        # slots whose text with specials never reaches the output and is answered with a diagnostic: validated ("rejects")
        all2 = ("\n".join(f2) + "\n" + "\n".join(f2.values())).lower()
        rejected = {c for c in c1.by_canary if c not in all2} if len(d2) > len(d1) else set()
        for path, src in f1.items():
            kind = strip_pkg(file_kind(path))
            file_rejected = any(m.group().lower() in rejected for m in CAN_RE.finditer(path + "\n" + src))
            for m in CAN_RE.finditer(path):
                # path components: sanitiser from probe 2's name of the same file
                p2 = n2.get(path)
                if p2 is None and file_rejected and m.group().lower() not in rejected:
                    continue      # the file exists only because of a validated slot; the other components are classified through sibling files
                san = "rejects" if m.group().lower() in rejected else "unknown"
                if aligned and p2 is not None:
                    ms = [x for x in CAN_RE.finditer(p2)]
                    idx = [x.start() for x in CAN_RE.finditer(path)].index(m.start())
                    if len(ms) == len(list(CAN_RE.finditer(path))):
                        san = classify_sanitiser(p2 + "\0" * 16, ms[idx].start())
                rows.add((c1.by_canary[m.group().lower()], kind, "PATH", san))
            occ1 = occurrences(path, src)
            if not occ1:
                continue
            p2, p3 = n2.get(path), n3.get(path)
            src2 = f2.get(p2) if aligned and p2 else None
            src3 = f3.get(p3) if aligned and p3 else None
            # align per canary (set-ordered import blocks may permute lines between renderings; the order of one canary's occurrences is stable)
            by2, by3 = {}, {}
            if src2 is not None:
                for m in CAN_RE.finditer(src2):
                    by2.setdefault(m.group().lower(), []).append(m.start())
            if src3 is not None:
                for o in occurrences(p3, src3):
                    by3.setdefault(o[0], []).append(o[2])
            count1, seen1 = {}, {}
            for o in occ1:
                count1[o[0]] = count1.get(o[0], 0) + 1
            for (can, off, ctx, tok, k) in occ1:
                i = seen1.get(can, 0)
                seen1[can] = i + 1
                l2 = by2.get(can, [])
                knd = c1.kind.get(c1.by_canary[can])
                if can in rejected:
                    san = "rejects"
                elif len(l2) != count1[can]:
                    san = "unknown"
                elif knd:
                    san = classify_kind(src2 + "\0" * 16, l2[i], can, knd, ctx)
                else:
                    san = classify_sanitiser(src2 + "\0" * 16, l2[i])
                if ctx == "FCODE":
                    ctx = "IDENT"
                if ctx in ("DOC", "RDOC"):
                    # the image must not touch a double quote of the surrounding template text
                    b = src[off - 1] if off else ""
                    a = src[off + len(can): off + len(can) + 1]
                    if b == "'" and a == "'":
                        b, a = src[off - 2: off - 1], src[off + len(can) + 1: off + len(can) + 2]
                    l3 = by3.get(can, [])
                    raw_on_bs = len(l3) == count1[can] and l3[i] == "RDOC"
                    if b == '"' or a == '"' or ctx == "RDOC":
                        ctx = "unknown"
                    elif san in ("snake", "pascal", "kebab", "upper_snake", "sanitize", "rejects", "number") or knd in ("uuid", "int", "float", "enumdef"):
                        ctx = "DOC"      # identifier images never contain a backslash: raw/cooked is immaterial
                    else:
                        ctx = "DOC" if raw_on_bs else "DOC_COOKED"
                rows.add((c1.by_canary[can], kind, ctx, san))
        report["variants"].append({"meta": meta, "cfg": cfg, "files": len(f1)})
    return sorted(rows), report
