"""Executed with `python -I` in a fresh interpreter: imports a generated client package and performs operations on it.
stdin: JSON {"pkg_parent": dir, "pkg": name, "ops": [...]}; stdout: "\n@@RESULT@@\n" + JSON list of results.
This file is part of the trusted harness: it only observes (serialises run-time values, captures requests)."""
import sys, json, importlib, datetime, uuid, enum, traceback, inspect, io, asyncio


def ser(v, depth=0):
    """Serialise a run-time value structurally (no knowledge of the schema)."""
    if depth > 60:
        return {"t": "other", "repr": "too deep"}
    tn = type(v).__name__
    if tn == "Unset":
        return {"t": "unset"}
    if v is None or isinstance(v, (bool, int, str)) and not isinstance(v, enum.Enum):
        return {"t": "j", "v": v}
    if isinstance(v, float):
        return {"t": "f", "v": repr(v)}
    if isinstance(v, enum.Enum):
        return {"t": "enum", "cls": type(v).__name__, "v": v.value}
    if isinstance(v, datetime.datetime):
        return {"t": "datetime", "v": v.isoformat()}
    if isinstance(v, datetime.date):
        return {"t": "date", "v": v.isoformat()}
    if isinstance(v, uuid.UUID):
        return {"t": "uuid", "v": str(v)}
    if isinstance(v, (list, tuple)):
        return {"t": "list", "v": [ser(x, depth + 1) for x in v], "tuple": isinstance(v, tuple)}
    if isinstance(v, dict):
        return {"t": "dict", "v": {str(k): ser(x, depth + 1) for k, x in v.items()}}
    if isinstance(v, (bytes, bytearray)):
        return {"t": "bytes", "v": bytes(v).hex()}
    if tn == "File" and hasattr(v, "payload"):
        try:
            pos = v.payload.tell(); data = v.payload.read(); v.payload.seek(pos)
        except Exception:
            data = b""
        return {"t": "file", "v": bytes(data).hex(), "file_name": getattr(v, "file_name", None), "mime_type": getattr(v, "mime_type", None)}
    if hasattr(type(v), "__attrs_attrs__"):
        fields = {}
        addl = None
        for a in type(v).__attrs_attrs__:
            if a.name == "additional_properties":
                addl = {str(k): ser(x, depth + 1) for k, x in getattr(v, a.name).items()}
            else:
                fields[a.name] = ser(getattr(v, a.name), depth + 1)
        return {"t": "obj", "cls": type(v).__name__, "fields": fields, "addl": addl}
    if isinstance(v, io.BytesIO):
        return {"t": "bytesio", "v": v.getvalue().hex()}
    return {"t": "other", "repr": repr(v)[:200], "cls": tn}


def jsonable(x):
    """to_dict output as JSON-able structure with non-JSON leaves marked."""
    if x is None or isinstance(x, (bool, int, str)) and not isinstance(x, enum.Enum):
        return x
    if isinstance(x, float):
        return {"@f": repr(x)}
    if isinstance(x, list):
        return [jsonable(y) for y in x]
    if isinstance(x, dict):
        return {"@d": {str(k): jsonable(v) for k, v in x.items()}} if any(not isinstance(k, str) for k in x) or any(str(k).startswith("@") for k in x) else {k: jsonable(v) for k, v in x.items()}
    return {"@nonjson": type(x).__name__, "repr": repr(x)[:120]}


def json_view(v):
    """what a parsed response value denotes as JSON (models via to_dict, enums via value, dates via isoformat)"""
    if hasattr(v, "to_dict") and callable(v.to_dict):
        return jsonable(v.to_dict())
    if isinstance(v, enum.Enum):
        return v.value
    if isinstance(v, (datetime.date, datetime.datetime)):
        return v.isoformat()
    if isinstance(v, uuid.UUID):
        return str(v)
    if isinstance(v, list):
        return [json_view(x) for x in v]
    if type(v).__name__ == "File":
        return {"@file": ser(v)["v"]}
    return jsonable(v)


def exc_info(e):
    return {"type": type(e).__name__, "msg": str(e)[:300]}


def unjson(x):
    """inverse of the harness' float marking: {"@f": "1.5"} -> 1.5"""
    if isinstance(x, dict):
        if set(x) == {"@f"}:
            return float(x["@f"])
        return {k: unjson(v) for k, v in x.items()}
    if isinstance(x, list):
        return [unjson(v) for v in x]
    return x


def op_roundtrip(pkg, op):
    mod = importlib.import_module(pkg + ".models")
    cls = getattr(mod, op["cls"])
    data = unjson(op["data"])
    import copy as _copy
    pristine = _copy.deepcopy(data)
    res = {}
    try:
        obj = cls.from_dict(data)
    except BaseException as e:  # noqa
        res["dec_exc"] = exc_info(e)
        return res
    res["obj"] = ser(obj)
    # from_dict is a function of its argument: the caller's payload is left alone and decoding it again gives an equal object
    res["input_mutated"] = (data != pristine)
    try:
        res["decode_twice_equal"] = (cls.from_dict(data) == obj)
    except BaseException as e:  # noqa
        res["decode_twice_equal"] = False
    data = pristine
    try:
        out = obj.to_dict()
        res["out"] = jsonable(out)
        try:
            json.dumps(out)
            res["dumps_ok"] = True
        except BaseException as e:  # noqa
            res["dumps_ok"] = False
        res["py_equal"] = (out == data)
        try:
            obj2 = cls.from_dict(out)
            res["redecode_equal"] = (obj2 == obj)
        except BaseException as e:  # noqa
            res["redecode_exc"] = exc_info(e)
    except BaseException as e:  # noqa
        res["enc_exc"] = exc_info(e)
    return res


def op_import_all(pkg, op):
    """import every module of the package; report failures"""
    import pkgutil
    out = {"failed": {}, "imported": 0}
    try:
        root = importlib.import_module(pkg)
    except BaseException as e:  # noqa
        out["failed"][pkg] = exc_info(e)
        return out
    for m in pkgutil.walk_packages(root.__path__, pkg + "."):
        try:
            importlib.import_module(m.name)
            out["imported"] += 1
        except BaseException as e:  # noqa
            out["failed"][m.name] = exc_info(e)
    return out


def op_signature(pkg, op):
    """inspect.signature of a model class constructor or an endpoint function"""
    mod = importlib.import_module(pkg + "." + op["module"])
    target = getattr(mod, op["name"])
    sig = inspect.signature(target)
    ps = []
    for n, p in sig.parameters.items():
        ps.append({"name": n, "kind": str(p.kind), "has_default": p.default is not inspect.Parameter.empty,
                   "default": ser(p.default) if p.default is not inspect.Parameter.empty else None, "annotation": str(p.annotation)})
    return {"params": ps, "return": str(sig.return_annotation)}


def op_construct(pkg, op):
    """build a model from keyword args (values given as JSON or typed markers), return ser(obj) and to_dict"""
    mod = importlib.import_module(pkg + ".models")
    cls = getattr(mod, op["cls"])
    try:
        obj = cls(**{k: build_arg(pkg, v) for k, v in op["kwargs"].items()})
        return {"obj": ser(obj), "out": jsonable(obj.to_dict())}
    except BaseException as e:  # noqa
        return {"exc": exc_info(e)}


def build_arg(pkg, v):
    """typed argument markers: {"@date": iso}, {"@datetime": iso}, {"@uuid": s}, {"@enum": [Class, value]}, {"@model": [Class, json]}, {"@unset": true}, {"@file": hex}"""
    if isinstance(v, dict) and len(v) == 1:
        (k, x), = v.items()
        if k == "@date":
            return datetime.date.fromisoformat(x)
        if k == "@datetime":
            return datetime.datetime.fromisoformat(x)
        if k == "@uuid":
            return uuid.UUID(x)
        if k == "@f":
            return float(x)
        if k == "@enum":
            return getattr(importlib.import_module(pkg + ".models"), x[0])(x[1])
        if k == "@model":
            obj = getattr(importlib.import_module(pkg + ".models"), x[0]).from_dict(unjson(x[1]))
            for attr, hx in (x[2] if len(x) > 2 else {}).items():       # binary attributes cannot come from JSON: set them on the object
                T = importlib.import_module(pkg + ".types")
                mk = lambda h, n: T.File(payload=io.BytesIO(bytes.fromhex(h)), file_name=n + ".bin", mime_type="application/x-test")
                setattr(obj, attr, [mk(h, "%s%d" % (attr, n)) for n, h in enumerate(hx)] if isinstance(hx, list) else mk(hx, attr))
            return obj
        if k == "@unset":
            return importlib.import_module(pkg + ".types").UNSET
        if k == "@file":
            T = importlib.import_module(pkg + ".types")
            return T.File(payload=io.BytesIO(bytes.fromhex(x)), file_name="f.bin", mime_type="application/octet-stream")
        if k == "@list":
            return [build_arg(pkg, y) for y in x]
    if isinstance(v, list):
        return [build_arg(pkg, y) for y in v]
    return v


def op_call(pkg, op):
    """call an endpoint function against an httpx.MockTransport; capture the request(s) and the parsed result.
    op: {module: "api.tag.name", variant: sync|sync_detailed|asyncio|asyncio_detailed, kwargs: {...markers...}, auth: bool,
         raise_on_unexpected_status: bool, response: {status, headers, content_hex | json | text}}"""
    import httpx
    mod = importlib.import_module(pkg + "." + op["module"])
    client_mod = importlib.import_module(pkg + ".client")
    captured = []
    rsp = op.get("response") or {"status": 200}

    def handler(request):
        captured.append({"method": request.method, "path": request.url.raw_path.decode("ascii", "replace"), "url": str(request.url),
                         "query": [[k, v] for k, v in request.url.params.multi_items()],
                         "headers": [[k, v] for k, v in request.headers.multi_items()],
                         "content_hex": request.content.hex()})
        kw = {}
        if "json" in rsp:
            kw["json"] = unjson(rsp["json"])
        elif "text" in rsp:
            kw["text"] = rsp["text"]
        elif "content_hex" in rsp:
            kw["content"] = bytes.fromhex(rsp["content_hex"])
        return httpx.Response(rsp.get("status", 200), headers=rsp.get("headers") or None, **kw)

    res = {}
    try:
        kwargs = {k: build_arg(pkg, v) for k, v in (op.get("kwargs") or {}).items()}
        variant = op.get("variant", "sync_detailed")
        is_async = variant.startswith("asyncio")
        transport = httpx.MockTransport(handler)
        # the generated client builds its own httpx client (so its own header / auth logic is what is observed);
        # only the transport is substituted
        ckw = dict(base_url="http://testserver", raise_on_unexpected_status=bool(op.get("raise_on_unexpected_status")),
                   httpx_args={"transport": transport})
        if op.get("auth"):
            client = client_mod.AuthenticatedClient(token="tok123", **ckw)
        else:
            client = client_mod.Client(**ckw)
        fn = getattr(mod, variant)
        if is_async:
            r = asyncio.run(fn(client=client, **kwargs))
        else:
            r = fn(client=client, **kwargs)
        if variant.endswith("detailed"):
            res["result"] = {"status": int(r.status_code), "content_hex": r.content.hex(), "headers": [[k, v] for k, v in r.headers.items()], "parsed": ser(r.parsed),
                             "parsed_json": json_view(r.parsed), "parsed_cls": type(r.parsed).__name__}
        else:
            res["result"] = {"parsed": ser(r), "parsed_json": json_view(r), "parsed_cls": type(r).__name__}
    except BaseException as e:  # noqa
        res["exc"] = exc_info(e)
        res["exc"]["tb"] = traceback.format_exc()[-600:]
        res["exc_attrs"] = {"status_code": getattr(e, "status_code", None), "content_hex": getattr(e, "content", b"").hex() if isinstance(getattr(e, "content", None), bytes) else None}
    res["requests"] = captured
    return res


def op_get_kwargs(pkg, op):
    """call the module-level _get_kwargs(**kwargs) of an endpoint module and serialise the returned dict"""
    mod = importlib.import_module(pkg + "." + op["module"])
    try:
        kwargs = {k: build_arg(pkg, v) for k, v in (op.get("kwargs") or {}).items()}
        kw = mod._get_kwargs(**kwargs)
        return {"kwargs": {k: ser(v) for k, v in kw.items()}}
    except BaseException as e:  # noqa
        return {"exc": exc_info(e)}


def op_parse(pkg, op):
    """call _parse_response / _build_response on a canned httpx.Response"""
    import httpx
    mod = importlib.import_module(pkg + "." + op["module"])
    client_mod = importlib.import_module(pkg + ".client")
    rsp = op["response"]
    kw = {}
    if "content_hex" in rsp:
        kw["content"] = bytes.fromhex(rsp["content_hex"])
    client = client_mod.Client(base_url="http://testserver", raise_on_unexpected_status=bool(op.get("raise_on_unexpected_status")))
    response = httpx.Response(rsp.get("status", 200), headers=rsp.get("headers") or None, request=httpx.Request("GET", "http://testserver/"), **kw)
    try:
        parsed = mod._parse_response(client=client, response=response)
        return {"parsed": ser(parsed), "parsed_json": json_view(parsed), "parsed_cls": type(parsed).__name__}
    except BaseException as e:  # noqa
        return {"exc": exc_info(e), "exc_attrs": {"status_code": getattr(e, "status_code", None), "content_hex": getattr(e, "content", b"").hex() if isinstance(getattr(e, "content", None), bytes) else None}}


def op_multipart(pkg, op):
    """from_dict then to_multipart of a generated (multipart body) model; serialises the returned mapping structurally (C18)"""
    mod = importlib.import_module(pkg + ".models")
    cls = getattr(mod, op["cls"])
    try:
        obj = cls.from_dict(unjson(op["data"]))
    except BaseException as e:  # noqa
        return {"dec_exc": exc_info(e)}
    try:
        return {"out": ser(obj.to_multipart())}
    except BaseException as e:  # noqa
        return {"enc_exc": exc_info(e)}


def op_probe_models(pkg, op):
    """import every module of <pkg>.models on its own, behind a stub package that does not execute models/__init__ (so one
    module that cannot be imported does not hide the others); reports the failing modules (C18)"""
    import os, types
    root = importlib.import_module(pkg)
    mdir = os.path.join(list(root.__path__)[0], "models")
    for k in [k for k in sys.modules if k == pkg + ".models" or k.startswith(pkg + ".models.")]:
        del sys.modules[k]
    stub = types.ModuleType(pkg + ".models")
    stub.__path__ = [mdir]
    stub.__package__ = pkg + ".models"
    sys.modules[pkg + ".models"] = stub
    failed = {}
    try:
        for f in sorted(os.listdir(mdir)):
            if f.endswith(".py") and f != "__init__.py":
                try:
                    importlib.import_module(pkg + ".models." + f[:-3])
                except BaseException as e:  # noqa
                    failed[f[:-3]] = exc_info(e)
    finally:
        for k in [k for k in sys.modules if k == pkg + ".models" or k.startswith(pkg + ".models.")]:
            del sys.modules[k]
    return {"failed": failed}


def op_client_seq(pkg, op):
    """life cycle of AuthenticatedClient objects: op = {module, steps: [...]}; returns, per step, None or (for `use`) the list of
    values the captured request carries under that client's auth header name (or {"exc": ...})."""
    import httpx, attrs
    mod = importlib.import_module(pkg + "." + op["module"])
    client_mod = importlib.import_module(pkg + ".client")
    captured = []

    def handler(request):
        captured.append(request)
        return httpx.Response(200, json={})
    clients, out = [], []
    loop = asyncio.new_event_loop()
    try:
        for st in op["steps"]:
            k = st["k"]
            try:
                if k == "new":
                    clients.append(client_mod.AuthenticatedClient(base_url="http://testserver", token=st["tok"], prefix=st["pre"], auth_header_name=st["auth"],
                                                                  headers=dict(st.get("headers") or {}), cookies=dict(st.get("cookies") or {}),
                                                                  httpx_args={"transport": httpx.MockTransport(handler)}))
                    out.append(None)
                elif k == "evolve_token":
                    clients.append(attrs.evolve(clients[st["i"]], token=st["tok"])); out.append(None)
                elif k == "evolve_auth":
                    clients.append(attrs.evolve(clients[st["i"]], prefix=st["pre"], auth_header_name=st["auth"])); out.append(None)
                elif k == "derive":
                    c = clients[st["i"]]
                    how = st.get("how", "with_timeout")
                    if how == "with_timeout":
                        clients.append(c.with_timeout(httpx.Timeout(5.0)))
                    elif how == "with_cookies":
                        clients.append(c.with_cookies(dict(st.get("cookies") or {"ck": "v"})))
                    else:
                        clients.append(attrs.evolve(c, raise_on_unexpected_status=True))
                    out.append(None)
                elif k == "with_headers":
                    clients.append(clients[st["i"]].with_headers(dict(st["h"]))); out.append(None)
                elif k == "set_token":
                    clients[st["i"]].token = st["tok"]; out.append(None)
                elif k == "use":
                    c = clients[st["i"]]
                    n0 = len(captured)
                    if st["variant"] == "async":
                        loop.run_until_complete(mod.asyncio_detailed(client=c))
                    else:
                        mod.sync_detailed(client=c)
                    reqs = captured[n0:]
                    if len(reqs) != 1:
                        out.append({"exc": {"type": "RequestCount", "msg": str(len(reqs))}})
                    else:
                        ck = {}
                        for hv in reqs[0].headers.get_list("cookie"):
                            for part in hv.split(";"):
                                if "=" in part:
                                    a, b = part.strip().split("=", 1)
                                    ck[a] = b
                        out.append({"vals": reqs[0].headers.get_list(c.auth_header_name), "all": [[a, b] for a, b in reqs[0].headers.multi_items()], "cookies": ck})
                else:
                    out.append({"exc": {"type": "BadStep", "msg": k}})
            except BaseException as e:  # noqa
                out.append({"exc": exc_info(e), "tb": traceback.format_exc()[-500:]})
    finally:
        loop.close()
    return {"steps": out}


OPS = {"client_seq": op_client_seq, "roundtrip": op_roundtrip, "import_all": op_import_all, "signature": op_signature, "construct": op_construct, "call": op_call, "get_kwargs": op_get_kwargs, "parse": op_parse, "multipart": op_multipart, "probe_models": op_probe_models}


def main():
    inp = json.loads(sys.stdin.read())
    sys.path.insert(0, inp["pkg_parent"])
    pkg = inp["pkg"]
    results = []
    for op in inp["ops"]:
        try:
            results.append(OPS[op["op"]](pkg, op))
        except BaseException as e:  # noqa
            results.append({"fatal_op": exc_info(e), "tb": traceback.format_exc()[-800:]})
    sys.stdout.write("\n@@RESULT@@\n" + json.dumps(results))


if __name__ == "__main__":
    main()
