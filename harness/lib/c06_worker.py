"""C06 worker: runs the generator IN-PROCESS on one case per input line and reports what happened (never raises).
Started by harness/props/c06.py as `/venv/bin/python c06_worker.py` (one per core); the parent enforces the wall-clock limit
per case and kills / restarts the worker on a hang.  Protocol: stdin = one JSON case per line, stdout = `@@R@@ <json>` per case.

Case kinds
  gen      {"hex"|"text", "suffix", "out": "fresh"|"exists"|"missing_parent", "overwrite": bool}
           -> exception site (type + innermost frame inside openapi_python_client) or diagnostics, the stage observations used by
              the correspondences (loader / validation outcome, schemas.errors, parameters.errors, parse_errors per collection,
              Project.errors, the list generate() returned, identities as small integers), traces of the three retry loops and of
              every _resolve_reference call, directory listing before / after
  handle   {"errors": [[cls, level, has_data]], "fow": bool}  -> exit code, banner, printed headers of the real cli.handle_errors
  resolve  {"tables": [[start, [[name, ref|null]...]], ...]}     -> results of the real bodies._resolve_reference
  shrink   {"doc": ..., "site": [...], "budget": seconds}         -> delta-debugged document with the same exception site
"""
import contextlib, io, json, os, shutil, sys, tempfile, time, traceback
from pathlib import Path

REPO = os.environ.get("OPC_REPO", "/repo")
sys.path.insert(0, REPO)

import openapi_python_client as opc                                   # noqa: E402
from openapi_python_client import cli as opc_cli                      # noqa: E402
from openapi_python_client.config import Config, ConfigFile, MetaType  # noqa: E402
from openapi_python_client.parser import openapi as openapi_mod       # noqa: E402
from openapi_python_client.parser import bodies as bodies_mod         # noqa: E402
from openapi_python_client.parser import properties as props_mod      # noqa: E402
from openapi_python_client.parser.errors import ErrorLevel, GeneratorError, ParseError, PropertyError, ParameterError  # noqa: E402
from openapi_python_client import schema as oai                       # noqa: E402

PKGDIR = os.path.dirname(os.path.abspath(opc.__file__))


def site_of(exc):
    """(exception type, file:function of the innermost frame inside openapi_python_client, all repo files on the stack)"""
    tb = traceback.extract_tb(exc.__traceback__)
    frames = [f for f in tb if os.path.abspath(f.filename).startswith(PKGDIR + os.sep)]
    rel = lambda f: os.path.relpath(os.path.abspath(f.filename), PKGDIR)
    if not frames:
        return [type(exc).__name__, "?", []]
    stack = []
    for f in frames:
        s = f"{rel(f)}:{f.name}"
        if s not in stack:
            stack.append(s)
    inner = frames[-1]
    return [type(exc).__name__, f"{rel(inner)}:{inner.name}", stack]


# ------------------------------------------------------------------ instrumentation (observation only; results are passed through)
OBS = {}


def _reset():
    OBS.clear()
    OBS.update({"loops": [], "resolves": [], "load": None, "validation": None, "in_ok": None, "gd": None, "sp": None, "project": None, "win": None, "fetch": None, "loader_ct": "unset"})


_orig = {}


def _in_ok(data):
    """exact structural test: does the Python expression `"swagger" in data` evaluate without raising"""
    return isinstance(data, (str, list, tuple, dict, set, frozenset))


def _w_get_document(*a, **k):
    r = _orig["get_document"](*a, **k)
    OBS["load"] = isinstance(r, GeneratorError)
    if not OBS["load"]:
        OBS["in_ok"] = _in_ok(r)
        OBS["is_dict"] = isinstance(r, dict)
        OBS["data"] = r
    else:
        OBS["load_err"] = r
    return r


def _w_httpx_get(*a, **k):
    try:
        r = _orig["httpx_get"](*a, **k)
    except BaseException as e:  # noqa
        OBS["fetch"] = {"ok": False, "error": type(e).__name__}
        raise
    OBS["fetch"] = {"ok": True, "status": r.status_code, "ctype": r.headers.get("content-type"), "has_ctype": "content-type" in r.headers, "n": len(r.content)}
    return r


def _w_load_yaml_or_json(data, content_type):
    OBS["loader_ct"] = content_type
    return _orig["load_yaml_or_json"](data, content_type)


def _w_from_dict(data, *, config):
    r = _orig["from_dict"](data, config=config)
    OBS["validation"] = isinstance(r, GeneratorError)
    if OBS["validation"]:
        OBS["val_err"] = r
    else:
        OBS["gd"] = r
    return r


def _w_from_data(**k):
    r = _orig["from_data"](**k)
    OBS["sp"] = (r[1], r[2])
    return r


def _w_build(self):
    OBS["project"] = self
    return _orig["build"](self)


def _loop_window(name, items, permdrop, errs_list, run):
    """run() executes the real loop; calls made by the loop are recorded into win['calls'] by the inner wrappers"""
    win = {"loop": name, "items": items, "perm": permdrop, "calls": [], "errobjs": {}, "before": len(errs_list)}
    prev = OBS["win"]
    OBS["win"] = win
    try:
        res = run()
    finally:
        OBS["win"] = prev
    return win, res


def _finish_window(win, added, left, dataobjs):
    ids = []
    for e in added:
        if id(e) in win["errobjs"]:
            ids.append(win["errobjs"][id(e)])
        else:
            k = next((i for i, d in enumerate(dataobjs) if getattr(e, "data", None) is d), None)
            ids.append(1000000 + k if k is not None else -1)
    OBS["loops"].append({"loop": win["loop"], "n": len(win["items"]), "perm": win["perm"], "calls": win["calls"], "errs": ids, "left": left})


def _perm_items(components, section):
    perm = []
    for i, (name, data) in enumerate(components.items()):
        if isinstance(data, oai.Reference):
            perm.append(i)
        elif isinstance(props_mod.parse_reference_path(f"#/components/{section}/{name}"), ParseError):
            perm.append(i)
    return perm


def _w_create_schemas(*, components, schemas, config):
    names = list(components)
    win, res = _loop_window("_create_schemas", names, _perm_items(components, "schemas"), schemas.errors,
                            lambda: _orig["create_schemas"](components=components, schemas=schemas, config=config))
    _finish_window(win, res.errors[win["before"]:], None, list(components.values()))
    return res


def _w_update_schemas(*, ref_path, data, schemas, config):
    r = _orig["update_schemas"](ref_path=ref_path, data=data, schemas=schemas, config=config)
    win = OBS["win"]
    if win is not None and win["loop"] == "_create_schemas":
        name = str(ref_path).split("/")[-1]
        idx = next((i for i, n in enumerate(win["items"]) if props_mod.parse_reference_path(f"#/components/schemas/{n}") == ref_path), -1)
        fail = isinstance(r, PropertyError)
        if fail:
            win["errobjs"][id(r)] = len(win["calls"])
        win["calls"].append([idx, 1 if fail else 0])
    return r


def _w_build_parameters(*, components, parameters, config):
    comps = components if components is not None else {}
    names = list(comps)
    win, res = _loop_window("build_parameters", names, _perm_items(comps, "parameters"), parameters.errors,
                            lambda: _orig["build_parameters"](components=components, parameters=parameters, config=config))
    _finish_window(win, res.errors[win["before"]:], None, list(comps.values()))
    return res


def _w_update_parameters(*, ref_path, data, parameters, config):
    r = _orig["update_parameters"](ref_path=ref_path, data=data, parameters=parameters, config=config)
    win = OBS["win"]
    if win is not None and win["loop"] == "build_parameters":
        idx = next((i for i, n in enumerate(win["items"]) if props_mod.parse_reference_path(f"#/components/parameters/{n}") == ref_path), -1)
        fail = isinstance(r, ParameterError)
        if fail:
            win["errobjs"][id(r)] = len(win["calls"])
        win["calls"].append([idx, 1 if fail else 0])
    return r


def _w_process_models(*, schemas, config):
    models = list(schemas.models_to_process)
    win, res = _loop_window("_process_models", models, [], schemas.errors, lambda: _orig["process_models"](schemas=schemas, config=config))
    left = [next((i for i, m in enumerate(models) if m is x), -1) for x in res.models_to_process]
    _finish_window(win, res.errors[win["before"]:], left, [])
    return res


def _w_process_model(model_prop, *, schemas, config):
    r = _orig["process_model"](model_prop, schemas=schemas, config=config)
    win = OBS["win"]
    if win is not None and win["loop"] == "_process_models":
        idx = next((i for i, m in enumerate(win["items"]) if m is model_prop), -1)
        out = 0
        if isinstance(r, PropertyError):
            # the loop's own test for a self-referencing allOf (permanent failure, not re-queued)
            rec = isinstance(r.data, oai.Reference) and r.data.ref.endswith(f"/{model_prop.class_info.name}")
            out = 2 if rec else 1
            win["errobjs"][id(r)] = len(win["calls"])
        win["calls"].append([idx, out])
    return r


def _w_resolve_reference(body, request_bodies):
    r = _orig["resolve_reference"](body, request_bodies)
    try:
        OBS["resolves"].append(_describe_resolve(body, request_bodies, r))
    except Exception as e:  # noqa
        OBS["resolves"].append({"bad": repr(e)})
    return r


def _describe_resolve(body, table, r):
    vals = list(table.values())

    def enc(b):
        if b is None:
            return None
        if isinstance(b, oai.Reference):
            return {"ref": b.ref}
        k = next((i for i, v in enumerate(vals) if v is b), None)
        return {"body": k if k is not None else 999999}
    tb = [[k, enc(v)] for k, v in table.items()]
    if r is None:
        res = ["none"]
    elif isinstance(r, ParseError):
        if isinstance(r.data, oai.Reference):
            res = ["circular", r.data.ref]
        else:
            d = r.detail or ""
            pre, suf = "Could not resolve $ref ", " in request body"
            res = ["unresolved", d[len(pre):-len(suf)]] if d.startswith(pre) and d.endswith(suf) else ["error?", d]
    else:
        res = ["body", enc(r)["body"]]
    return {"start": enc(body), "table": tb, "res": res}


def install():
    import httpx
    _orig.update(httpx_get=httpx.get, load_yaml_or_json=opc._load_yaml_or_json)
    httpx.get = _w_httpx_get
    opc._load_yaml_or_json = _w_load_yaml_or_json
    _orig.update(get_document=opc._get_document, from_dict=openapi_mod.GeneratorData.from_dict, from_data=openapi_mod.EndpointCollection.from_data,
                 build=opc.Project.build, create_schemas=props_mod._create_schemas, update_schemas=props_mod.update_schemas_with_data,
                 build_parameters=props_mod.build_parameters, update_parameters=props_mod.update_parameters_with_data,
                 process_models=props_mod._process_models, process_model=props_mod.process_model, resolve_reference=bodies_mod._resolve_reference)
    opc._get_document = _w_get_document
    openapi_mod.GeneratorData.from_dict = staticmethod(_w_from_dict)
    openapi_mod.EndpointCollection.from_data = staticmethod(_w_from_data)
    opc.Project.build = _w_build
    props_mod._create_schemas = _w_create_schemas
    props_mod.update_schemas_with_data = _w_update_schemas
    props_mod.build_parameters = _w_build_parameters
    openapi_mod.build_parameters = _w_build_parameters
    props_mod.update_parameters_with_data = _w_update_parameters
    props_mod._process_models = _w_process_models
    props_mod.process_model = _w_process_model
    bodies_mod._resolve_reference = _w_resolve_reference


# ------------------------------------------------------------------ case runners
def listing(p: Path):
    if not p.exists():
        return None
    return sorted(str(f.relative_to(p)) + ("/" if f.is_dir() else "") for f in p.rglob("*"))


def lvl(e):
    return "E" if e.level == ErrorLevel.ERROR else ("W" if e.level == ErrorLevel.WARNING else "?")


def run_gen(case, want_obs=True):
    root = Path(tempfile.mkdtemp(prefix="opc_c06_"))
    res = {}
    try:
        suffix = case.get("suffix", ".json")
        p = root / ("doc" + suffix)
        pk = case.get("path_kind")
        if "url" in case:
            p = case["url"]                      # a str document source: fetched with httpx.get
        elif pk == "dir":
            p = root / "adir"
            p.mkdir()
        elif pk == "missing":
            p = root / "nope.json"
        else:
            data = bytes.fromhex(case["hex"]) if "hex" in case else case["text"].encode("utf-8", "surrogatepass")
            p.write_bytes(data)
        mode = case.get("out", "fresh")
        if mode == "missing_parent":
            out = root / "nope" / "out"
        else:
            out = root / "out"
        if mode == "exists":
            out.mkdir()
            (out / "keep.txt").write_text("user file")
        cf = ConfigFile(post_hooks=[], literal_enums=bool(case.get("literal_enums", False)))
        config = Config.from_sources(cf, MetaType(case.get("meta", "none")), p, "utf-8", bool(case.get("overwrite", False)), output_path=out)
        _reset()
        before = listing(out)
        errors, exc = [], None
        t = time.time()
        try:
            with contextlib.redirect_stdout(io.StringIO()), contextlib.redirect_stderr(io.StringIO()):
                errors = list(opc.generate(config=config))
        except BaseException as e:  # noqa
            if isinstance(e, KeyboardInterrupt):
                raise
            exc = e
        res["dt"] = round(time.time() - t, 3)
        after = listing(out)
        res["before"], res["after_n"] = before, (None if after is None else len(after))
        res["unchanged"] = (before == after)
        res["exc"] = site_of(exc) + [str(exc)[:200]] if exc is not None else None
        if exc is not None and OBS["load"] is False and OBS["validation"] is None:
            # from_dict did not return: decide independently of the crash whether the document fails validation
            from pydantic import ValidationError
            try:
                oai.OpenAPI.model_validate(OBS.get("data"))
                res["val_fail"] = False
            except ValidationError:
                res["val_fail"] = True
            except BaseException:  # noqa
                res["val_fail"] = None
        ids = {}

        def num(e):
            return ids.setdefault(id(e), len(ids))
        res["final"] = [[num(e), lvl(e)] for e in errors]
        res["diag"] = [[lvl(e), type(e).__name__, (e.header or "")[:80], (e.detail or "")[:160]] for e in errors[:12]]
        if want_obs:
            o = {"load": OBS["load"], "validation": OBS["validation"], "in_ok": OBS["in_ok"], "is_dict": OBS.get("is_dict"), "fetch": OBS["fetch"], "loader_ct": OBS["loader_ct"]}
            if OBS.get("load_err") is not None:
                o["load_id"] = [num(OBS["load_err"]), lvl(OBS["load_err"])]
            if OBS.get("val_err") is not None:
                o["val_id"] = [num(OBS["val_err"]), lvl(OBS["val_err"])]
            gd, sp, pr = OBS["gd"], OBS["sp"], OBS["project"]
            if gd is not None and sp is not None:
                o["schema_errs"] = [[num(e), lvl(e)] for e in sp[0].errors]
                o["param_errs"] = [[num(e), lvl(e)] for e in sp[1].errors]
                o["gd_errs"] = [[num(e), lvl(e)] for e in gd.errors]
                o["collections"] = [[[num(e), lvl(e)] for e in c.parse_errors] for c in gd.endpoint_collections_by_tag.values()]
            if pr is not None:
                o["hooks"] = [[num(e), lvl(e)] for e in pr.errors]
            o["loops"] = OBS["loops"]
            o["resolves"] = OBS["resolves"][:40]
            res["obs"] = o
    finally:
        shutil.rmtree(root, ignore_errors=True)
    return res


def run_handle(case):
    errs = []
    for i, (cls, level, has_data) in enumerate(case["errors"]):
        C = {"GeneratorError": GeneratorError, "ParseError": ParseError, "PropertyError": PropertyError, "ParameterError": ParameterError}[cls]
        kw = {"header": f"H{i}#", "detail": (f"detail {i}" if i % 3 else None)}
        if level is not None:
            kw["level"] = ErrorLevel.ERROR if level == "E" else ErrorLevel.WARNING
        if has_data and C is not GeneratorError:
            kw["data"] = oai.Reference.model_construct(ref=f"#/x/{i}")
        errs.append(C(**kw))
    seq = errs if case.get("as", "list") == "list" else tuple(errs)
    buf_e, buf_o = io.StringIO(), io.StringIO()
    code, exc = 0, None
    try:
        with contextlib.redirect_stdout(buf_o), contextlib.redirect_stderr(buf_e):
            if "fow" in case:
                opc_cli.handle_errors(seq, case["fow"])
            else:
                opc_cli.handle_errors(seq)
    except SystemExit as e:
        code = e.code if isinstance(e.code, int) else (0 if e.code is None else 1)
    except BaseException as e:  # noqa  (typer.Exit is a RuntimeError subclass carrying exit_code)
        if hasattr(e, "exit_code"):
            code = e.exit_code
        else:
            exc = site_of(e) + [str(e)[:200]]
    text = buf_e.getvalue()
    lines = text.split("\n")
    banner = None
    if lines and lines[0].startswith("Warning(s) encountered"):
        banner = "W"
    elif lines and lines[0].startswith("Error(s) encountered"):
        banner = "E"
    elif text.strip():
        banner = "?"
    import re
    printed = [int(m) for m in re.findall(r"^H(\d+)#$", text, re.M)]
    return {"code": code, "banner": banner, "printed": printed, "levels": [lvl(e) for e in errs], "exc": exc}


def run_resolve(case):
    out = []
    for start, table in case["tables"]:
        vals = {}
        for name, ref in table:
            vals[name] = oai.Reference.model_construct(ref=ref) if ref is not None else oai.RequestBody.model_construct(content={})
        if start is None:
            b = None
        elif isinstance(start, dict) and "ref" in start:
            b = oai.Reference.model_construct(ref=start["ref"])
        else:
            b = oai.RequestBody.model_construct(content={})
        try:
            r = _orig["resolve_reference"](b, vals)
            d = _describe_resolve(b, vals, r)
            if b is not None and not isinstance(b, oai.Reference):
                d["start"] = {"body": 999999}
                if d["res"][0] == "body":
                    d["res"] = ["body", 999999] if r is b else d["res"]
            out.append(d)
        except BaseException as e:  # noqa
            if isinstance(e, KeyboardInterrupt):
                raise
            out.append({"exc": site_of(e) + [str(e)[:200]]})
    return {"results": out}


# ------------------------------------------------------------------ delta debugging of a crashing document
def _paths(node, pre=()):
    yield pre
    if isinstance(node, dict):
        for k in list(node):
            yield from _paths(node[k], pre + (k,))
    elif isinstance(node, list):
        for i in range(len(node)):
            yield from _paths(node[i], pre + (i,))


def _get(doc, path):
    for k in path:
        doc = doc[k]
    return doc


def _without(doc, path):
    import copy
    d = copy.deepcopy(doc)
    par = _get(d, path[:-1])
    del par[path[-1]]
    return d


def _replaced(doc, path, val):
    import copy
    d = copy.deepcopy(doc)
    if not path:
        return val
    par = _get(d, path[:-1])
    par[path[-1]] = val
    return d


def run_shrink(case):
    target = case["site"][:2]
    deadline = time.time() + case.get("budget", 15)

    def crashes(doc):
        try:
            r = run_gen({"text": json.dumps(doc), "suffix": case.get("suffix", ".json"), "out": case.get("out", "fresh"), "literal_enums": case.get("literal_enums", False)}, want_obs=False)
        except Exception:
            return False
        return r["exc"] is not None and r["exc"][:2] == target
    doc = case["doc"]
    if not crashes(doc):
        return {"doc": doc, "shrunk": False, "steps": 0}
    steps = 0
    changed = True
    while changed and time.time() < deadline:
        changed = False
        # deepest-last so that large subtrees go first
        for path in sorted((p for p in _paths(doc) if p), key=len):
            if time.time() > deadline:
                break
            try:
                _get(doc, path)
            except (KeyError, IndexError, TypeError):
                continue
            cand = _without(doc, path)
            if crashes(cand):
                doc, changed, steps = cand, True, steps + 1
                break
            node = _get(doc, path)
            if isinstance(node, (dict, list)) and node:
                for simple in ({}, []) if isinstance(node, dict) else ([], {}):
                    cand = _replaced(doc, path, simple)
                    if crashes(cand):
                        doc, changed, steps = cand, True, steps + 1
                        break
                if changed:
                    break
    return {"doc": doc, "shrunk": True, "steps": steps}


def main():
    install()
    print("@@READY@@", flush=True)
    for line in sys.stdin:
        line = line.strip()
        if not line:
            continue
        case = json.loads(line)
        try:
            k = case["kind"]
            if k == "gen":
                r = run_gen(case)
            elif k == "handle":
                r = run_handle(case)
            elif k == "resolve":
                r = run_resolve(case)
            elif k == "shrink":
                r = run_shrink(case)
            else:
                r = {"worker_error": "unknown kind"}
        except BaseException as e:  # noqa
            if isinstance(e, KeyboardInterrupt):
                raise
            r = {"worker_error": repr(e), "trace": traceback.format_exc()[-1500:]}
        r["id"] = case.get("id")
        sys.stdout.write("@@R@@ " + json.dumps(r, default=str) + "\n")
        sys.stdout.flush()


if __name__ == "__main__":
    main()
