"""Static name-resolution analysis of a generated Python module (trusted helper, pyflakes-like, stdlib only):
which names does the module read that nothing provides at run time? Used by the C01 translator (regenerated fact) and oracle."""
from __future__ import annotations
import ast, builtins, symtable

BUILTINS = set(dir(builtins)) | {"__file__", "__name__", "__doc__", "__package__", "__spec__", "__path__"}


def _type_checking_names(tree: ast.Module):
    out = set()
    for node in tree.body:
        if isinstance(node, ast.If) and ((isinstance(node.test, ast.Name) and node.test.id == "TYPE_CHECKING") or
                                         (isinstance(node.test, ast.Attribute) and node.test.attr == "TYPE_CHECKING")):
            for n in ast.walk(node):
                if isinstance(n, (ast.Import, ast.ImportFrom)):
                    for a in n.names:
                        out.add((a.asname or a.name).split(".")[0])
    return out


def _module_bound(tree: ast.Module, tc: set):
    """names bound at module level at RUN TIME (imports under `if TYPE_CHECKING:` excluded)"""
    bound = set()

    def visit(body, in_tc=False):
        for node in body:
            if isinstance(node, (ast.Import, ast.ImportFrom)):
                if not in_tc:
                    for a in node.names:
                        bound.add((a.asname or a.name).split(".")[0])
            elif isinstance(node, (ast.FunctionDef, ast.AsyncFunctionDef, ast.ClassDef)):
                bound.add(node.name)
            elif isinstance(node, (ast.Assign, ast.AnnAssign, ast.AugAssign)):
                targets = node.targets if isinstance(node, ast.Assign) else [node.target]
                for t in targets:
                    for n in ast.walk(t):
                        if isinstance(n, ast.Name):
                            bound.add(n.id)
            elif isinstance(node, ast.If):
                is_tc = (isinstance(node.test, ast.Name) and node.test.id == "TYPE_CHECKING")
                visit(node.body, in_tc or is_tc)
                visit(node.orelse, in_tc)
            elif isinstance(node, (ast.Try,)):
                visit(node.body, in_tc)
                for h in node.handlers:
                    visit(h.body, in_tc)
                visit(node.orelse, in_tc)
                visit(node.finalbody, in_tc)
            elif isinstance(node, (ast.With, ast.For, ast.While)):
                visit(node.body, in_tc)
    visit(tree.body)
    return bound


def undefined_names(source: str, filename: str = "<generated>"):
    """sorted list of 'name@scope' that are read as globals but bound neither at module level (at run time) nor as builtins;
    names inside string annotations are checked against module-level names INCLUDING TYPE_CHECKING imports.
    Raises SyntaxError if the source does not compile."""
    tree = ast.parse(source, filename)
    tc = _type_checking_names(tree)
    bound = _module_bound(tree, tc)
    missing = set()
    top = symtable.symtable(source, filename, "exec")

    def walk(tab, path):
        for sym in tab.get_symbols():
            name = sym.get_name()
            if not sym.is_referenced():
                continue
            if tab.get_type() == "module":
                glob = True
                if sym.is_assigned() or sym.is_imported() or sym.is_namespace():
                    # bound somewhere at module level; run-time availability is decided by `bound`
                    pass
            else:
                glob = sym.is_global() or (sym.is_free() and False)
                if sym.is_local() or sym.is_parameter() or sym.is_free() or sym.is_imported():
                    glob = False
            if glob and name not in bound and name not in BUILTINS:
                if name in tc and _only_in_annotations(tree, name):
                    continue
                missing.add(f"{name}@{path or 'module'}")
        for child in tab.get_children():
            walk(child, (path + "." if path else "") + child.get_name())
    walk(top, "")
    # string annotations / quoted forward references
    for node in ast.walk(tree):
        ann = None
        if isinstance(node, ast.arg):
            ann = node.annotation
        elif isinstance(node, ast.AnnAssign):
            ann = node.annotation
        elif isinstance(node, (ast.FunctionDef, ast.AsyncFunctionDef)):
            ann = node.returns
        if ann is None:
            continue
        for c in _walk_skip_literal(ann):
            if isinstance(c, ast.Constant) and isinstance(c.value, str):
                try:
                    sub = ast.parse(c.value, mode="eval")
                except SyntaxError:
                    missing.add(f"<unparseable annotation {c.value!r}>")
                    continue
                for n in ast.walk(sub):
                    if isinstance(n, ast.Name) and n.id not in bound and n.id not in tc and n.id not in BUILTINS:
                        missing.add(f"{n.id}@annotation")
    return sorted(missing)


def _walk_skip_literal(node):
    """ast.walk that does not descend into Literal[...] (its strings are values, not forward references)"""
    todo = [node]
    while todo:
        n = todo.pop()
        yield n
        if isinstance(n, ast.Subscript) and ((isinstance(n.value, ast.Name) and n.value.id == "Literal") or (isinstance(n.value, ast.Attribute) and n.value.attr == "Literal")):
            continue
        todo.extend(ast.iter_child_nodes(n))


def _only_in_annotations(tree, name):
    """True if every Load of `name` is inside an annotation expression"""
    ann_nodes = set()
    for node in ast.walk(tree):
        for ann in ([node.annotation] if isinstance(node, (ast.arg, ast.AnnAssign)) and node.annotation is not None else []) + \
                   ([node.returns] if isinstance(node, (ast.FunctionDef, ast.AsyncFunctionDef)) and node.returns is not None else []):
            for c in ast.walk(ann):
                ann_nodes.add(id(c))
    for n in ast.walk(tree):
        if isinstance(n, ast.Name) and n.id == name and isinstance(n.ctx, ast.Load) and id(n) not in ann_nodes:
            return False
    return True


def relative_import_targets(source: str):
    """[(level, module or '', [names])] for every relative import (anywhere in the module, incl. inside functions)"""
    tree = ast.parse(source)
    out = []
    for n in ast.walk(tree):
        if isinstance(n, ast.ImportFrom) and n.level > 0:
            out.append((n.level, n.module or "", [a.name for a in n.names]))
    return out
