"""Executed with `python -I` in a fresh interpreter by C13/C14: imports modules of a generated client one by one (the
`models` package __init__ is bypassed so that one broken module does not hide the others) and answers probes.
stdin: JSON {"pkg_parent":..., "pkg":..., "jobs":[...]}; stdout: marker + JSON list of results (same order)."""
import sys, json, types, importlib, inspect, enum, datetime, uuid, math, typing, traceback


def enc(v):
    """A tagged, JSON-able description of a Python value."""
    if v is None:
        return {"t": "none"}
    if isinstance(v, enum.Enum):
        return {"t": "member", "cls": type(v).__name__, "name": v.name, "value": enc(v.value)}
    if isinstance(v, bool):
        return {"t": "bool", "v": v}
    if isinstance(v, int):
        return {"t": "int", "v": str(v)}
    if isinstance(v, float):
        return {"t": "float", "v": repr(v)}
    if isinstance(v, str):
        return {"t": "str", "v": v}
    if isinstance(v, datetime.datetime):
        return {"t": "datetime", "v": v.isoformat(), "aware": v.tzinfo is not None}
    if isinstance(v, datetime.date):
        return {"t": "date", "v": v.isoformat()}
    if isinstance(v, uuid.UUID):
        return {"t": "uuid", "v": str(v)}
    if type(v).__name__ == "Unset":
        return {"t": "unset"}
    if v is inspect.Parameter.empty:
        return {"t": "empty"}
    if isinstance(v, (list, tuple)):
        return {"t": "list", "v": [enc(x) for x in v]}
    if isinstance(v, dict):
        return {"t": "dict", "v": {str(k): enc(x) for k, x in v.items()}}
    return {"t": "other", "v": repr(v)[:200], "type": type(v).__name__}


def dec_json(x):
    """Inverse of the harness's encoding of probe values (JSON cannot carry inf/nan or distinguish 1 from 1.0 reliably)."""
    if isinstance(x, dict) and "__f" in x:
        return float(x["__f"])
    if isinstance(x, dict) and "__i" in x:
        return int(x["__i"])
    if isinstance(x, dict) and "__d" in x:
        return {k: dec_json(v) for k, v in x["__d"].items()}
    if isinstance(x, list):
        return [dec_json(v) for v in x]
    return x


def main():
    req = json.loads(sys.stdin.read())
    sys.path.insert(0, req["pkg_parent"])
    pkg = req["pkg"]
    import os
    root = os.path.join(req["pkg_parent"], pkg)
    try:
        importlib.import_module(pkg)
    except BaseException as e:  # noqa
        print("\n@@RESULT@@\n" + json.dumps({"fatal": "package import: " + repr(e)}))
        return
    # bypass models/__init__.py
    mp = types.ModuleType(pkg + ".models")
    mp.__path__ = [os.path.join(root, "models")]
    mp.__package__ = pkg + ".models"
    sys.modules[pkg + ".models"] = mp
    out = []
    for job in req["jobs"]:
        res = {}
        try:
            mod = importlib.import_module(pkg + "." + job["module"])
        except BaseException as e:  # noqa
            out.append({"import_error": type(e).__name__ + ": " + str(e)[:300]})
            continue
        try:
            if job["what"] == "model":
                cls = getattr(mod, job["cls"])
                # enum classes / literal helpers visible from the model module
                enums = {}
                for n, o in vars(mod).items():
                    if isinstance(o, type) and issubclass(o, enum.Enum) and o.__module__.startswith(pkg):
                        enums[n] = {"members": [[k, enc(m.value)] for k, m in o.__members__.items()], "canonical": [m.name for m in o], "bases": [b.__name__ for b in o.__mro__[1:3]],
                                    "texts": [[m.name, str(m), format(m), f"{m}", "{}".format(m)] for m in o]}
                lits = {}
                for n, o in vars(mod).items():
                    if n.startswith("check_") and callable(o):
                        lm = sys.modules[o.__module__]
                        for vn, vs in vars(lm).items():
                            if vn.endswith("_VALUES") and isinstance(vs, (set, frozenset)):
                                lits[n] = {"set": sorted([enc(x) for x in vs], key=lambda d: json.dumps(d, sort_keys=True)),
                                           "literal_args": [[enc(a) for a in typing.get_args(t)] for tn, t in vars(lm).items() if typing.get_origin(t) is typing.Literal]}
                res["enums"] = enums
                res["literals"] = lits
                # default construction
                if job.get("construct", True):
                    try:
                        inst = cls()
                        res["attrs"] = {a: enc(getattr(inst, a)) for a in job.get("attrs", [])}
                        try:
                            res["to_dict"] = enc(inst.to_dict())
                        except BaseException as e:  # noqa
                            res["to_dict_error"] = type(e).__name__ + ": " + str(e)[:200]
                    except BaseException as e:  # noqa
                        res["construct_error"] = type(e).__name__ + ": " + str(e)[:200]
                # decode / encode probes
                probes = []
                for p in job.get("probes", []):
                    src = {k: dec_json(v) for k, v in p.items()}
                    try:
                        inst = cls.from_dict(src)
                    except BaseException as e:  # noqa
                        probes.append({"fail": type(e).__name__})
                        continue
                    r = {"attrs": {a: enc(getattr(inst, a)) for a in job.get("attrs", [])}}
                    try:
                        r["to_dict"] = enc(inst.to_dict())
                    except BaseException as e:  # noqa
                        r["to_dict_error"] = type(e).__name__
                    probes.append(r)
                res["probes"] = probes
            elif job["what"] == "call":
                # call the endpoint once per enum member (or Literal value) of parameter job["param"] behind a MockTransport and report what is SENT
                import httpx
                from urllib.parse import unquote
                fn = getattr(mod, "sync_detailed")
                ann = inspect.signature(fn).parameters[job["param"]].annotation
                if isinstance(ann, type) and issubclass(ann, enum.Enum):
                    args = [(m.name, m) for m in ann]
                else:
                    args = [(repr(a), a) for a in typing.get_args(ann)]
                client_mod = importlib.import_module(pkg + ".client")
                calls = []
                for nm, a in args:
                    seen = {}

                    def handler(request, seen=seen):
                        seen["raw_path"] = request.url.raw_path.decode("ascii", "replace")
                        seen["query"] = [[k, v] for k, v in request.url.params.multi_items()]
                        seen["headers"] = {k: v for k, v in request.headers.items()}
                        return httpx.Response(200, json={})
                    rec = {"name": nm, "value": enc(a.value if isinstance(a, enum.Enum) else a), "str": str(a), "format": format(a), "fstr": f"{a}"}
                    try:
                        cl = client_mod.Client(base_url="http://t.example", httpx_args={"transport": httpx.MockTransport(handler)})
                        fn(client=cl, **{job["param"]: a})
                        rec["sent"] = {"path": unquote(seen.get("raw_path", "").split("?")[0]), "query": seen.get("query"), "headers": seen.get("headers")}
                    except BaseException as e:  # noqa
                        rec["error"] = type(e).__name__ + ": " + str(e)[:200]
                    calls.append(rec)
                res["calls"] = calls
            elif job["what"] == "endpoint":
                enums = {}
                for n, o in vars(mod).items():
                    if isinstance(o, type) and issubclass(o, enum.Enum) and o.__module__.startswith(pkg):
                        enums[n] = {"members": [[k, enc(m.value)] for k, m in o.__members__.items()], "canonical": [m.name for m in o]}
                res["enums"] = enums
                fn = getattr(mod, job.get("fn", "sync_detailed"))
                sig = inspect.signature(fn)
                res["defaults"] = {n: enc(p.default) for n, p in sig.parameters.items()}
                gk = getattr(mod, "_get_kwargs")
                try:
                    kw = gk()
                    res["kwargs"] = enc({k: kw.get(k) for k in ("params", "headers", "cookies") if k in kw})
                except BaseException as e:  # noqa
                    res["kwargs_error"] = type(e).__name__ + ": " + str(e)[:200]
        except BaseException as e:  # noqa
            res["runner_error"] = type(e).__name__ + ": " + str(e)[:300] + traceback.format_exc()[-600:]
        out.append(res)
    print("\n@@RESULT@@\n" + json.dumps(out))


main()
