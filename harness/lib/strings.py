"""String generators shared by the name/literal properties. Every choice comes from the rng passed in."""
import keyword, builtins, re

ORD = list("abcdefgxyzABCXYZ0129") + ["_", "-", ".", " "]
HOSTILE = list("abXY09_-. /$@!#%&*()+=[]{}|;:,<>?~`^") + ["'", '"', "\\", "\n", "\t", "é", "É", "ß", "²", "½", "Σ", "ς", "ǅ", "ﬁ", "İ", "ı", "中", "١", "ͺ", "ª", "µ", "̇", "‍", "€", "\x00", "\x7f", " "]
SOFT_KW = ["match", "case", "type", "_"]

def sp(c):
    return not (0xD800 <= c <= 0xDFFF)

def rand_str(rng, alphabet=None, maxlen=8):
    n = rng.randint(0, maxlen)
    if alphabet is None:
        out = []
        for _ in range(n):
            c = rng.choice([rng.randint(0, 0x2FF), rng.randint(0x300, 0xFFFF), rng.randint(0x10000, 0x10FFFF)])
            if sp(c):
                out.append(chr(c))
        return "".join(out)
    return "".join(rng.choice(alphabet) for _ in range(n))

def special_names():
    out = ["", "_", "__", "-", ".", " ", "_a", "a_", "1", "1a", "a1", "A", "AB", "aB", "Ab", "ABc", "ABcD", "aBC", "a b", "a-b", "a_b", "a.b", "A-B",
           "HTTPResponse", "getHTTPResponse2XX", "self", "true", "false", "datetime", "id", "client", "url", "None", "True", "class", "def", "import"]
    for k in list(keyword.kwlist) + SOFT_KW + [b for b in dir(builtins)][::6]:
        out += [k, k.upper(), k.capitalize(), k + "_", "_" + k, k + "-", k.title() + " x"]
    return out

def boundary_codepoints():
    """Every code point at which one of the character predicates / case maps used by the name functions changes value,
    computed from the running interpreter (not from the model's tables)."""
    W = re.compile(r"\w")
    preds = [lambda ch: bool(W.fullmatch(ch)), str.isupper, str.islower, str.istitle, str.isalpha, str.isidentifier,
             lambda ch: ("a" + ch).isidentifier(), str.isprintable,
             lambda ch: ch.lower() != ch, lambda ch: ch.upper() != ch, lambda ch: ch.title() != ch]
    pts = set()
    prev = None
    for c in range(0x110000):
        if not sp(c):
            prev = None
            continue
        ch = chr(c)
        sig = tuple(bool(p(ch)) for p in preds)
        if sig != prev:
            pts.add(c)
            if c > 0 and sp(c - 1):
                pts.add(c - 1)
        prev = sig
        if sig[8] and len(ch.lower()) != 1 or sig[9] and len(ch.upper()) != 1 or sig[10] and len(ch.title()) != 1:
            pts.add(c)
    return sorted(pts)
