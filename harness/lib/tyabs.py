"""Type-annotation strings emitted by the generator -> the `ty` terms of coq/Types.v (trusted parser, checked by the correspondence)."""
import ast
from lib.absprop import cjson

BASE = {"Any": "TyAny", "None": "TyNone", "Unset": "TyUnset", "bool": "TyBool", "int": "TyInt", "float": "TyFloat", "str": "TyStr", "UUID": "TyUuid", "File": "TyFile"}


def cty(s: str, ab) -> str:
    node = ast.parse(s.strip(), mode="eval").body
    return _cty(node, ab)


def _lit_alias(name, ab):
    for e in ab.enums:
        if str(e.class_info.name) == name and type(e).__name__ == "LiteralEnumProperty":
            return "(TyLit [" + "; ".join(cjson(v) for v in sorted(e.values)) + "])"
    return None


def _cty(n, ab) -> str:
    if isinstance(n, ast.Constant):
        if n.value is None:
            return "TyNone"
        if isinstance(n.value, str):       # quoted forward reference
            return _cty(ast.parse(n.value, mode="eval").body, ab)
        raise ValueError("unexpected constant in type: %r" % (n.value,))
    if isinstance(n, ast.Name):
        if n.id in BASE:
            return BASE[n.id]
        lit = _lit_alias(n.id, ab)
        if lit:
            return lit
        if n.id in ab.cls_id:
            return f"(TyClass {ab.cls_id[n.id]}%N)"
        raise ValueError("unknown type name " + n.id)
    if isinstance(n, ast.Attribute):
        t = ast.unparse(n)
        if t == "datetime.date":
            return "TyDate"
        if t == "datetime.datetime":
            return "TyDateTime"
        raise ValueError("unknown dotted type " + t)
    if isinstance(n, ast.Subscript):
        head = ast.unparse(n.value)
        args = n.slice.elts if isinstance(n.slice, ast.Tuple) else [n.slice]
        if head == "Union":
            return "(TyUnion [" + "; ".join(_cty(a, ab) for a in args) + "])"
        if head == "Optional":
            return "(TyUnion [TyNone; " + _cty(args[0], ab) + "])"
        if head == "list":
            return "(TyList " + _cty(args[0], ab) + ")"
        if head == "Literal":
            return "(TyLit [" + "; ".join(cjson(ast.literal_eval(a)) for a in args) + "])"
        if head == "dict":
            return "TyAny"
        raise ValueError("unknown generic " + head)
    raise ValueError("unparseable type expression " + ast.dump(n)[:80])
