"""Running the implementation under /repo: parse, generate into a scratch dir, execute generated clients in a fresh subprocess."""
from __future__ import annotations
import contextlib, io, json, os, shutil, subprocess, sys, tempfile, time
from pathlib import Path

sys.path.insert(0, os.environ.get("OPC_REPO", "/repo"))
PY = "/venv/bin/python"


def base_doc(**kw):
    d = {"openapi": "3.1.0", "info": {"title": "t", "version": "1"}, "paths": {}}
    d.update(kw)
    return d


def make_config(doc_path, out, meta="none", cfg=None, overwrite=False):
    from openapi_python_client.config import Config, ConfigFile, MetaType
    c = dict(cfg or {})
    c.setdefault("post_hooks", [])
    cf = ConfigFile(**c)
    return Config.from_sources(cf, MetaType(meta), doc_path, "utf-8", overwrite, output_path=out)


def parse_doc(doc, cfg=None):
    """In-process parse only: returns (GeneratorData | GeneratorError, config)."""
    from openapi_python_client.parser import GeneratorData
    d = Path(tempfile.mkdtemp(prefix="opc_p_"))
    try:
        config = make_config(d / "doc.json", d / "out", cfg=cfg)
        with contextlib.redirect_stdout(io.StringIO()):
            return GeneratorData.from_dict(doc, config=config), config
    finally:
        shutil.rmtree(d, ignore_errors=True)


class Gen:
    """A generated client in a scratch directory (removed on close)."""
    def __init__(self, doc, meta="none", cfg=None, raw_text=None, suffix=".json", overwrite=False, root=None, outname="out"):
        from openapi_python_client import generate
        self.root = Path(root) if root else Path(tempfile.mkdtemp(prefix="opc_g_"))
        self._own = root is None
        p = self.root / ("doc" + suffix)
        p.write_text(raw_text if raw_text is not None else json.dumps(doc), encoding="utf-8")
        self.out = self.root / outname
        self.config = make_config(p, self.out, meta=meta, cfg=cfg, overwrite=overwrite)
        self.exc = None
        self.errors = []
        t = time.time()
        try:
            with contextlib.redirect_stdout(io.StringIO()):
                self.errors = list(generate(config=self.config))
        except BaseException as e:  # noqa
            self.exc = e
        self.dt = time.time() - t

    def files(self):
        out = {}
        if self.out.exists():
            for f in sorted(self.out.rglob("*")):
                if f.is_file():
                    out[str(f.relative_to(self.out))] = f.read_bytes()
        return out

    def diag(self):
        """Diagnostics as (level, header, detail) triples."""
        return [(str(getattr(e.level, "name", e.level)), e.header, e.detail) for e in self.errors]

    def has_error_level(self):
        return any(l == "ERROR" for l, _, _ in self.diag())

    def close(self):
        if self._own:
            shutil.rmtree(self.root, ignore_errors=True)

    def __enter__(self):
        return self

    def __exit__(self, *a):
        self.close()


RUNNER = str(Path(__file__).resolve().parent / "client_runner.py")


def run_client(out_dir: Path, ops: list, timeout=120):
    """Execute operations against a generated package in a fresh interpreter. Returns list of results (or raises)."""
    pkg_parent = str(out_dir.parent)
    pkg = out_dir.name
    inp = json.dumps({"pkg_parent": pkg_parent, "pkg": pkg, "ops": ops})
    env = {k: v for k, v in os.environ.items() if k not in ("PYTHONPATH",)}
    env["PYTHONHASHSEED"] = "0"
    r = subprocess.run([PY, "-I", RUNNER], input=inp, capture_output=True, text=True, timeout=timeout, env=env)
    if r.returncode != 0:
        return {"fatal": (r.stderr or r.stdout)[-3000:]}
    try:
        return json.loads(r.stdout.split("\n@@RESULT@@\n", 1)[1])
    except Exception:
        return {"fatal": "unparseable runner output: " + r.stdout[-2000:] + r.stderr[-1000:]}
