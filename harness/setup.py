#!/venv/bin/python
"""MANIFEST.setup_cmd: regenerate facts from /repo, full Coq build, forbidden-command scan."""
import os, re, subprocess, sys
os.environ["PYTHONPATH"] = os.environ.get("OPC_REPO", "/repo")
sys.path.insert(0, os.path.dirname(os.path.abspath(__file__)))
from lib.common import build, COQ

bad = []
for p in sorted(COQ.rglob("*.v")):
    if "/gen/" in str(p):
        continue
    txt = re.sub(r"\(\*.*?\*\)", "", p.read_text(encoding="utf-8"), flags=re.S)
    for pat in [r"\bAdmitted\b", r"\badmit\b", r"^\s*Axiom\b", r"^\s*Parameter\b", r"^\s*Conjecture\b", r"Unset Guard", r"bypass_check", r"Admit Obligations", r"-type-in-type"]:
        if re.search(pat, txt, re.M):
            bad.append((str(p), pat))
if bad:
    print("FORBIDDEN:", bad)
    sys.exit(1)
b = build()
if not b.ok:
    print(b.log[-3000:])
    sys.exit(1)
print("setup ok")
