"""C04 — responses are decoded per documented status and media type.
Stage B: generated _parse_response on canned httpx.Response objects vs Endpoint.parse (vm_compute). Stage C: the four call
variants behind httpx.MockTransport vs an expectation computed from the DOCUMENT (status -> media type -> schema)."""
import json, random, concurrent.futures as cf
from lib.common import cstr, run_cases, coq_eval
from lib import impl, absprop, epwork
from gen import ops as OPS
from gen import schemas as G
from props.c03 import doc_operation

HDR_BASE = ("Require Import OPC.gen.GenKinds OPC.Uni OPC.Names OPC.Codec OPC.CodecObs OPC.Types OPC.Endpoint OPC.EndpointObs OPC.Parse.\nOpen Scope N_scope.\nOpen Scope Z_scope.\n"
            "Definition rsource_eqb (a b : rsource) : bool := match a, b with SJson, SJson | SBytes, SBytes | SText, SText | SNone, SNone => true | _, _ => false end.\n"
            "Definition rplan_eqb (a b : rplan) : bool := match a, b with RError, RError | RNoContent, RNoContent => true | RParsed x, RParsed y => rsource_eqb x y | _, _ => false end.\n")
UNDOC = [508, 226, 299, 600]       # valid-but-undocumented, and codes outside http.HTTPStatus


def latin(b: bytes) -> str:
    return b.decode("latin-1")


def canned_for(ab, inst, r, rng):
    """response bodies to try for a documented response: (content bytes, content-type header)"""
    src = r.source["attribute"] if isinstance(r.source, dict) else r.source.attribute
    out = []
    if src == "response.json()":
        k = ab.kind(r.prop)
        for _ in range(2):
            out.append((json.dumps(inst.valid(k, 0, True)).encode(), "application/json"))
        out.append((json.dumps(inst.mutate(k, inst.valid(k, 0, True))).encode(), "application/json"))
        out.append((b"not json", "application/json"))
    elif src == "response.text":
        out.append(("plain té xt".encode(), "text/plain; charset=utf-8"))
        out.append((b"", "text/plain"))
    elif src == "response.content":
        out.append((b"\x00\x01binary\xff", "application/octet-stream"))
    else:
        out.append((b"", None))
        out.append((b"ignored body", "text/plain"))
    return out


def chresp(status, content: bytes, text: str):
    try:
        j = json.loads(content)
        cj = "(Some " + absprop.cjson(j) + ")"
    except Exception:
        cj = "None"
    return f"{{| h_status := ({status})%Z; h_json := {cj}; h_text := {cstr(text)}; h_bytes := {cstr(latin(content))} |}}"


def work(args):
    label, doc, seed, cfg = args
    rng = random.Random(seed)
    out = {"label": label, "doc": doc, "cfg": cfg, "cases": [], "error": None, "skipped": []}
    try:
        with impl.Gen(doc, cfg=cfg) as g:
            if g.exc is not None:
                out["error"] = "generate raised " + repr(g.exc)
                return out
            data, config = impl.parse_doc(doc, cfg=cfg)
            ab = absprop.Abs(data)
            inst = G.Inst(ab, rng)
            out["ctable"] = ab.ctable()
            ops, meta = [], []
            strings = set()
            for module, tag, ep in epwork.endpoints_of(data, config):
                if epwork.non_identifier_params(ep):
                    out["skipped"].append((ep.name, "raw_fallback (C09 finding): module does not compile"))
                    continue
                try:
                    cep = epwork.cendpoint(ab, ep)
                except Exception as e:
                    out["skipped"].append((ep.name, repr(e)))
                    continue
                vecs = epwork.arg_vectors(ab, ep, rng, 1)
                if not vecs:
                    out["skipped"].append((ep.name, "no argument vector"))
                    continue
                kwargs = {k: OPS.to_marker(v) for k, v in vecs[0].items()}
                trials = []
                for r in ep.responses:
                    for content, ct in canned_for(ab, inst, r, rng):
                        trials.append((int(r.status_code), content, ct))
                # statuses the DOCUMENT declares but the parse dropped must be exercised too (the document, not the parse, is the reference)
                found = doc_operation(doc, ep)
                if found:
                    for code in (found[2].get("responses") or {}):
                        try:
                            st = int(code)
                        except ValueError:
                            continue
                        if st not in [int(r.status_code) for r in ep.responses]:
                            trials.append((st, b"", None))
                            trials.append((st, b'{"x": 1}', "application/json"))
                for st in UNDOC:
                    if st not in [int(r.status_code) for r in ep.responses]:
                        trials.append((st, b'{"x": 1}', "application/json"))
                und = next((st for st in (502, 508, 418) if st not in [int(r.status_code) for r in ep.responses]), None)
                if und is not None:
                    trials.append((und, b"\x1f\x8b\x08\x00\xff\xfe upstream d\xe9faillance", "application/octet-stream"))   # not UTF-8
                    trials.append((und, b"", None))
                for (st, content, ct) in trials:
                    for flag in (False, True):
                        rsp = {"status": st, "content_hex": content.hex(), "headers": ({"content-type": ct, "x-custom": "kept"} if ct else {"x-custom": "kept"})}
                        ops.append({"op": "parse", "module": module, "response": rsp, "raise_on_unexpected_status": flag})
                        variant = rng.choice(["sync_detailed", "asyncio_detailed", "sync", "asyncio"])
                        ops.append({"op": "call", "module": module, "variant": "sync_detailed", "kwargs": kwargs, "auth": bool(ep.requires_security), "response": rsp, "raise_on_unexpected_status": flag})
                        ops.append({"op": "call", "module": module, "variant": "asyncio_detailed", "kwargs": kwargs, "auth": bool(ep.requires_security), "response": rsp, "raise_on_unexpected_status": flag})
                        try:
                            absprop.strings_in(json.loads(content), strings)
                        except Exception:
                            pass
                        meta.append((module, ep, cep, st, content, ct, flag))
            # document-level response plans: what response_from_data decided vs Parse.response_plan
            from openapi_python_client.utils import get_content_type
            plans = []
            for module, tag, ep in epwork.endpoints_of(data, config):
                found = doc_operation(doc, ep)
                if not found:
                    continue
                for code, rd in (found[2].get("responses") or {}).items():
                    try:
                        st = int(code)
                    except ValueError:
                        continue
                    rr = resolve_response(doc, rd)
                    if rr is None:
                        continue
                    content = []
                    for ct, mt in (rr.get("content") or {}).items():
                        simp = get_content_type(ct, config)
                        content.append((simp, "schema" in mt))
                    got = next((r for r in ep.responses if int(r.status_code) == st), None)
                    if got is None:
                        obs = "RError"
                    else:
                        src = got.source["attribute"] if isinstance(got.source, dict) else got.source.attribute
                        obs = "RNoContent" if src == "None" else "(RParsed %s)" % epwork.SRC[src]
                    cl = "[" + "; ".join("(%s, %s)" % ("None" if c is None else "(Some %s)" % cstr(c), "true" if h else "false") for c, h in content) + "]"
                    plans.append({"op": ep.name, "status": st, "content": [[c, h] for c, h in content], "obs": obs, "term": f"rplan_eqb (response_plan {cl}) {obs}"})
            out["plans"] = plans
            res = impl.run_client(g.out, ops, timeout=900) if ops else []
            if isinstance(res, dict):
                out["error"] = "runner: " + res.get("fatal", "")[:1500]
                return out
            for i, (module, ep, cep, st, content, ct, flag) in enumerate(meta):
                rp, rs, ra = res[3 * i], res[3 * i + 1], res[3 * i + 2]
                text = content.decode("utf-8", "replace")
                case = {"module": module, "op": ep.name, "status": st, "content": latin(content), "ctype": ct, "flag": flag, "parse": rp, "sync": rs, "async": ra,
                        "cep": cep, "h": chresp(st, content, text)}
                try:
                    if "exc" in rp:
                        case["obs"] = "PRaiseUnexpected" if rp["exc"]["type"] == "UnexpectedStatus" else "PRaiseOther"
                    elif rp["parsed"]["t"] == "j" and rp["parsed"]["v"] is None and rp.get("parsed_cls") == "NoneType":
                        case["obs"] = "NONE?"       # None is either 'no parsed value' or a decoded JSON null: decided below
                        case["obs_none"] = True
                    elif rp["parsed"]["t"] == "file":
                        case["obs"] = f"(PVal (Some (PJ (JStr {cstr(latin(bytes.fromhex(rp['parsed']['v'])))}))))"
                    else:
                        case["obs"] = "(PVal (Some " + ab.cpv(rp["parsed"]) + "))"
                except Exception as e:
                    case["unrepresentable"] = repr(e)
                case["expect"] = expectation(doc, ep, st, content, (cfg or {}).get("content_type_overrides"))
                out["cases"].append(case)
            out["oracles"] = absprop.oracle_terms(strings)
    except BaseException as e:  # noqa
        import traceback
        out["error"] = "harness worker: " + repr(e) + traceback.format_exc()[-1200:]
    return out


def resolve_response(doc, r):
    if "$ref" in r:
        name = r["$ref"].rsplit("/", 1)[1]
        return doc.get("components", {}).get("responses", {}).get(name)
    return r


def expectation(doc, ep, status, content, overrides=None):
    """from the DOCUMENT: ('undocumented',) | ('none',) | ('json', schema) | ('text',) | ('bytes',) | None (no claim)"""
    found = doc_operation(doc, ep)
    if not found:
        return None
    _, _, o, _ = found
    docd = {}
    for code, r in o.get("responses", {}).items():
        try:
            docd.setdefault(int(code), resolve_response(doc, r))
        except ValueError:
            pass
    if status not in docd:
        return ("undocumented",)
    r = docd[status]
    if r is None:
        return None
    cont = r.get("content") or {}
    if not cont:
        return ("none",)
    for ct, mt in cont.items():
        base = (overrides or {}).get(ct, ct).split(";")[0].strip()      # content_type_overrides is keyed by the document's exact media-type string
        if base.startswith("text/"):
            return ("text",) if "schema" in mt else ("none",)
        if base == "application/json" or base.endswith("+json"):
            return ("json", mt.get("schema")) if "schema" in mt else ("none",)
        if base == "application/octet-stream":
            return ("bytes",) if "schema" in mt else ("none",)
    return None


def check_result(case, which, all_any):
    """discrepancies between what a call variant returned and the document"""
    exp = case["expect"]
    call = case[which]
    bad = []
    content = case["content"].encode("latin-1")
    if exp is None:
        return bad
    if "exc" in call and not call.get("requests"):
        return bad          # the request itself could not be built (C03's business: cookie/header value defects): no claim about decoding
    if exp[0] == "undocumented":
        if case["flag"]:
            if (call.get("exc") or {}).get("type") != "UnexpectedStatus":
                bad.append(f"undocumented status {case['status']} with raise_on_unexpected_status: expected UnexpectedStatus, got {json.dumps(call.get('exc') or call.get('result'))[:160]}")
            elif call.get("exc_attrs", {}).get("status_code") != case["status"] or call.get("exc_attrs", {}).get("content_hex") != content.hex():
                bad.append("UnexpectedStatus does not carry the raw status and content")
        else:
            if "exc" in call:
                bad.append(f"undocumented status {case['status']}: raised {call['exc']['type']}: {call['exc']['msg'][:80]}")
            elif call["result"].get("parsed_cls") != "NoneType":
                bad.append(f"undocumented status {case['status']}: parsed value {call['result'].get('parsed_json')!r} instead of None")
        return bad
    if "exc" in call:
        try:
            json.loads(content)
            decodable = True
        except Exception:
            decodable = False
        if exp[0] == "json" and not decodable:
            return bad            # a documented JSON response whose body is not JSON: no claim
        if exp[0] == "json" and case.get("mutant"):
            return bad
        bad.append(f"documented status {case['status']}: raised {call['exc']['type']}: {call['exc']['msg'][:100]}")
        return bad
    res = call["result"]
    if "status" in res:
        if res["status"] != case["status"] or res["content_hex"] != content.hex():
            bad.append("Response wrapper does not carry status/content verbatim")
        hd = {k.lower(): v for k, v in res["headers"]}
        if hd.get("x-custom") != "kept":
            bad.append("Response wrapper lost a header")
    if all_any:
        if res.get("parsed_cls") != "NoneType":
            bad.append("operation without any typed response returned a parsed value")
        return bad
    if exp[0] == "none":
        if res.get("parsed_cls") != "NoneType":
            bad.append(f"no-content response parsed as {res.get('parsed_json')!r}")
    elif exp[0] == "text":
        if res.get("parsed_json") != content.decode("utf-8", "replace"):
            bad.append(f"text response parsed as {res.get('parsed_json')!r}")
    elif exp[0] == "bytes":
        pj = res.get("parsed_json")
        if not (isinstance(pj, dict) and pj.get("@file") == content.hex()):
            bad.append(f"binary response parsed as {str(pj)[:80]!r}")
    elif exp[0] == "json":
        try:
            body = json.loads(content)
        except Exception:
            return bad
        try:
            got = absprop.from_jsonable(res.get("parsed_json"))
        except ValueError:
            got = "<non-json>"
        if case.get("valid_body") and got != body:
            bad.append(f"JSON response {json.dumps(body)[:100]} parsed to something that re-encodes as {json.dumps(got)[:100]}")
    return bad



# ------------------------------------------------------------------ response-map keys (Status.v)
STATUS_HDR = "Require Import OPC.Uni OPC.gen.GenStatus OPC.Status.\nFrom Coq Require Import NArith ZArith List. Import ListNotations. Open Scope N_scope.\n"
KEY_POOL = ["200", "201", "404", "418", "451", "500", "511", "default", "2XX", "4xx", "5XX", "299", "600", "99", "1000", "0200", " 200", "200 ", "\t404\n", "+200", "-200", "2_00", "2__00", "_200",
            "200_", "2 00", "20O", "0x1f4", "2e2", "200.0", "", " ", "+", "٢٠٠", "２００", "200\u00a0", "\u2003404", "1_0_0", "00000204", "4O4", "4\u00d74"]


def status_keys(run, tier):
    rng = random.Random(run.rng.randrange(1 << 30))
    keys = list(KEY_POOL)
    for _ in range(40 if tier == "quick" else 600):
        alphabet = "0123456789" * 3 + "_+- \tXx"
        keys.append("".join(rng.choice(alphabet) for _ in range(rng.randint(1, 5))))
    keys = list(dict.fromkeys(keys))
    paths = {}
    for i, k in enumerate(keys):
        paths[f"/k{i}"] = {"get": OPS.op(f"key_op_{i}", responses={k: {"description": "d"}})}
    doc = OPS.doc(paths)
    data, config = impl.parse_doc(doc)
    if not hasattr(data, "endpoint_collections_by_tag"):
        run.violation("harness-or-generator", {"label": "status-keys", "error": repr(data)[:600], "doc": doc})
        return 0, 0
    seen = {}
    for col in data.endpoint_collections_by_tag.values():
        for ep in col.endpoints:
            seen[ep.name] = ("ok", [int(r.status_code) for r in ep.responses], [str(e.detail) for e in ep.errors])
        for e in col.parse_errors:
            pass
    terms, meta = [], []
    for i, k in enumerate(keys):
        got = seen.get(f"key_op_{i}")
        if got is None:
            obs = None      # the whole operation was dropped: not what the model describes
        else:
            _, sts, errs = got
            obs = ("status", sts[0]) if len(sts) == 1 else ("rejected", errs) if not sts else ("several", sts)
        run.note_case({"response_key": k, "observed": obs}, nontrivial=True, kind="status-key")
        if obs is None or obs[0] == "several":
            run.violation("oracle", {"label": "status-keys", "doc": {"openapi": "3.1.0", "info": doc["info"], "paths": {f"/k{i}": paths[f"/k{i}"]}}, "key": k, "observed": obs,
                                     "note": "an operation whose only peculiarity is its response-map key was dropped / produced several statuses"})
            continue
        if obs[0] == "rejected" and not any(k in e for e in obs[1]):
            run.violation("oracle", {"label": "status-keys", "doc": {"openapi": "3.1.0", "info": doc["info"], "paths": {f"/k{i}": paths[f"/k{i}"]}}, "key": k, "diagnostics": obs[1],
                                     "note": "a response-map key that is not a status was omitted without a diagnostic naming it"})
        cobs = f"(KStatus {obs[1]}%Z)" if obs[0] == "status" else "KRejected"
        terms.append(f"match status_of_key {cstr(k)} with KOutOfModel => true | r => keyres_eqb r {cobs} end")
        meta.append((k, obs))
    bad = run_cases(STATUS_HDR, terms, shard=400) if terms else []
    for i in bad[:6]:
        k, obs = meta[i]
        run.violation("correspondence", {"label": "status-keys", "key": k, "impl": obs, "model": coq_eval(STATUS_HDR, f"status_of_key {cstr(k)}")[-200:],
                                         "doc": {"openapi": "3.1.0", "info": doc["info"], "paths": {"/k": {"get": OPS.op("key_op", responses={k: {"description": "d"}})}}},
                                         "note": "Endpoint._add_responses no longer treats this response-map key like Status.status_of_key"})
    run.extra["status_keys_compared"] = len(terms)
    return len(terms), len(bad)


def run(run, tier, replay=None):
    rng = run.rng
    docs = [(l, d, None) for l, d in OPS.atlas_response_docs()] + [(l, d, None) for l, d in OPS.atlas_body_docs()] + OPS.atlas_override_docs()
    nrand = 5 if tier == "quick" else 50
    for i in range(nrand):
        docs.append((f"rand{i}", OPS.random_doc(random.Random(rng.randrange(1 << 30)), n_ops=rng.randint(4, 8)), None))
    if replay:
        rp = json.load(open(replay))
        docs = [(v.get("label", "replay"), v["doc"], v.get("cfg")) for v in rp["violations"] if "doc" in v][:5]
    run.rule = ("documents: atlas of response maps (JSON model / array / enum / integer / date / nullable / union of models, +json suffix, text/*, octet-stream, no content, "
                "$ref'd component responses, first-supported-media-type, all-Any responses) + random operations; per operation: every documented status x canned "
                "bodies (schema-valid JSON, near-valid JSON, non-JSON, text, bytes, empty) and undocumented statuses (incl. codes outside http.HTTPStatus) x both "
                "raise_on_unexpected_status settings. A case = one (operation, status, body, flag): _parse_response compared with the Coq model, and sync_detailed / "
                "asyncio_detailed behind httpx.MockTransport compared with the document; non-trivial = documented status with a schema; distinct by hash.")
    jobs = [(l, d, rng.randrange(1 << 30), cfg) for l, d, cfg in docs]
    with cf.ProcessPoolExecutor(max_workers=14) as ex:
        results = list(ex.map(work, jobs))
    hdr = HDR_BASE
    terms, meta = [], []
    for di, r in enumerate(results):
        if r["error"]:
            run.violation("harness-or-generator", {"label": r["label"], "error": r["error"], "doc": r["doc"], "cfg": r.get("cfg")})
            continue
        hdr += f"Definition T{di} : ctable := {r['ctable']}.\nDefinition O{di} : oracles := {r['oracles']}.\n"
        for c in r["cases"]:
            nontriv = c["expect"] is not None and c["expect"][0] in ("json", "text", "bytes")
            run.note_case({"doc": r["label"], "op": c["op"], "status": c["status"], "body": c["content"][:80], "flag": c["flag"]}, nontrivial=nontriv,
                          kind=(c["expect"][0] if c["expect"] else "no-claim"))
            if "unrepresentable" in c:
                run.violation("correspondence", {"label": r["label"], "doc": r["doc"], "cfg": r.get("cfg"), "op": c["op"], "status": c["status"], "body": c["content"], "impl": c["parse"],
                                                 "note": "generated _parse_response produced something the model cannot represent: " + c["unrepresentable"]})
                continue
            flag = "true" if c["flag"] else "false"
            if c.get("obs_none"):
                # Python None: either PVal None or a decoded JSON null
                terms.append(f"(parse_case O{di} T{di} {c['cep']} {flag} {c['h']} (PVal None) || parse_case O{di} T{di} {c['cep']} {flag} {c['h']} (PVal (Some (PJ JNull))))")
            else:
                terms.append(f"parse_case O{di} T{di} {c['cep']} {flag} {c['h']} {c['obs']}")
            meta.append((di, c))
    pterms, pmeta = [], []
    for di, r in enumerate(results):
        for pl in (r.get("plans") or []):
            pterms.append(pl["term"]); pmeta.append((di, pl))
            run.note_case({"doc": r["label"], "op": pl["op"], "status": pl["status"], "content": pl["content"]}, kind="response-plan")
    pbad = run_cases(hdr, pterms, shard=400)
    for i in pbad[:6]:
        di, pl = pmeta[i]
        run.violation("correspondence", {"label": results[di]["label"], "doc": results[di]["doc"], "op": pl["op"], "status": pl["status"], "content": pl["content"], "impl": pl["obs"],
                                         "model": coq_eval(hdr, pl["term"].split("(response_plan", 1)[1].rsplit(")", 1)[0].join(["response_plan ", ""]))[-200:] if False else "see Parse.response_plan",
                                         "note": "response_from_data's decision (parsed source / no content / rejected) differs from Parse.response_plan, for which 'first supported media type wins, empty content is no content' is proved"})
    bad = set(run_cases(hdr, terms, shard=250))
    run.extra["response_plans_compared"] = len(pterms)
    run.corr = {"cases": len(terms) + len(pterms), "mismatches": len(bad) + len(pbad), "what": "response_from_data decisions == Parse.response_plan; generated _parse_response(client, response) (parsed value / None / UnexpectedStatus / other exception) == Endpoint.parse on the endpoint abstracted from the implementation's parse"}
    if not replay or any(v.get("label") == "status-keys" for v in rp["violations"]):
        sk = status_keys(run, tier)
        run.corr["cases"] += sk[0]; run.corr["mismatches"] += sk[1]
        run.corr["what"] += "; response-map keys through Endpoint._add_responses == Status.status_of_key"
    for i in sorted(bad)[:8]:
        di, c = meta[i]
        mv = coq_eval(hdr, f"parse O{di} T{di} 40 {c['cep']} {'true' if c['flag'] else 'false'} {c['h']}")
        run.violation("correspondence", {"label": results[di]["label"], "doc": results[di]["doc"], "op": c["op"], "status": c["status"], "body": c["content"], "flag": c["flag"],
                                         "impl": c["parse"], "model": mv[-700:], "note": "generated _parse_response no longer behaves like Endpoint.v"})
    # which bodies are schema-valid (Coq `valid` on the documented response kind)? ask the model: parse result typed + round trip is C02's business; here use python: first two canned JSON bodies are valid by construction
    for di, r in enumerate(results):
        if r["error"]:
            continue
        seen = {}
        for c in r["cases"]:
            key = (c["op"], c["status"])
            seen[key] = seen.get(key, 0) + (1 if c["flag"] is False else 0)
            idx = seen[key] if c["flag"] is False else seen[key]
            c["valid_body"] = idx <= 2
            c["mutant"] = idx == 3
    n = 0
    for i, (di, c) in enumerate(meta):
        ep_all_any = None
        for which in ("sync", "async"):
            n += 1
            # all-Any operations return None for everything: decide from the document: every documented response has no schema or {} schema
            found_all_any = c["cep"].count("rs_kind := KAny") == c["cep"].count("rs_kind :=") and "rs_kind" in c["cep"]
            probs = check_result(c, which, found_all_any)
            if probs:
                import http
                outside = c["status"] not in [int(x) for x in http.HTTPStatus]
                if outside and (c[which].get("exc") or {}).get("type") == "ValueError" and "is not a valid HTTPStatus" in (c[which].get("exc") or {}).get("msg", "") and run.known_finding("status_outside_httpstatus", f"operation {c['op']}: status {c['status']}: {probs[0][:160]}"):
                    continue
                run.violation("oracle", {"label": results[di]["label"], "doc": results[di]["doc"], "op": c["op"], "status": c["status"], "body": c["content"], "flag": c["flag"],
                                         "variant": which, "problems": probs[:4], "impl": c[which], "note": "decoded response differs from what the document declares"})
        rs, ra = c["sync"], c["async"]
        key = lambda x: json.dumps({k: v for k, v in x.items() if k != "requests"}, sort_keys=True).replace("asyncio_detailed", "X").replace("sync_detailed", "X")
        a, b = dict(rs), dict(ra)
        for z in (a, b):
            if "exc" in z:
                z["exc"] = {k: v for k, v in z["exc"].items() if k != "tb"}
        request_side = any("exc" in z and not z.get("requests") for z in (rs, ra))
        if not request_side and key(a) != key(b):
            run.violation("oracle", {"label": results[di]["label"], "doc": results[di]["doc"], "op": c["op"], "status": c["status"], "sync": rs, "asyncio": ra,
                                     "note": "blocking and asyncio variants decoded the same response differently"})
    run.extra["variant_results_checked_against_document"] = n
    run.assumptions += ["abstraction harness/lib/epwork.py + absprop.py", "harness/lib/client_runner.py (builds canned httpx.Response objects, serialises parsed values)",
                        "httpx's own response.json()/text/content are oracles (h_json/h_text/h_bytes supplied per case)", "a File value is identified with its payload bytes"]
