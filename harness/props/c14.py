"""C14 — enumerations and constants admit exactly the declared values.
Stage B: hostile value lists through the real EnumProperty.values_from_list / EnumProperty.build / LiteralEnumProperty.build vs
Values.values_from_list / Enums.enum_build (evaluated in Coq); generated enum classes / Literal sets / const checks, imported in a
fresh subprocess, vs Enums.str_enum_class / int_enum_class / literal_values / enum_decode / nullable_enum_decode / const_accepts.
Stage C: the property's own predicate on the generated classes: members == declared values, decode listed -> member, encode ->
same value, unlisted raises, null -> nullable and not a member, const accepts only its constant. Failures are classified by the
Coq guards of EnumsThm (g_enum_sanitised_distinct, g_no_bs_nl, nullable, numeric alias, const dq)."""
import json, math, os, subprocess, unicodedata
from concurrent.futures import ThreadPoolExecutor
from pathlib import Path
from lib.common import cstr, cZ, cbool, clist, copt, run_cases, coq_eval, PY
from lib import impl, vals
from lib import strings as S

HDR = r"""Require Import OPC.gen.GenTables OPC.Uni OPC.Names OPC.PyLit OPC.Values OPC.PyEval OPC.ValuesThm OPC.Enums OPC.EnumsThm.
Open Scope N_scope.
Fixpoint members_eqb (a b : list (str * evalue)) : bool :=
  match a, b with
  | [], [] => true
  | (k, v) :: a', (k', v') :: b' => str_eqb k k' && evalue_eqb v v' && members_eqb a' b'
  | _, _ => false
  end.
Definition omembers_eqb (a b : option (list (str * evalue))) : bool :=
  match a, b with Some x, Some y => members_eqb x y | None, None => true | _, _ => false end.
Fixpoint cls_eqb (a b : list (str * jval)) : bool :=
  match a, b with
  | [], [] => true
  | (k, v) :: a', (k', v') :: b' => str_eqb k k' && jval_eqb v v' && cls_eqb a' b'
  | _, _ => false
  end.
Definition ocls_eqb (a b : option (list (str * jval))) : bool :=
  match a, b with Some x, Some y => cls_eqb x y | None, None => true | _, _ => false end.
Definition cls_of (vt : vtype) (vs : list evalue) : option enum_class :=
  match values_from_list vs with
  | Some m => match vt with VStr => str_enum_class m | VInt => int_enum_class m end
  | None => None
  end.
Definition incl_b (a b : list jval) : bool := forallb (fun x => existsb (jval_eqb x) b) a.
Definition oset_eqb (a : option (list jval)) (b : option (list jval)) : bool :=
  match a, b with Some x, Some y => incl_b x y && incl_b y x | None, None => true | _, _ => false end.
Definition dec_eqb (a b : dec) : bool :=
  match a, b with
  | DNone, DNone => true
  | DMember x, DMember y => str_eqb x y
  | DValue x, DValue y | DValue x, DRaw y | DRaw x, DValue y | DRaw x, DRaw y => jval_eqb x y
  | DFail, DFail => true
  | _, _ => false
  end.
Definition odec (o : option dec) : dec := match o with Some d => d | None => DFail end.
Definition dec_plain vt vs j := match cls_of vt vs with Some c => enum_decode c j | None => DFail end.
Definition dec_nullable vt vs j := match cls_of vt vs with Some c => nullable_enum_decode vt c j | None => DFail end.
Definition dec_lit vs j := match literal_values vs with Some lv => literal_decode lv j | None => DFail end.
Definition dec_lit_nullable vt vs j := match literal_values vs with Some lv => nullable_literal_decode vt lv j | None => DFail end.
Definition ebuild_is (b : ebuild) (tag : N) (vt : vtype) (m : option (list (str * evalue))) (lit : list evalue) (literal : bool) : bool :=
  match b, tag with
  | BNoneProp, 0 => true
  | BMixed, 1 => true
  | BUnsupported, 2 => true
  | BNullable vt' vs, 3 | BPlain vt' vs, 4 =>
      (match vt, vt' with VInt, VInt | VStr, VStr => true | _, _ => false end) &&
      (if literal then incl_b (map wire vs) (map wire lit) && incl_b (map wire lit) (map wire vs)
       else omembers_eqb (values_from_list vs) m)
  | BNullable _ vs, 5 | BPlain _ vs, 5 => negb literal && match values_from_list vs with None => true | Some _ => false end   (* ValueError *)
  | _, _ => false
  end.
Definition ostr_eqb (a b : option str) : bool :=
  match a, b with Some x, Some y => str_eqb x y | None, None => true | _, _ => false end.
Definition text_of vt vs (k : str) : option str := match cls_of vt vs with Some c => enum_text c k | None => None end.
Definition bool_opt_eqb (a b : option bool) : bool :=
  match a, b with Some x, Some y => Bool.eqb x y | None, None => true | _, _ => false end.
"""

ALPHA_HOSTILE = ["a", "A", "b", "B", "ab", "aB", "Ab", "AB", "a b", "a-b", "a_b", "a.b", "a  b", "A_B", "a/b", "a$b", "1", "1a", "2nd", "0", "00", "", " ", "-", "_",
                 "é", "Éa", "ß", "ǅx", "中", "١", "ª", "µm", "İ", "ı", "ﬁ", "σς", "_a", "-a", " a", "a ", 'a"b', "a'b", 'q"', "a\\b", "a\\", "\\", "a\nb", "\x00",
                 "None", "none", "class", "mro", "name", "value", "VALUE_0", "value_0", "VALUE_1", "value_1", "Value 1", "VALUE_NEGATIVE_1", "true", "True",
                 "HTTPResponse", "getX", "x1y", "X1Y", "x_1_y", "a1", "A1", "a_1", "ab c", "abC", "ab_c", "è", "è"]
INT_POOL = [0, 1, -1, 2, -2, 3, 10, -10, 255, 2**31, -(2**63), 10**20, 7, 42]


def gen_lists(rng, tier):
    """Enum `enum:` lists (Python lists, possibly containing None or mixed types)."""
    out = [["a", "A"], ["a\u00b2", "b"], ["a b", "a-b"], ["a b", "a_b"], ["", "value_0"], ["value_1", ""], ["1", "1"], ["a", "a"], [1, 1], [0, -0], ["a\\b"], ['a"b', "c"],
           ["\U0001F600", "b"], ["x-\U0001D4B3-ray", "plain"], ["e\u0301", "\u00e9"], ["a\u00a0b", "a b"], ["\u200fa", "a"], ["\U0001F44D\U0001F3FD"], ["\U0001D7D8", "\U0001D504x"],
           [None], [None, None], ["a", None], [None, 1, 2], [1, "a"], [True], [True, 1], [1.5], [1, 2.0], [[1]], [{"a": 1}], [[1], {"a": 1}], ["a", None, "A"],
           ["x", "y", None, "z"], [-1, 1], ["-1", "1"], ["1a", "a1"], ["é", "É"], ["ß", "SS"], ["ǅx", "ǆx"], ["ab", "a b", "aB"], ["A_B", "a b"], ["a b", "A_B"],
           ["a", "b", "c"], [3, 2, 1], ["b", "a"], ["B", "a"], ["x", "X y"], ["it's", 'say "hi"'], ["\\", "/"], ['\\"'], ["a\\"], ["a\nb"], ["µm", "Μm"],
           ["VALUE_NEGATIVE_1", "x"], [-1, -2, 0], ["none", "None "], ["a", "b", None, None]]
    n = 90 if tier == "quick" else 1200
    for _ in range(n):
        r = rng.random()
        k = rng.randint(1, 5)
        if r < 0.55:
            l = [rng.choice(ALPHA_HOSTILE) if rng.random() < 0.8 else S.rand_str(rng, S.HOSTILE, 5) for _ in range(k)]
        elif r < 0.75:
            l = [rng.choice(INT_POOL) if rng.random() < 0.8 else rng.randint(-10**9, 10**9) for _ in range(k)]
        elif r < 0.85:
            # near-collisions: variants of one word
            w = rng.choice(["item id", "a b", "x", "user name", "v 1", "é t"]).split(" ")
            l = []
            for _ in range(k):
                sep = rng.choice(["_", "-", " ", ".", "", "__"])
                l.append(sep.join(rng.choice([x, x.upper(), x.capitalize()]) for x in w))
        else:
            l = [rng.choice(ALPHA_HOSTILE + INT_POOL + [None, True, 1.5, 2.0]) for _ in range(k)]
        if rng.random() < 0.25:
            l.insert(rng.randint(0, len(l)), None)
        l = [v for v in l if not (isinstance(v, str) and not vals.is_jsonable_str(v))]
        if l:
            out.append(l)
    seen, res = set(), []
    for l in out:
        key = json.dumps([[type(v).__name__, repr(v)] for v in l])
        if key not in seen:
            seen.add(key)
            res.append(l)
    return res


def homogeneous(l):
    nn = [v for v in l if v is not None]
    if not nn:
        return None
    if all(type(v) is int for v in nn):
        return int
    if all(type(v) is str for v in nn):
        return str
    return None


def cevs(vs):
    return clist([vals.cevalue(v) for v in vs], "evalue")


def cjvs(vs):
    return clist([vals.cjval(v) for v in vs], "jval")


# ------------------------------------------------------------------ stage B (parser level)
def stage_b_parser(run, tier, lists):
    from openapi_python_client.parser.properties import EnumProperty, Class
    from openapi_python_client.parser.properties.schemas import Class as C2
    from openapi_python_client.utils import ClassName, PythonIdentifier
    ci = C2(name=ClassName("E", ""), module_name=PythonIdentifier("e", ""))
    terms, meta = [], []
    for l in lists:
        t = homogeneous(l)
        nn = [v for v in l if v is not None]
        if t is not None:
            try:
                d = EnumProperty.values_from_list(list(nn), ci)
                obs = "(Some %s)" % vals.cmembers(d)
                pobs = d
            except ValueError:
                obs = "None"
                pobs = "ValueError"
            terms.append(f"omembers_eqb (values_from_list {cevs(nn)}) {obs}")
            meta.append({"fn": "values_from_list", "input": nn, "impl": str(pobs), "term": f"values_from_list {cevs(nn)}"})
            run.note_case({"fn": "values_from_list", "input": nn}, nontrivial=len(nn) > 1, kind="B:values_from_list")
        for literal in (False, True):
            b = vals.build_prop({"enum": list(l)}, {"literal_enums": literal})
            tag, vt, m, lit = None, "VStr", "None", "[]"
            if b[0] == "crash":
                tag = 5 if b[1] == "ValueError" else 9
            elif b[0] == "err":
                h = b[1].header or ""
                tag = 1 if h.startswith("Enum values must all be the same type") else 2 if h.startswith("Unsupported enum type") else 8
            elif b[0] == "prop":
                p = b[1]
                n = type(p).__name__
                inner = None
                if n == "NoneProperty":
                    tag = 0
                elif n == "UnionProperty":
                    ips = p.inner_properties
                    if len(ips) == 2 and type(ips[0]).__name__ == "NoneProperty" and type(ips[1]).__name__ in ("EnumProperty", "LiteralEnumProperty"):
                        tag, inner = 3, ips[1]
                    else:
                        tag = 7
                elif n in ("EnumProperty", "LiteralEnumProperty"):
                    tag, inner = 4, p
                else:
                    tag = 6
                if inner is not None:
                    vt = vals.cvtype(inner.value_type)
                    if type(inner).__name__ == "EnumProperty":
                        m = "(Some %s)" % vals.cmembers(inner.values)
                    else:
                        lit = cevs(sorted(inner.values, key=lambda x: (str(type(x)), x)))
            else:
                continue
            terms.append(f"ebuild_is (enum_build {cjvs(l)}) {tag} {vt} {m} {lit} {cbool(literal)}")
            meta.append({"fn": "LiteralEnumProperty.build" if literal else "EnumProperty.build", "input": l, "impl": f"tag={tag} {b[0]} {type(b[1]).__name__ if b[0]=='prop' else b[1]}",
                         "term": f"enum_build {cjvs(l)}"})
            run.note_case({"fn": "build", "literal": literal, "input": l}, nontrivial=len(l) > 1, kind="B:build")
    bad = run_cases(HDR, terms)
    for i in bad[:10]:
        m = meta[i]
        model = coq_eval(HDR, m["term"])
        run.violation("correspondence", {"fn": m["fn"], "input": m["input"], "impl": m["impl"], "model": model[-400:],
                                         "note": "the real %s disagrees with the Coq model" % m["fn"]})
    return len(terms), len(bad)


# ------------------------------------------------------------------ generated code (stage B on executed classes + stage C oracle)
def repr_printable(s):
    """Mirror of PyLitThm.repr_printable: the domain of the model's string-literal lexer for repr() output."""
    return all(ord(ch) >= 32 and ord(ch) != 127 and (ord(ch) < 127 or ch.isprintable()) for ch in s)


def enc_probe(v):
    if isinstance(v, float):
        return {"__f": repr(v)}
    if isinstance(v, dict):
        return {"__d": {k: enc_probe(x) for k, x in v.items()}}
    if isinstance(v, list):
        return [enc_probe(x) for x in v]
    return v


def same(a, b):
    """Python equality that also distinguishes the JSON type (True is not 1, 1.0 is not 1)."""
    return type(a) is type(b) and a == b


def probes_for(values, rng):
    nn = [v for v in values if v is not None]
    t = type(nn[0])
    out = list(nn)
    if t is str:
        for v in nn[:4]:
            out += [v.swapcase(), v + " ", v.upper(), v.lower(), v.replace('"', '\\"'), v.replace("\\b", "\x08").replace("\\n", "\n"), v[:-1], "_" + v]
        out += ["", "zz", "VALUE_0", 1, 0, True, 1.5, ["a"], {"a": 1}]
    else:
        for v in nn[:4]:
            out += [v + 1, -v, str(v), float(v) if abs(v) < 2**53 else 0.5, v + 0.5 if abs(v) < 2**53 else 1.5]
        out += [True, False, 10**6 + 7, "a", "1", [1], 0, 1]
    out.append(None)
    res = []
    for p in out:
        if isinstance(p, str) and not vals.is_jsonable_str(p):
            continue
        if not any(same(p, q) for q in res):
            res.append(p)
    return res


def dec_value(d):
    """Python value from the runner's tagged encoding (scalars only)."""
    t = d["t"]
    if t == "none":
        return None
    if t == "bool":
        return d["v"]
    if t == "int":
        return int(d["v"])
    if t == "float":
        return float(d["v"])
    if t == "str":
        return d["v"]
    if t == "list":
        return [dec_value(x) for x in d["v"]]
    if t == "dict":
        return {k: dec_value(x) for k, x in d["v"].items()}
    return ("?", d)


def build_doc(cases):
    schemas = {}
    for c in cases:
        prop = {"const": c["const"]} if c["kind"] == "const" else {"enum": c["values"]}
        if c.get("nullable30"):
            prop = {"type": "string" if isinstance(c["values"][0], str) else "integer", "nullable": True, "enum": c["values"]}
            if c.get("ref30"):
                schemas[f"N{c['i']}Kind"] = prop
                prop = {"$ref": f"#/components/schemas/N{c['i']}Kind"}
        s = {"type": "object", "properties": {"x": prop}}
        if c["required"]:
            s["required"] = ["x"]
        schemas[f"M{c['i']}"] = s
    return impl.base_doc(components={"schemas": schemas})


def run_docs(groups):
    """groups: list of (cases, literal). Generates each doc in-process and runs the probes in a fresh interpreter. Returns {i: (result|None, gen_info)}."""
    results = {}
    for cases, literal in groups:
        doc = build_doc(cases)
        with impl.Gen(doc, cfg={"literal_enums": literal}) as g:
            info = {"exc": repr(g.exc) if g.exc else None, "diag": g.diag()}
            if g.exc is not None or not g.out.exists():
                for c in cases:
                    results[c["i"]] = (None, info)
                continue
            files = g.files()
            jobs = []
            for c in cases:
                jobs.append({"what": "model", "module": f"models.m{c['i']}", "cls": f"M{c['i']}", "attrs": ["x"], "construct": False,
                             "probes": [{"x": enc_probe(p)} for p in c["probes"]]})
            inp = json.dumps({"pkg_parent": str(g.out.parent), "pkg": g.out.name, "jobs": jobs})
            env = {k: v for k, v in os.environ.items() if k != "PYTHONPATH"}
            env["PYTHONHASHSEED"] = "0"
            r = subprocess.run([PY, "-I", "-W", "ignore", str(Path(__file__).resolve().parents[1] / "lib" / "gen_runner.py")], input=inp, capture_output=True, text=True, timeout=600, env=env)
            try:
                res = json.loads(r.stdout.split("\n@@RESULT@@\n", 1)[1])
            except Exception:
                res = {"fatal": (r.stderr or r.stdout)[-1500:]}
            for k, c in enumerate(cases):
                if isinstance(res, dict):
                    results[c["i"]] = (None, {**info, "fatal": res.get("fatal")})
                else:
                    exists = f"models/m{c['i']}.py" in files
                    results[c["i"]] = (res[k], {**info, "model_file": exists})
    return results


def obs_dec(pr, probe, nmap={}):
    """Observed decode of one probe -> (coq dec literal, summary)."""
    if "fail" in pr:
        return "DFail", ("fail", pr["fail"])
    a = pr["attrs"]["x"]
    if a["t"] == "none":
        return "DNone", ("none",)
    if a["t"] == "member":
        return f"(DMember {cstr(nmap.get(a['name'], a['name']))})", ("member", a["name"], dec_value(a["value"]))
    v = dec_value(a)
    return f"(DRaw {vals.cjval(v)})", ("raw", v)


def stage_gen(run, tier, lists):
    rng = run.rng
    from openapi_python_client.parser.properties import EnumProperty
    from openapi_python_client.parser.properties.schemas import Class as C2
    from openapi_python_client.utils import ClassName, PythonIdentifier
    ci = C2(name=ClassName("E", ""), module_name=PythonIdentifier("e", ""))
    cases, crash_cases = [], []
    idx = 0
    for l in lists:
        t = homogeneous(l)
        if t is None:
            continue
        nn = [v for v in l if v is not None]
        for literal in (False, True):
            c = {"i": idx, "kind": "enum", "values": l, "nn": nn, "vt": t, "literal": literal, "required": rng.random() < 0.6,
                 "nullable": len(nn) < len(l), "probes": probes_for(l, rng)}
            idx += 1
            raises = False
            if not literal:
                try:
                    d = EnumProperty.values_from_list(list(nn), ci)
                    # CPython NFKC-normalises identifiers: map the observed member names back to the emitted spelling
                    nm = {}
                    for kk in d:
                        nm.setdefault(unicodedata.normalize("NFKC", kk), []).append(kk)
                    c["nmap"] = {k2: v2[0] for k2, v2 in nm.items() if len(v2) == 1}
                except ValueError:
                    raises = True
            (crash_cases if raises else cases).append(c)
    # OpenAPI 3.0 `nullable: true` next to an enum that does not list null (inline and referenced, required and optional, both styles):
    # the enum must stay exact for every non-null value (whether null itself is accepted is C10's subject, finding enum_nullable30_ignored)
    for l30 in (["red", "Green"], [1, 2], ["a b", "c"], ["\U0001F600", "ok"]):
        for literal in (False, True):
            for ref30 in (False, True):
                for req in (True, False):
                    cases.append({"i": idx, "kind": "enum", "values": l30, "nn": list(l30), "vt": type(l30[0]), "literal": literal, "required": req, "nullable": False,
                                  "nullable30": True, "ref30": ref30, "probes": probes_for(l30, rng)})
                    idx += 1
    consts = ["a", "", "a b", "é", 'a"b', "it's", "a\\b", "{x}", "a{", "tab\t", "x" * 30, 3, 0, -1, 10**20, True, False, 1.5, 3.0, -0.25, 1e22, "None", "3", "true"]
    if tier == "thorough":
        consts += [S.rand_str(rng, S.HOSTILE, 6) for _ in range(150)] + [rng.randint(-10**9, 10**9) for _ in range(40)]
    seen = []
    for cv in consts:
        if isinstance(cv, str) and not vals.is_jsonable_str(cv) or any(same(cv, s) for s in seen):
            continue
        seen.append(cv)
        pr = [cv]
        if isinstance(cv, str):
            pr += [cv + " ", cv.upper() if cv.upper() != cv else cv.lower() + "z", cv.replace('"', '\\"'), "", 0, None, [cv]]
        elif isinstance(cv, bool):
            pr += [not cv, int(cv), float(cv), str(cv), None]
        elif isinstance(cv, int):
            pr += [cv + 1, -cv - 1, float(cv) if abs(cv) < 2**53 else 0.5, str(cv), None] + ([bool(cv)] if cv in (0, 1) else [True])
        else:
            pr += [cv + 1.0, int(cv) if cv == int(cv) else 0, str(cv), None, -cv]
        probes = []
        for p in pr:
            if not any(same(p, q) for q in probes):
                probes.append(p)
        cases.append({"i": idx, "kind": "const", "const": cv, "literal": False, "required": True, "probes": probes})
        idx += 1
    # optional const properties: the check gains `and not isinstance(x, Unset)` (finding const_optional_syntax, fixed upstream in bc73e78:
    # a missing space made `!= Trueand` a SyntaxError); same probes as the required variant, the model is the same function
    opt_consts = [{"i": idx, "kind": "const", "const": True, "literal": False, "required": False, "probes": [True, False, 1, "True", None]},
                  {"i": idx + 1, "kind": "const", "const": "a", "literal": False, "required": False, "probes": ["a", "b", "A", 0]},
                  {"i": idx + 2, "kind": "const", "const": 5, "literal": False, "required": False, "probes": [5, 6, "5", 5.0]},
                  {"i": idx + 3, "kind": "const", "const": 1.5, "literal": False, "required": False, "probes": [1.5, 1, "1.5"]}]
    idx += 4
    groups = []
    for literal in (False, True):
        cs = [c for c in cases if c["literal"] == literal]
        for k in range(0, len(cs), 45):
            groups.append((cs[k:k + 45], literal))
    groups.append((opt_consts, False))
    ncrash = 4 if tier == "quick" else 25
    for c in crash_cases[:ncrash]:
        groups.append(([c], False))
    with ThreadPoolExecutor(max_workers=1) as ex:   # generation is in-process and not thread-safe; the subprocesses dominate
        results = run_docs(groups)

    terms, meta = [], []
    fails = []   # (case, what, detail)

    def add(term, m):
        terms.append(term)
        meta.append(m)

    for cases_, literal in groups:
        for c in cases_:
            res, info = results[c["i"]]
            if c["kind"] == "enum":
                vt, vs = vals.cvtype(c["vt"]), cevs(c["nn"])
                crashed = res is None and info.get("exc") and "ValueError" in info["exc"]
                run.note_case({"enum": c["values"], "literal": literal, "required": c["required"]}, nontrivial=len(c["nn"]) > 1, kind="gen:" + ("literal" if literal else "enum"))
                if res is None:
                    # generator-level failure: the model must predict it (values_from_list = None)
                    add(f"match values_from_list {vs} with None => true | Some _ => false end", {"c": c, "what": "generator raised", "impl": info.get("exc") or info.get("fatal"), "term": f"values_from_list {vs}"})
                    fails.append((c, "crash", info.get("exc") or str(info.get("fatal"))[:300]))
                    continue
                if "import_error" in res or "runner_error" in res:
                    ie = res.get("import_error") or res.get("runner_error")
                    if literal:
                        add(f"match literal_values {vs} with None => true | Some _ => false end", {"c": c, "what": "literal module broken", "impl": ie, "term": f"literal_values {vs}"})
                    else:
                        add(f"match cls_of {vt} {vs} with None => true | Some _ => false end", {"c": c, "what": "enum module broken", "impl": ie, "term": f"cls_of {vt} {vs}"})
                    fails.append((c, "import", ie))
                    continue
                in_model = not (literal and any(isinstance(v, str) and not repr_printable(v) for v in c["nn"]))
                # members
                if literal:
                    ls = list(res["literals"].values())
                    sets = [dec_value(x) for x in ls[0]["set"]] if ls else None
                    if sets is None:
                        fails.append((c, "nolit", "no check_ function / VALUES set found"))
                        continue
                    if in_model:
                        add(f"oset_eqb (literal_values {vs}) (Some {cjvs(sets)})", {"c": c, "what": "literal VALUES set", "impl": sets, "term": f"literal_values {vs}"})
                    members_vals = sets
                    largs = [dec_value(a) for a in ls[0]["literal_args"][0]] if ls[0]["literal_args"] else []
                    if sorted(map(repr, largs)) != sorted(map(repr, sets)):
                        fails.append((c, "literal-args", f"Literal[...] args {largs!r} != VALUES set {sets!r}"))
                else:
                    es = list(res["enums"].values())
                    if len(es) != 1:
                        fails.append((c, "noenum", f"expected one enum class, found {list(res['enums'])}"))
                        continue
                    nmap = c.get("nmap", {})
                    mem = [(nmap.get(k, k), dec_value(v)) for k, v in es[0]["members"]]
                    add(f"ocls_eqb (cls_of {vt} {vs}) (Some {clist(['(%s, %s)' % (cstr(k), vals.cjval(v)) for k, v in mem], '(str * jval)')})",
                        {"c": c, "what": "enum members", "impl": mem, "term": f"cls_of {vt} {vs}"})
                    members_vals = [dec_value(v) for k, v in es[0]["members"] if k in es[0]["canonical"]]
                    # what a member stringifies to (header / path parameters send str(member) / format(member)): the text of its value
                    byname = {k: dec_value(v) for k, v in es[0]["members"]}
                    for nm_, s_, f_, fs_, fm_ in es[0].get("texts", []):
                        want = byname[nm_] if isinstance(byname[nm_], str) else str(byname[nm_])
                        add(f"ostr_eqb (text_of {vt} {vs} {cstr(nmap.get(nm_, nm_))}) (Some {cstr(s_)})", {"c": c, "what": "str(member)", "probe": nm_, "impl": s_, "term": f"text_of {vt} {vs} {cstr(nmap.get(nm_, nm_))}"})
                        if not (s_ == f_ == fs_ == fm_ == want):
                            fails.append((c, "text", f"member {nm_} with value {byname[nm_]!r}: str() = {s_!r}, format() = {f_!r}, f-string = {fs_!r}; the declared value text is {want!r}"))
                # oracle P1: member values == declared values
                decl = c["nn"]
                if not (all(any(same(v, w) for w in members_vals) for v in decl) and all(any(same(v, w) for w in decl) for v in members_vals)):
                    fails.append((c, "members", f"member values {members_vals!r} != declared {decl!r}"))
                # probes
                fn = ("dec_lit_nullable %s %s" % (vt, vs) if c["nullable"] else "dec_lit %s" % vs) if literal else ("dec_nullable %s %s" % (vt, vs) if c["nullable"] else "dec_plain %s %s" % (vt, vs))
                for p, pr in zip(c["probes"], res["probes"]):
                    od, summ = obs_dec(pr, p, c.get("nmap", {}))
                    if literal and summ[0] == "raw":
                        od = f"(DValue {vals.cjval(summ[1])})"
                    if in_model:
                        add(f"dec_eqb ({fn} {vals.cjval(p)}) {od}", {"c": c, "what": "decode", "probe": p, "impl": summ, "term": f"{fn} {vals.cjval(p)}"})
                    run.note_case({"enum": c["values"], "literal": literal, "probe": repr(p)}, nontrivial=True, kind="probe:" + ("literal" if literal else "enum"))
                    listed = any(same(p, v) for v in decl)
                    alias = not listed and any((not isinstance(p, (list, dict, str, type(None)))) and (not isinstance(v, str)) and p == v for v in decl)
                    enc_back = dec_value(pr["to_dict"]["v"]["x"]) if "to_dict" in pr and "x" in pr["to_dict"].get("v", {}) else ("?",)
                    if p is None and c.get("nullable30"):
                        pass
                    elif p is None:
                        if c["nullable"]:
                            if summ != ("none",) or enc_back is not None:
                                fails.append((c, "null", f"null listed but decode(None) = {summ!r}, encode = {enc_back!r}"))
                        elif summ[0] != "fail" and c["required"]:
                            fails.append((c, "null-accepted", f"null not listed but decode(None) = {summ!r}"))
                    elif listed:
                        okd = (summ[0] == "member" and same(summ[2], p)) or (literal and summ[0] == "raw" and same(summ[1], p))
                        if not okd or not same(enc_back, p):
                            fails.append((c, "listed", f"decode({p!r}) = {summ!r}, encode = {enc_back!r}"))
                    elif alias:
                        if summ[0] != "fail":
                            fails.append((c, "alias", f"unlisted {p!r} (equal to a listed value only under Python ==) decodes to {summ!r}"))
                    else:
                        if summ[0] != "fail":
                            fails.append((c, "unlisted", f"unlisted {p!r} is not rejected: {summ!r}"))
            else:
                cv = c["const"]
                run.note_case({"const": repr(cv), "required": c["required"]}, nontrivial=True, kind="gen:const")
                if res is None:
                    fails.append((c, "crash", info.get("exc") or str(info.get("fatal"))[:300]))
                    continue
                broken = "import_error" in res or "runner_error" in res
                if not c["required"] and broken:
                    # the optional variant of the const check (`... and not isinstance(x, Unset)`) must compile like the required one
                    fails.append((c, "const-optional", res.get("import_error") or res.get("runner_error")))
                    continue
                # a brace in a string constant lands in an f-string replacement field: whether the module still compiles depends on
                # Python's expression grammar, which the model does not have -> outside the correspondence (the oracle still runs)
                braces = isinstance(cv, str) and ("{" in cv or "}" in cv)
                if broken:
                    if not braces:
                        add(f"match const_value {vals.cjval(cv)} with None => true | Some _ => false end", {"c": c, "what": "const module broken", "impl": res.get("import_error"), "term": f"const_value {vals.cjval(cv)}"})
                    fails.append((c, "import", res.get("import_error") or res.get("runner_error")))
                    continue
                for p, pr in zip(c["probes"], res["probes"]):
                    if "fail" in pr:
                        ob = "(Some false)" if pr["fail"] == "ValueError" else "None"
                        summ = ("fail", pr["fail"])
                    else:
                        ob = "(Some true)"
                        summ = ("ok", dec_value(pr["attrs"]["x"]))
                    if not braces and not (isinstance(cv, str) and not repr_printable(cv)):
                        add(f"bool_opt_eqb (const_accepts {vals.cjval(cv)} {vals.cjval(p)}) {ob}", {"c": c, "what": "const check", "probe": p, "impl": summ, "term": f"const_accepts {vals.cjval(cv)} {vals.cjval(p)}"})
                    run.note_case({"const": repr(cv), "probe": repr(p)}, nontrivial=True, kind="probe:const")
                    if same(p, cv):
                        enc_back = dec_value(pr["to_dict"]["v"]["x"]) if "to_dict" in pr and "x" in pr["to_dict"].get("v", {}) else ("?",)
                        if summ[0] != "ok" or not same(enc_back, cv):
                            fails.append((c, "const-self", f"const {cv!r} does not accept itself: {summ!r} / encode {enc_back!r}"))
                    elif summ[0] == "ok":
                        al = not isinstance(p, (str, list, dict, type(None))) and not isinstance(cv, str) and p == cv
                        fails.append((c, "alias" if al else "const-other", f"const {cv!r} accepts {p!r}"))
                    elif summ[1] != "ValueError":
                        fails.append((c, "const-exc", f"const {cv!r} on {p!r} raises {summ[1]} instead of ValueError"))
    bad = run_cases(HDR, terms)
    for i in bad[:10]:
        m = meta[i]
        c = m["c"]
        model = coq_eval(HDR, m["term"])
        run.violation("correspondence", {"what": m["what"], "input": c.get("values", c.get("const")), "literal_enums": c["literal"], "probe": m.get("probe"), "impl": str(m["impl"])[:300], "model": model[-400:],
                                         "note": "the generated class/check behaves differently from the Coq model (Enums.v)"})
    classify(run, fails)
    return len(terms), len(bad)


def classify(run, fails):
    """Stage C verdicts: every oracle failure is attributed to a guard conjunct (evaluated in Coq) or reported as a violation."""
    import keyword
    gterms = []
    for c, what, detail in fails:
        if c["kind"] == "enum":
            vs = cevs(c["nn"])
            gterms.append(f"g_enum_sanitised_distinct {vs}")
            gterms.append(f"g_no_bs_nl {vs}")
            gterms.append(f"match values_from_list {vs} with Some _ => true | None => false end")
            gterms.append(f"g_member_names {vs}")
        else:
            gterms.append(f"g_const {vals.cjval(c['const'])}")
            gterms += ["true", "true", "true"]
    false_idx = set(run_cases(HDR, gterms)) if gterms else set()
    from openapi_python_client.parser.properties import EnumProperty
    for k, (c, what, detail) in enumerate(fails):
        g1, g2, g3, g4 = [(4 * k + q) not in false_idx for q in range(4)]
        inp = c.get("values", c.get("const"))
        tag = {"input": inp, "literal_enums": c["literal"], "required": c["required"], "what": what, "detail": detail}
        fid = None
        if c["kind"] == "enum":
            if what == "crash":
                fid = "enum_dup_crash" if (not g3 and not c["literal"] and "ValueError" in str(detail)) else None
            elif what == "alias":
                fid = "nullable_enum_passthrough" if (c["nullable"] and "('raw'" in detail) else "numeric_alias"
            elif what in ("unlisted",) and c["nullable"]:
                fid = "nullable_enum_passthrough"
            elif not c["literal"] and what in ("members", "listed", "import", "unlisted", "noenum"):
                if not g4 and what in ("import", "members", "listed"):
                    fid = "xid_gap"
                elif not g2:
                    fid = "enum_backslash"
                elif not g1:
                    fid = "enum_silent_merge"
        else:
            if what == "alias":
                fid = "numeric_alias"
            elif what == "const-optional":
                fid = "const_optional_syntax" if isinstance(c["const"], bool) else None
            elif what in ("import", "const-self", "const-exc") and not g1 and isinstance(c["const"], str):
                fid = "const_fstring"
        if fid is None or not run.known_finding(fid, f"{inp!r} (literal_enums={c['literal']}): {detail}"):
            run.violation("oracle", {**tag, "class": fid, "note": "stage C predicate fails inside the proved guards (or the class is not a listed finding)"})


# ------------------------------------------------------------------ twin enums: two declarations that derive ONE class name
HDR_TW = HDR + r"""
Require Import OPC.Scopes.
Definition tw_prefix : str := [102;105;101;108;100;95]%N.
Definition tw_class (vt : vtype) (t : list (str * evalue)) : option enum_class :=
  match vt with VStr => str_enum_class t | VInt => int_enum_class t end.
Definition tw_errs (ds : list cdecl) : option nat :=
  match model_decls tw_prefix ds with Some (_, errs) => Some (length errs) | None => None end.
Definition tw_table (ds : list cdecl) (d : cdecl) (vt : vtype) : option enum_class :=
  match model_decls tw_prefix ds with
  | Some (tab, _) => match clookup (decl_class tw_prefix d) tab with Some (CEnum t) => tw_class vt t | _ => None end
  | None => None
  end.
Definition onat_eqb (a b : option nat) : bool := match a, b with Some x, Some y => Nat.eqb x y | None, None => true | _, _ => false end.
"""

TWIN_PAIRS = [
    (["open", "closed"], ["OPEN", "CLOSED"]), (["a b", "c"], ["a_b", "c"]), (["a-b"], ["a b"]), (["x.y", "z"], ["x y", "z"]),
    (["9", "8"], ["value_0", "value_1"]), ([1, 2], ["VALUE_1", "VALUE_2"]), ([-1, 0], ["VALUE_NEGATIVE_1", "value_0"]), (["", "a"], ["value_0", "A"]),
    (["Open", "closed"], ["open", "Closed"]), (["\u00e9t\u00e9"], ["\u00c9T\u00c9"]), (["itemId"], ["ITEMID"]),
    # controls: legitimately shared (equal tables), properly conflicting (different member names)
    (["open", "closed"], ["closed", "open"]), (["open", "closed"], ["open", "closed"]), ([3, 1], [1, 3]),
    (["open", "closed"], ["open", "shut"]), (["open"], ["open", "closed"]), ([1, 2], [1, 3]),
]
TWIN_LAYOUTS = ["inline-inline", "inline-component", "property-parameter"]


def _real_keys(vs):
    from openapi_python_client.parser.properties import EnumProperty
    from openapi_python_client.parser.properties.schemas import Class as C2
    from openapi_python_client.utils import ClassName, PythonIdentifier
    try:
        return EnumProperty.values_from_list(list(vs), C2(name=ClassName("E", ""), module_name=PythonIdentifier("e", "")))
    except ValueError:
        return None


def twin_cases(rng, tier):
    import keyword
    pairs = list(TWIN_PAIRS)
    # random twins: a variant of a random list with the same member names and different wire values
    n = 10 if tier == "quick" else 300
    tries = 0
    while n > 0 and tries < 20000:
        tries += 1
        l = [rng.choice([s for s in ALPHA_HOSTILE if "\\" not in s and "\n" not in s and "\x00" not in s]) for _ in range(rng.randint(1, 3))]
        v = [rng.choice([s.upper(), s.lower(), s.swapcase(), s.replace(" ", "_"), s.replace("-", " "), s.replace("_", "-"), s.replace(".", "_")]) for s in l]
        ka, kb = _real_keys(l), _real_keys(v)
        if ka is None or kb is None or list(ka) != list(kb) or l == v or len(ka) != len(l) or len(set(l)) != len(l) or len(set(v)) != len(v):
            continue
        if any(not k.isidentifier() or keyword.iskeyword(k) for k in ka) or not all(vals.is_jsonable_str(s) for s in l + v):
            continue
        pairs.append((l, v))
        n -= 1
    out = []
    for n_, (a, b) in enumerate(pairs):
        # quick tier: the listed twins in every layout and both orders, the controls in every layout, a random twin in one layout
        layouts = TWIN_LAYOUTS if (tier == "thorough" or n_ < len(TWIN_PAIRS)) else [TWIN_LAYOUTS[n_ % 3]]
        swaps = (False, True) if (tier == "thorough" or n_ < 11) else (bool(n_ % 2),)
        for layout in layouts:
            for swap in swaps:
                va, vb = (b, a) if swap else (a, b)
                out.append({"va": va, "vb": vb, "layout": layout})
    for j, c in enumerate(out):
        c["j"] = j
    return out


def twin_sites(c):
    """The two declarations of a case in the order the parser processes them: (kind, schema name / op, property, values, cdecl parent, cdecl name)."""
    j, va, vb = c["j"], c["va"], c["vb"]
    if c["layout"] == "inline-inline":
        return [("prop", f"Ord{j}", "item_status", va, f"Ord{j}", "item_status"), ("prop", f"Ord{j}Item", "status", vb, f"Ord{j}Item", "status")]
    if c["layout"] == "inline-component":
        return [("comp", f"Ord{j}ItemStatus", None, vb, "", f"Ord{j}ItemStatus"), ("prop", f"Ord{j}", "item_status", va, f"Ord{j}", "item_status")]
    return [("prop", f"Ord{j}", "item_status", va, f"Ord{j}", "item_status"), ("param", f"ord{j}", "item_status", vb, f"ord{j}", "item_status")]


def stage_twins(run, tier):
    from openapi_python_client.parser.properties.schemas import Class
    cfg0 = vals.ref_schemas({})[0]
    modname = lambda n: str(Class.from_string(string=n, config=cfg0).module_name)
    from openapi_python_client.utils import PythonIdentifier
    epname = lambda n: str(PythonIdentifier(n, cfg0.field_prefix))
    cases = twin_cases(run.rng, tier)
    terms, meta, fails = [], [], []
    groups = [(cases[k:k + 30], False) for k in range(0, len(cases), 30)]
    lit_cases = [c for c in cases if c["layout"] == "inline-inline"][: (24 if tier == "quick" else 200)]
    groups += [(lit_cases[k:k + 30], True) for k in range(0, len(lit_cases), 30)]
    import re
    for grp, literal in groups:
        schemas, paths = {}, {}
        for c in grp:
            for kind, owner, prop, vs, _, _ in twin_sites(c):
                if kind == "prop":
                    schemas[owner] = {"type": "object", "required": [prop], "properties": {prop: {"enum": vs}}}
                elif kind == "comp":
                    schemas[owner] = {"enum": vs}
                else:
                    paths[f"/t{c['j']}"] = {"get": {"operationId": owner, "parameters": [{"name": prop, "in": "query", "required": True, "schema": {"enum": vs}}],
                                                   "responses": {"200": {"description": "ok"}}}}
        # document order of components.schemas is the processing order of the models
        with impl.Gen(impl.base_doc(components={"schemas": schemas}, paths=paths), cfg={"literal_enums": literal}) as g:
            diag = g.diag()
            files = g.files() if g.out.exists() else {}
            if g.exc is not None or not files:
                run.violation("oracle", {"note": "twin-enum document makes the generator raise", "exc": repr(g.exc), "input": [[c["va"], c["vb"]] for c in grp][:5]})
                continue
            jobs, jmap = [], []
            for c in grp:
                for s, (kind, owner, prop, vs, _, _) in enumerate(twin_sites(c)):
                    probes = []
                    for pv in list(c["va"]) + list(c["vb"]) + ["zz", "", 7, "OPEN "]:
                        if not any(same(pv, q) for q in probes):
                            probes.append(pv)
                    if kind == "prop" and f"models/{modname(owner)}.py" in files:
                        jobs.append({"what": "model", "module": f"models.{modname(owner)}", "cls": owner, "attrs": [prop], "construct": False, "probes": [{prop: enc_probe(pv)} for pv in probes]})
                        jmap.append((c, s, probes))
                    elif kind == "param" and f"api/default/{epname(owner)}.py" in files:
                        jobs.append({"what": "endpoint", "module": f"api.default.{epname(owner)}"})
                        jmap.append((c, s, probes))
                    elif kind == "comp" and f"models/{modname(owner)}.py" in files:
                        jobs.append({"what": "model", "module": f"models.{modname(owner)}", "cls": owner, "attrs": [], "construct": False, "probes": []})
                        jmap.append((c, s, probes))
            inp = json.dumps({"pkg_parent": str(g.out.parent), "pkg": g.out.name, "jobs": jobs})
            env = {k: v for k, v in os.environ.items() if k != "PYTHONPATH"}
            env["PYTHONHASHSEED"] = "0"
            r = subprocess.run([PY, "-I", "-W", "ignore", str(Path(__file__).resolve().parents[1] / "lib" / "gen_runner.py")], input=inp, capture_output=True, text=True, timeout=600, env=env)
            try:
                res = json.loads(r.stdout.split("\n@@RESULT@@\n", 1)[1])
            except Exception:
                res = None
            if not isinstance(res, list):
                run.violation("oracle", {"note": "runner failed on a twin-enum client", "detail": (r.stderr or r.stdout)[-400:]})
                continue
            byjob = {(c["j"], s): (rr, probes) for (c, s, probes), rr in zip(jmap, res)}
            for c in grp:
                sites = twin_sites(c)
                tag = {"input": [c["va"], c["vb"]], "layout": c["layout"], "literal_enums": literal}
                generated = 0
                cd = lambda s: f"(DEnum {cstr(s[4])} {cstr(s[5])} {cevs(s[3])})"
                ds = clist([cd(s) for s in sites], "cdecl")
                for s, site in enumerate(sites):
                    kind, owner, prop, vs, _, _ = site
                    run.note_case({**tag, "site": s}, nontrivial=True, kind="twin:" + c["layout"])
                    hit = byjob.get((c["j"], s))
                    hasdiag = any(re.search(r"/%s\b" % re.escape(owner), (h or "") + (d or "")) or re.search(r"/t%d\b" % c["j"], (h or "") + (d or "")) and kind == "param" for _, h, d in diag)
                    if hit is None:
                        if not hasdiag:
                            fails.append((tag, f"{kind} {owner}.{prop} was not generated and no diagnostic names it"))
                        continue
                    generated += 1
                    rr, probes = hit
                    if "import_error" in rr or "runner_error" in rr:
                        fails.append((tag, f"{kind} {owner}: {rr.get('import_error') or rr.get('runner_error')}"))
                        continue
                    vt = vals.cvtype(type(vs[0]))
                    # the class this site uses: members must be exactly the values ITS OWN schema lists
                    if literal:
                        ls = list(rr.get("literals", {}).values())
                        mvals = [dec_value(x) for x in ls[0]["set"]] if ls else None
                    else:
                        es = list(rr.get("enums", {}).values())
                        mvals = [dec_value(v) for k, v in es[0]["members"] if k in es[0]["canonical"]] if len(es) == 1 else None
                        if len(es) == 1 and (tier == "thorough" or not c.get("_tabled")):
                            c["_tabled"] = True      # quick tier: one class-table comparison per case (each evaluates Scopes.model_decls)
                            nmap = {unicodedata.normalize("NFKC", k): k for k in (_real_keys(vs) or {})}
                            mem = [(nmap.get(k, k), dec_value(v)) for k, v in es[0]["members"]]
                            terms.append(f"ocls_eqb (tw_table {ds} {cd(site)} {vt}) (Some {clist(['(%s, %s)' % (cstr(k), vals.cjval(v)) for k, v in mem], '(str * jval)')})")
                            meta.append({**tag, "what": "class table of site %d" % s, "impl": mem, "term": f"tw_table {ds} {cd(site)} {vt}"})
                    if kind != "comp" or not literal:
                        if mvals is None:
                            fails.append((tag, f"{kind} {owner}: no single enum class / VALUES set visible from the generated module"))
                        elif not (all(any(same(v, w) for w in mvals) for v in vs) and all(any(same(v, w) for w in vs) for v in mvals)):
                            fails.append((tag, f"{kind} {owner}.{prop or ''} lists {vs!r} but its generated class holds {mvals!r}"))
                    if kind == "prop":
                        for pv, pr in zip(probes, rr["probes"]):
                            listed = any(same(pv, v) for v in vs)
                            if not listed and any((not isinstance(pv, str)) and (not isinstance(v, str)) and pv == v for v in vs):
                                continue
                            if "fail" in pr:
                                if listed:
                                    fails.append((tag, f"{owner}.{prop} lists {pv!r} but from_dict rejects it ({pr['fail']})"))
                                continue
                            a = pr["attrs"][prop]
                            got = dec_value(a["value"]) if a["t"] == "member" else dec_value(a)
                            back = dec_value(pr["to_dict"]["v"][prop]) if "to_dict" in pr and prop in pr["to_dict"].get("v", {}) else ("?",)
                            if not listed:
                                fails.append((tag, f"{owner}.{prop} lists {vs!r} but from_dict accepts the unlisted {pv!r}"))
                            elif not same(got, pv) or not same(back, pv):
                                fails.append((tag, f"{owner}.{prop}: listed {pv!r} decodes to {got!r} and encodes to {back!r}"))
                if not literal:
                    terms.append(f"onat_eqb (tw_errs {ds}) (Some {len(sites) - generated}%nat)")
                    meta.append({**tag, "what": "number of reported declarations", "impl": len(sites) - generated, "term": f"tw_errs {ds}"})
    bad = run_cases(HDR_TW, terms)
    for i in bad[:8]:
        m = meta[i]
        model = coq_eval(HDR_TW, m["term"])
        run.violation("correspondence", {"what": m["what"], "input": m["input"], "layout": m["layout"], "impl": str(m["impl"])[:300], "model": model[-400:],
                                         "note": "EnumProperty.build's handling of two enums with one class name disagrees with Scopes.model_decls"})
    seen = set()
    for tag, detail in fails:
        k = json.dumps([tag["input"], tag["layout"], tag["literal_enums"]], default=str)
        if k in seen:
            continue
        seen.add(k)
        run.violation("oracle", {**tag, "detail": detail[:400],
                                 "note": "document oracle: an enum-typed property generated without a diagnostic must accept exactly the values its own schema lists (two enums sharing one class name)"})
    return len(terms), len(bad)


# ------------------------------------------------------------------ what is SENT for a member in every parameter location
SENT_LISTS = [["cat", "dog fish", "A-b"], ["a", "B"], ["x_y", "x y2", "Z.z"], ["v1", "2nd", "ok"], [1, -2, 0], [10, 7], [3]]


def _sendable(l):
    import string
    ok = set(string.ascii_letters + string.digits + " _-.")
    return all(isinstance(v, int) or (v and set(v) <= ok and v not in (".", "..") and v == v.strip()) for v in l)


def stage_sent(run, tier, lists):
    from openapi_python_client.utils import PythonIdentifier
    import keyword
    cfg0 = vals.ref_schemas({})[0]
    epname = lambda n: str(PythonIdentifier(n, cfg0.field_prefix))
    pool = list(SENT_LISTS)
    extra = 4 if tier == "quick" else 120
    for l in lists:
        if extra <= 0:
            break
        tl = homogeneous(l)
        if tl is None or None in l or not _sendable(l) or len(set(map(repr, l))) != len(l):
            continue
        if tl is str:
            keys = _real_keys(l)
            if keys is None or len(keys) != len(l) or any(not k.isidentifier() or keyword.iskeyword(k) for k in keys):
                continue
        pool.append(l)
        extra -= 1
    cases = []
    for l in pool:
        for site in ("component", "inline"):
            for loc in ("path", "query", "header", "cookie"):
                cases.append({"values": l, "site": site, "loc": loc})
    for j, c in enumerate(cases):
        c["j"] = j
    fails = []
    for literal in (False, True):
        comps, paths = {}, {}
        for c in cases:
            j = c["j"]
            sch = {"enum": list(c["values"])}
            if c["site"] == "component":
                comps[f"Snt{j}Kind"] = sch
                sch = {"$ref": f"#/components/schemas/Snt{j}Kind"}
            path = f"/s{j}/{{p}}" if c["loc"] == "path" else f"/s{j}"
            paths[path] = {"get": {"operationId": f"snt{j}", "parameters": [{"name": "p", "in": c["loc"], "required": True, "schema": sch}], "responses": {"200": {"description": "ok"}}}}
        with impl.Gen(impl.base_doc(components={"schemas": comps}, paths=paths), cfg={"literal_enums": literal}) as g:
            files = g.files() if g.out.exists() else {}
            if g.exc is not None or not files:
                run.violation("oracle", {"note": "document with enum parameters makes the generator raise", "exc": repr(g.exc)})
                continue
            jobs = [{"what": "call", "module": f"api.default.{epname('snt%d' % c['j'])}", "param": "p"} for c in cases]
            inp = json.dumps({"pkg_parent": str(g.out.parent), "pkg": g.out.name, "jobs": jobs})
            env = {k: v for k, v in os.environ.items() if k != "PYTHONPATH"}
            env["PYTHONHASHSEED"] = "0"
            r = subprocess.run([PY, "-I", "-W", "ignore", str(Path(__file__).resolve().parents[1] / "lib" / "gen_runner.py")], input=inp, capture_output=True, text=True, timeout=900, env=env)
            try:
                res = json.loads(r.stdout.split("\n@@RESULT@@\n", 1)[1])
            except Exception:
                res = None
            if not isinstance(res, list):
                run.violation("oracle", {"note": "runner failed on the enum-parameter client", "detail": (r.stderr or r.stdout)[-400:]})
                continue
            for c, R in zip(cases, res):
                tag = {"input": c["values"], "site": c["site"], "location": c["loc"], "literal_enums": literal}
                if f"api/default/{epname('snt%d' % c['j'])}.py" not in files or "import_error" in R or "runner_error" in R:
                    fails.append((tag, None, f"endpoint with the enum parameter was not generated / does not import: {R.get('import_error') or R.get('runner_error') or g.diag()[:2]}"))
                    continue
                for v in c["values"]:
                    text = v if isinstance(v, str) else str(v)
                    run.note_case({**tag, "value": repr(v)}, nontrivial=True, kind=f"sent:{c['loc']}:{'int' if isinstance(v, int) else 'str'}")
                    rec = next((x for x in R.get("calls", []) if same(dec_value(x["value"]), v)), None)
                    if rec is None:
                        fails.append((tag, None, f"no member / Literal alternative for the listed value {v!r}"))
                        continue
                    if not (rec["str"] == rec["format"] == rec["fstr"] == text):
                        fails.append((tag, None, f"member {rec['name']} of value {v!r}: str() = {rec['str']!r}, format() = {rec['format']!r}, f-string = {rec['fstr']!r}; declared text {text!r}"))
                    if "error" in rec:
                        fid = "cookie_non_string" if (c["loc"] == "cookie" and isinstance(v, int) and rec["error"].startswith("TypeError")) else None
                        fails.append((tag, fid, f"calling the endpoint with the member of {v!r} raises {rec['error']}"))
                        continue
                    sent = rec["sent"]
                    if c["loc"] == "path":
                        got, want = sent["path"], f"/s{c['j']}/{text}"
                    elif c["loc"] == "query":
                        got, want = [q[1] for q in sent["query"] if q[0] == "p"], [text]
                    elif c["loc"] == "header":
                        got, want = sent["headers"].get("p"), text
                    else:
                        got, want = sent["headers"].get("cookie"), f"p={text}"
                    if got != want:
                        fails.append((tag, None, f"value {v!r} is sent in the {c['loc']} as {got!r}, the document's value text is {want!r}"))
    seen = set()
    for tag, fid, detail in fails:
        k = json.dumps([tag, detail[:60]], default=str)
        if k in seen:
            continue
        seen.add(k)
        if fid is None or not run.known_finding(fid, f"{tag['input']!r} as {tag['location']} parameter ({tag['site']}, literal_enums={tag['literal_enums']}): {detail}"[:400]):
            run.violation("oracle", {**tag, "detail": detail[:400], "note": "what is sent for an enum member (request captured behind httpx.MockTransport) must be the declared value's text in every parameter location"})
    return len(cases)


def run(run, tier, replay=None):
    lists = gen_lists(run.rng, tier)
    if replay:
        rp = json.load(open(replay))
        lists = [v["input"] for v in rp["violations"] if isinstance(v.get("input"), list)] or lists[:10]
    run.rule = ("enum value lists of length 1-6 over hostile strings (case / punctuation / leading digit / empty / non-ASCII first letter / quotes / backslashes / names that collide "
                "after sanitising), zero/negative/huge integers, with and without null and mixed types; a parser-level case is one call of values_from_list / EnumProperty.build / "
                "LiteralEnumProperty.build; a generated-code case is one (value list or const, enum style, required?) x one probe value decoded by the generated from_dict in a fresh "
                "interpreter (listed values, same-type unlisted values, Python-equal values of another JSON type, other types, null); non-trivial = more than one value or a probe; "
                "distinct by hash of (list, style, probe)")
    n1, b1 = stage_b_parser(run, tier, lists)
    n2, b2 = stage_gen(run, tier, lists)
    n3, b3 = stage_twins(run, tier)
    run.extra["sent_cases"] = stage_sent(run, tier, lists)
    n2, b2 = n2 + n3, b2 + b3
    run.corr = {"cases": n1 + n2, "mismatches": b1 + b2,
                "what": "EnumProperty.values_from_list == Values.values_from_list; Enum/LiteralEnumProperty.build == Enums.enum_build; generated Enum members / *_VALUES set / "
                        "from_dict decode of every probe / const check / str(member) == Enums.str_enum_class,int_enum_class,literal_values,enum_decode,nullable_*_decode,const_accepts,enum_text (vm_compute); "
                        "two enums deriving one class name (inline/inline, inline/component, property/parameter): reported declarations and the shared class table == Scopes.model_decls"}
    run.assumptions += ["CPython's enum.Enum value lookup, set membership and == are represented by Enums.enum_lookup / literal_check / py_eq (validated by the correspondence only)",
                        "g_repr_printable restricts the model's string-literal lexer (no \\x/\\u escapes); literal enums over other strings are covered by the correspondence only"]
