"""C07 - nothing in the document is dropped silently.

Stage C (the property, on the implementation): documents with seeded breakage (broken / unsupported schemas, dependants of broken
schemas at distance 1-3, Reference components, class-name and module-name coincidences, operations with broken parameters,
unsupported / partly unsupported request media types, invalid / unparseable / aliased response statuses, operationIds whose
module names coincide) are generated; the census of api/<tag>/*.py (AST: method + url of _get_kwargs, status comparisons of
_parse_response, body kwargs / Content-Type constants) and models/*.py (class definitions) is joined with the document's
operations and object/enum component schemas and with the diagnostics generate() returned: every item is generated or
diagnosed, every documented status / media type of a generated operation is handled or named in a warning, two items never
share one artefact without a diagnostic.

Stage B (correspondence): (1) per component schema, `class in res_cbn` and `named by a diagnostic` of coq/Graph.v on the
abstracted graph == the census of the generated tree and the real diagnostics; (2) the endpoint loop: Census.collections on
the operations (per-piece outcomes obtained from the real leaf parsers as oracles) == the real EndpointCollection.from_data
result: per tag the endpoints in order and the warnings (METHOD path, kind) in order."""
from __future__ import annotations
import ast, concurrent.futures as cf, copy, json, random, re, time
from lib.common import run_cases, coq_eval, cstr
from lib import impl
import abstract_graph as AG

HDR = "Require Import OPC.Uni OPC.Names OPC.Graph OPC.Census.\nOpen Scope N_scope.\n" + r"""
Definition named (r : result) (x : N) : bool :=
  existsb (fun e => (er_create e && (er_unit e =? x)) || (negb (er_create e) && (er_unit e =? x)) || mem x (er_removed e)) (res_errs r).
Definition census_case (g : graph) (obs : list (N * (N * (bool * bool)))) : bool :=
  let r := build_schemas g in
  forallb (fun o => Bool.eqb (match fst (snd o) with 0 => has (res_cbr r) (fst o) | c => has (res_cbn r) c end) (fst (snd (snd o)))
                    && Bool.eqb (named r (fst o)) (snd (snd (snd o)))) obs.
Definition col_obs := (str * (list str * list (str * N)))%type.
Definition col_eqb (c : collection) (o : col_obs) : bool :=
  str_eqb (c_tag c) (fst o)
  && (fix eqs (a b : list str) := match a, b with [], [] => true | x :: a', y :: b' => str_eqb x y && eqs a' b' | _, _ => false end)
       (map ep_key (c_endpoints c)) (fst (snd o))
  && (fix eqw (a : list (str * warning)) (b : list (str * N)) := match a, b with [], [] => true
        | (k, w) :: a', (k', n) :: b' => str_eqb k k' && (w_what w =? n) && eqw a' b' | _, _ => false end)
       (c_errors c) (snd (snd o)).
Fixpoint cols_eqb (cs : list collection) (os : list col_obs) : bool :=
  match cs, os with [] , [] => true | c :: cs', o :: os' => col_eqb c o && cols_eqb cs' os' | _, _ => false end.
(* the GENERATED function of every generated operation dispatches exactly the bodies / responses of the model's endpoint:
   gen : METHOD path -> (Content-Type per request-body branch of _get_kwargs, status per branch of _parse_response), read from the ast *)
Fixpoint strs_eqb (a b : list str) : bool := match a, b with [], [] => true | x :: a', y :: b' => str_eqb x y && strs_eqb a' b' | _, _ => false end.
Fixpoint ns_eqb (a b : list N) : bool := match a, b with [], [] => true | x :: a', y :: b' => (x =? y) && ns_eqb a' b' | _, _ => false end.
Fixpoint find_gen (gen : list (str * (list str * list N))) (k : str) : option (list str * list N) :=
  match gen with [] => None | (k', v) :: g' => if str_eqb k' k then Some v else find_gen g' k end.
Definition gen_case (ops : list operation) (gen : list (str * (list str * list N))) : bool :=
  forallb (fun o => match parse_operation o, find_gen gen (o_key o) with
                    | Some ep, Some (cts, sts) => strs_eqb (ep_bodies ep) cts && ns_eqb (map snd (ep_responses ep)) sts
                    | _, _ => true end) ops.
Definition ops_case (ops : list operation) (obs : list col_obs) : bool :=
  cols_eqb (collections ops) obs && forallb (op_accounted (collections ops)) ops.
"""
REF = "#/components/schemas/"
METHODS = ["get", "put", "post", "delete", "options", "head", "patch", "trace"]
_CFG = None


def cfg():
    global _CFG
    if _CFG is None:
        _, _CFG = impl.parse_doc({"openapi": "3.1.0", "info": {"title": "t", "version": "1"}, "paths": {}})
    return _CFG


OBJ = lambda props, **kw: {"type": "object", "properties": props, **kw}
FLOAT_ENUM = {"type": "number", "enum": [0.5, 1.5]}


# ====================================================================== documents with seeded breakage
def prefix_dependant(kind, target):
    if kind == "prop":
        return OBJ({"item": {"$ref": REF + target}})
    if kind == "items":
        return OBJ({"items": {"type": "array", "items": {"$ref": REF + target}}})
    if kind == "allof":
        return {"allOf": [{"$ref": REF + target}, OBJ({"own": {"type": "boolean"}})]}
    return OBJ({"k": {"type": "string"}}, additionalProperties={"$ref": REF + target})


def prefix_docs():
    """deterministic documents: for every recorded edge kind, a dependant whose name is a proper prefix of the broken schema's name,
    alone and in a chain (A <- AB <- ABC broken), declared before and after it"""
    out = []
    for kind in ("prop", "items", "allof", "addl"):
        for order in (0, 1):
            S = {"OrderItem": OBJ({"n": {"type": "integer"}, "broken": {"type": "array"}}), "Order": prefix_dependant(kind, "OrderItem"),
                 "PetStore": OBJ({"broken": {"$ref": REF + "Nowhere"}}), "Pet": prefix_dependant(kind, "PetStore"), "Pe": prefix_dependant("prop", "Pet"),
                 "ABC": OBJ({"broken": {"enum": [1, "x"]}}), "AB": prefix_dependant(kind, "ABC"), "A": prefix_dependant(kind, "AB"),
                 "Other": OBJ({"fine": {"type": "string"}})}
            if order:
                S = dict(reversed(list(S.items())))
            out.append((f"prefix:{kind}:{order}", {"openapi": "3.1.0", "info": {"title": "t", "version": "1"}, "paths": {}, "components": {"schemas": S}}))
    return out


def same_kind_docs():
    """operations whose request body has 2-3 media types of the SAME kind with different schemas, alone and mixed with other kinds and
    with unsupported ones; two form types through content_type_overrides.  (label, document, config)"""
    S = {"Thing": OBJ({"name": {"type": "string"}}), "ThingPatch": OBJ({"rename": {"type": "string"}}), "ThingApi": OBJ({"data": {"type": "integer"}}),
         "FormA": OBJ({"a": {"type": "string"}}), "FormB": OBJ({"b": {"type": "integer"}})}
    ref = lambda n: {"schema": {"$ref": REF + n}}
    ok = {"200": {"description": "ok"}, "404": {"description": "nf", "content": {"application/json": {"schema": {"$ref": REF + "Thing"}}}}, "204": {"description": "none"}}
    def doc(paths, rbs=None):
        d = {"openapi": "3.1.0", "info": {"title": "t", "version": "1"}, "paths": paths, "components": {"schemas": copy.deepcopy(S)}}
        if rbs:
            d["components"]["requestBodies"] = rbs
        return d
    def opn(oid, content, **kw):
        return {"operationId": oid, "requestBody": {"content": content}, "responses": copy.deepcopy(ok), **kw}
    out = []
    j, mp, va = "application/json", "application/merge-patch+json", "application/vnd.api+json"
    out.append(("samekind:json2", doc({"/t": {"patch": opn("patchT", {j: ref("Thing"), mp: ref("ThingPatch")})}}), None))
    out.append(("samekind:json3", doc({"/t": {"put": opn("putT", {j: ref("Thing"), mp: ref("ThingPatch"), va: ref("ThingApi")})}}), None))
    out.append(("samekind:json2+other", doc({"/t": {"post": opn("postT", {j: ref("Thing"), "multipart/form-data": ref("FormA"), mp: ref("ThingPatch"),
                                                                           "application/xml": {"schema": {"type": "string"}}, "application/octet-stream": {"schema": {"type": "string", "format": "binary"}}})},
                                             "/u": {"post": opn("postU", {mp: ref("ThingPatch"), "text/csv": {"schema": {"type": "string"}}, va: ref("ThingApi")}, tags=["b"])}}), None))
    out.append(("samekind:json-inline", doc({"/t": {"post": opn("inl", {j: {"schema": OBJ({"x": {"type": "string"}})}, va: {"schema": {"type": "array", "items": {"type": "integer"}}}})}}), None))
    out.append(("samekind:byref", doc({"/t": {"post": {"operationId": "byRef", "requestBody": {"$ref": "#/components/requestBodies/Both"}, "responses": copy.deepcopy(ok)}}},
                                      rbs={"Both": {"content": {j: ref("Thing"), mp: ref("ThingPatch")}}}), None))
    ov = {"content_type_overrides": {"application/x-custom-form": "application/x-www-form-urlencoded", "application/x-files": "multipart/form-data"}}
    out.append(("samekind:form2", doc({"/f": {"post": opn("forms", {"application/x-www-form-urlencoded": ref("FormA"), "application/x-custom-form": ref("FormB")})}}), ov))
    out.append(("samekind:files2", doc({"/f": {"post": opn("files", {"multipart/form-data": ref("FormA"), "application/x-files": ref("FormB"), j: ref("Thing")})}}), ov))
    return out


def gen_census_doc(rng: random.Random, size=None):
    n = size or rng.randint(5, 12)
    names = [f"Model{i}" for i in range(n)]
    S, notes = {}, []
    for i, nm in enumerate(names):
        props = {"id": {"type": "integer"}, f"f{i}": rng.choice([{"type": "string"}, {"type": "number"}, {"type": "string", "format": "date"}])}
        r = rng.random()
        if i > 0 and r < 0.55:        # dependants at distance 1-3: chains over earlier or later models
            t = names[rng.randrange(n)]
            k = rng.choice(["prop", "items", "allof", "union", "addl"])
            if k == "prop":
                props["link"] = {"$ref": REF + t}
            elif k == "items":
                props["links"] = {"type": "array", "items": {"$ref": REF + t}}
            elif k == "union":
                props["either"] = {"anyOf": [{"$ref": REF + t}, {"type": "string"}]}
            if k == "allof" and t != nm:
                S[nm] = {"allOf": [{"$ref": REF + t}, OBJ({f"own{i}": {"type": "boolean"}})]}
                continue
            if k == "addl":
                S[nm] = OBJ(props, additionalProperties={"$ref": REF + t})
                continue
        if rng.random() < 0.2:
            props["inline"] = OBJ({"z": {"type": "string"}})
        if rng.random() < 0.2:
            props["level"] = {"type": "string", "enum": ["lo", "hi"]}
        S[nm] = OBJ(props)
    # breakage
    for nm in rng.sample(names, rng.randint(0, max(1, n // 3))):
        body = S[nm] if "properties" in S[nm] else S[nm]["allOf"][1]
        body["properties"]["broken"] = rng.choice([{"type": "array"}, {"$ref": REF + "Nowhere"}, {"enum": [1, "x"]}, {"type": "integer", "default": "no"},
                                                   FLOAT_ENUM, {"enum": [True, False]}])      # the last two: errors with a header and no detail
        notes.append(("broken", nm))
    extras = rng.sample(["enum", "refnode", "badarray", "classdup", "moddup", "arr", "wrap", "enum_vs_model", "model_vs_enum", "enum_vs_enum"], rng.randint(1, 5))
    # class-name coincidences between an ENUM and a MODEL (both directions; the component is shuffled before or after its twin's owner)
    plain = [nm for nm in names if "properties" in S[nm]]
    if "enum_vs_model" in extras and plain:
        nm = rng.choice(plain)
        S[nm]["properties"]["status"] = {"type": "string", "enum": ["on", "off"]}        # inline enum, class <nm>Status
        S[nm + "Status"] = OBJ({"since": {"type": "string"}})                               # component MODEL of the same class name
        notes.append(("enum_vs_model", nm))
    if "model_vs_enum" in extras and plain:
        nm = rng.choice(plain)
        S[nm]["properties"]["detail"] = OBJ({"z": {"type": "string"}})                     # inline model, class <nm>Detail
        S[nm + "Detail"] = {"type": "string", "enum": ["d1", "d2"]}                          # component ENUM of the same class name
        notes.append(("model_vs_enum", nm))
    if "enum_vs_enum" in extras and plain:
        nm = rng.choice(plain)
        S[nm]["properties"]["grade"] = {"type": "string", "enum": ["a", "b"]}
        S[nm + "Grade"] = {"type": "string", "enum": rng.choice([["a", "b"], ["a", "c"]])}   # equal values: shared by design; different: conflict
        notes.append(("enum_vs_enum", nm))
    if "enum" in extras:
        S["Color"] = {"type": "string", "enum": ["red", "green"]}
        S["BadEnum"] = {"enum": [1, "a"]}
    if "refnode" in extras:
        S["Alias"] = {"$ref": REF + names[0]}
    if "badarray" in extras:
        S["Bag"] = {"type": "array"}
        S["BagUser"] = OBJ({"bag": {"$ref": REF + "Bag"}})
    if "classdup" in extras:
        S["Thing"] = OBJ({"a": {"type": "string"}})
        S["thing"] = OBJ({"b": {"type": "string"}})
    if "moddup" in extras:
        S["AB"] = OBJ({"a": {"type": "string"}})
        S["Ab"] = OBJ({"b": {"type": "integer"}})
    if "arr" in extras:
        S["Rows"] = {"type": "array", "items": {"$ref": REF + rng.choice(names)}}
    if "wrap" in extras:
        S["Same"] = {"allOf": [{"$ref": REF + rng.choice(names)}]}
    # prefix-related names: the DEPENDANT's name is a proper prefix of the failing schema's name (Order -> broken OrderItem), so that
    # its reference path is a substring of one the cascade has already listed; every removed schema must still be named as a whole
    if "prefix" in extras or rng.random() < 0.35:
        for short, long_ in rng.sample([("Order", "OrderItem"), ("Pet", "PetStore"), ("Q", "QX"), ("Model1", "Model1Extra")], rng.randint(1, 2)):
            if short in S or long_ in S:
                continue
            S[long_] = OBJ({"n": {"type": "integer"}, "broken": rng.choice([{"type": "array"}, {"$ref": REF + "Nowhere"}])})
            k = rng.choice(["prop", "items", "allof", "addl"])
            S[short] = prefix_dependant(k, long_)
            if rng.random() < 0.5:      # distance 2: a second dependant whose name is again a prefix of the first one's
                S[short[:-1] or "P"] = prefix_dependant(rng.choice(["prop", "items"]), short) if (short[:-1] or "P") not in S else S[short[:-1] or "P"]
            notes.append(("prefix", short, long_))
    items = list(S.items())
    rng.shuffle(items)
    S = dict(items)
    # operations
    paths = {}
    tags = ["alpha", "beta", None]
    nops = rng.randint(3, 8)
    opids = []
    for k in range(nops):
        path = f"/r{k}" + ("/{pid}" if rng.random() < 0.3 else "")
        method = rng.choice(["get", "post", "put", "delete"])
        op = {"responses": {}}
        r = rng.random()
        if r < 0.75:
            oid = f"op{k}"
            if opids and rng.random() < 0.25:
                base = rng.choice(opids)
                oid = rng.choice([base.replace("_", "-"), base.replace("-", "_"), base + "_x", base.upper()])
            elif rng.random() < 0.3:
                oid = rng.choice([f"get-x{k}", f"get_x{k}", f"list things {k}"])
            op["operationId"] = oid
            opids.append(oid)
        tg = rng.choice(tags)
        r2 = rng.random()
        if r2 < 0.15:
            op["tags"] = []                                     # an empty list is "no tags": the default collection
        elif r2 < 0.25:
            op["tags"] = [rng.choice(["my tag", "my-tag", "My Tag"])]   # different tags, one sanitised identifier
        elif r2 < 0.32 and tg:
            op["tags"] = [tg, tg]                               # duplicate tags
        elif tg:
            op["tags"] = [tg] + (["extra"] if rng.random() < 0.3 else [])
        params = []
        if "{pid}" in path:
            params.append({"name": "pid", "in": "path", "required": rng.random() < 0.9, "schema": {"type": "integer"}})
        if rng.random() < 0.4:
            params.append({"name": "q", "in": "query", "schema": rng.choice([{"type": "string"}, {"type": "array"}, {"$ref": REF + rng.choice(list(S))}, FLOAT_ENUM])})
        if rng.random() < 0.1:
            params += [{"name": "dup", "in": "query", "schema": {"type": "string"}}, {"name": "dup", "in": "query", "schema": {"type": "string"}}]
        if params:
            op["parameters"] = params
        if method in ("post", "put") and rng.random() < 0.8:
            content = {}
            cts = rng.sample(["application/json", "application/xml", "multipart/form-data", "application/x-www-form-urlencoded",
                              "application/octet-stream", "text/csv", "application/vnd.api+json", "garbage"], rng.randint(1, 3))
            if rng.random() < 0.3:      # two or three media types of the JSON kind
                cts = rng.sample(["application/json", "application/merge-patch+json", "application/vnd.api+json"], rng.randint(2, 3)) + cts[:1]
                cts = list(dict.fromkeys(cts))
            for ct in cts:
                # an inline object only when it is the only media type: inline class names of several bodies of one operation can
                # coincide (json / +json), which is a naming matter outside this property's oracle for single pieces
                sch = rng.choice([{"$ref": REF + rng.choice(list(S))}, OBJ({"v": {"type": "string"}}) if len(cts) == 1 else {"type": "string"}, {"type": "array"}, None,
                                  FLOAT_ENUM, {"type": "array", "items": FLOAT_ENUM}])
                if ct == "application/octet-stream":
                    sch = {"type": "string", "format": "binary"}
                content[ct] = {"schema": sch} if sch is not None else {}
            op["requestBody"] = {"content": content}
        codes = rng.sample(["200", "201", "204", "400", "404", "default", "2XX", "0200", "418", "999"], rng.randint(1, 4))
        for c in codes:
            rr = rng.random()
            if rr < 0.5:
                op["responses"][c] = {"description": "d", "content": {"application/json": {"schema": {"$ref": REF + rng.choice(list(S))}}}}
            elif rr < 0.65:
                op["responses"][c] = {"description": "d", "content": {"application/json": {"schema": rng.choice([{"type": "array"}, FLOAT_ENUM])}}}
            elif rr < 0.75:
                op["responses"][c] = {"description": "d", "content": {"application/xml": {"schema": {"type": "string"}}}}
            else:
                op["responses"][c] = {"description": "d"}
        paths.setdefault(path, {})[method] = op
    return {"openapi": "3.1.0", "info": {"title": "t", "version": "1"}, "paths": paths, "components": {"schemas": S}}


# ====================================================================== census of a generated tree
def names_schema(text, name):
    """is the reference path of component `name` mentioned (as a whole word) in the diagnostics text?"""
    return re.search(re.escape(AG.PREFIX + name) + r"(?![A-Za-z0-9_])", text) is not None


def norm_url(u):
    return re.sub(r"\{[^}]*\}", "{}", u)


def census_api(files):
    """api/<tag>/<mod>.py -> {method, url, statuses, content_types, body_kwargs}"""
    out = {}
    for f, b in files.items():
        m = re.fullmatch(r"api/([^/]+)/([^/]+)\.py", f)
        if not m or m.group(2) == "__init__":
            continue
        info = {"tag": m.group(1), "module": m.group(2), "method": None, "url": None, "statuses": [], "content_types": [], "body_kwargs": []}
        try:
            tree = ast.parse(b.decode("utf-8"))
        except SyntaxError as e:
            info["syntax_error"] = repr(e)
            out[f] = info
            continue
        for fn in [n for n in tree.body if isinstance(n, ast.FunctionDef)]:
            if fn.name == "_get_kwargs":
                for node in ast.walk(fn):
                    if isinstance(node, ast.Dict):
                        for k, v in zip(node.keys, node.values):
                            if isinstance(k, ast.Constant) and k.value == "method" and isinstance(v, ast.Constant):
                                info["method"] = v.value.upper()
                            if isinstance(k, ast.Constant) and k.value == "url":
                                if isinstance(v, ast.Constant):
                                    info["url"] = v.value
                                elif isinstance(v, ast.Call) and isinstance(v.func, ast.Attribute) and isinstance(v.func.value, ast.Constant):
                                    info["url"] = v.func.value.value
                    if isinstance(node, ast.Assign) and len(node.targets) == 1 and isinstance(node.targets[0], ast.Subscript):
                        t = node.targets[0]
                        if isinstance(t.value, ast.Name) and isinstance(t.slice, ast.Constant):
                            if t.value.id == "headers" and t.slice.value == "Content-Type" and isinstance(node.value, ast.Constant):
                                info["content_types"].append(node.value.value)
                            if t.value.id == "_kwargs" and t.slice.value in ("json", "data", "files", "content"):
                                info["body_kwargs"].append(t.slice.value)
            if fn.name == "_parse_response":
                for node in ast.walk(fn):
                    if isinstance(node, ast.Compare) and isinstance(node.left, ast.Attribute) and node.left.attr == "status_code" \
                            and len(node.comparators) == 1 and isinstance(node.comparators[0], ast.Constant):
                        info["statuses"].append(node.comparators[0].value)
        out[f] = info
    return out


def census_models(files):
    """models/<mod>.py -> [(class name, kind)]; kind = model (an attrs class with from_dict / to_dict) | enum (Enum subclass or Literal alias)"""
    out = {}
    for f, b in files.items():
        m = re.fullmatch(r"models/([^/]+)\.py", f)
        if not m or m.group(1) == "__init__":
            continue
        lst = []
        try:
            tree = ast.parse(b.decode("utf-8"))
            for n in tree.body:
                if isinstance(n, ast.ClassDef):
                    fns = {x.name for x in n.body if isinstance(x, ast.FunctionDef)}
                    bases = {getattr(x, "id", getattr(x, "attr", "")) for x in n.bases}
                    kind = "enum" if any("Enum" in x for x in bases) else ("model" if {"from_dict", "to_dict"} & fns else "other")
                    lst.append((n.name, kind))
                elif isinstance(n, ast.Assign):
                    lst += [(t.id, "enum") for t in n.targets if isinstance(t, ast.Name) and t.id[:1].isupper()]
        except SyntaxError:
            pass
        out[f] = lst
    return out


def describes_class(s):
    """does a component schema describe an object or an enumeration of its own (not a bare reference / wrapper / array / union / scalar)?"""
    if not isinstance(s, dict) or "$ref" in s:
        return None
    sub = (s.get("allOf") or []) + (s.get("anyOf") or []) + (s.get("oneOf") or [])
    if len(sub) == 1 and isinstance(sub[0], dict) and "$ref" in sub[0]:
        return None
    if s.get("type") == "boolean":
        return None
    if s.get("enum"):
        vals = [v for v in s["enum"] if v is not None]
        return "enum" if vals else None
    if s.get("anyOf") or s.get("oneOf") or isinstance(s.get("type"), list) or "const" in s:
        return None
    if s.get("type") in ("string", "number", "integer", "null", "array"):
        return None
    if s.get("type") == "object" or s.get("allOf") or (s.get("type") is None and s.get("properties")):
        return "model"
    return None


def select_tags(op):
    from openapi_python_client import utils
    tags = [str(utils.PythonIdentifier(value=t, prefix="tag")) for t in (op.get("tags") or ["default"])]
    return tags[:1]


def op_name(path, method, op):
    if op.get("operationId") is not None:
        return op["operationId"]
    clean = path.replace("{", "").replace("}", "").replace("/", "_")
    if clean.startswith("_"):
        clean = clean[1:]
    if clean.endswith("_"):
        clean = clean[:-1]
    return f"{method}_{clean}"


# ====================================================================== leaf oracles + observation of the real endpoint loop
def observe_ops(doc, jcfg=None):
    """returns (operations for Census.v with per-piece outcomes from the real leaf parsers, observation of the real collections)"""
    from openapi_python_client import schema as oai, utils
    from openapi_python_client.parser.openapi import Endpoint, EndpointCollection, GeneratorData
    from openapi_python_client.parser.errors import ParseError
    from openapi_python_client.parser.properties import Schemas, Parameters, build_schemas, build_parameters
    from openapi_python_client.parser.responses import response_from_data
    from openapi_python_client.parser.bodies import body_from_data
    from http import HTTPStatus
    data, config = impl.parse_doc(doc, cfg=jcfg)
    o = oai.OpenAPI.model_validate(copy.deepcopy(doc))
    schemas = Schemas()
    if o.components and o.components.schemas:
        schemas = build_schemas(components=o.components.schemas, schemas=schemas, config=config)
    parameters = Parameters()
    if o.components and o.components.parameters:
        parameters = build_parameters(components=o.components.parameters, parameters=parameters, config=config)
    request_bodies = (o.components and o.components.requestBodies) or {}
    responses = (o.components and o.components.responses) or {}
    ops = []
    for path, item in o.paths.items():
        for method in METHODS:
            operation = getattr(item, method)
            if operation is None:
                continue
            raw = doc["paths"][path][method]
            raw_tags = [utils.PythonIdentifier(value=t, prefix="tag") for t in (raw.get("tags") or [])]     # what the operation declares
            tags = (raw_tags or [utils.PythonIdentifier(value="default", prefix="tag")])[:1]
            name = op_name(path, method, raw)
            ep = Endpoint(path=path, method=method, description="", name=name, requires_security=False, tags=tags)
            # the leaf parsers are called in the order of the real loop and the Schemas / Parameters they return are threaded on,
            # exactly as EndpointCollection.from_data does (inline classes of earlier operations are visible to later ones)
            r, schemas, parameters = Endpoint.add_parameters(endpoint=ep, data=operation, schemas=schemas, parameters=parameters, config=config)
            params_ok = not isinstance(r, ParseError)
            resps, bodies = [], []
            if params_ok:
                for code, rd in (operation.responses or {}).items():
                    try:
                        st = HTTPStatus(int(code))
                    except ValueError:
                        resps.append((code, "RBadCode"))
                        continue
                    rr, schemas = response_from_data(status_code=st, data=rd, schemas=schemas, responses=responses, parent_name=name, config=config)
                    resps.append((code, "RFail" if isinstance(rr, ParseError) else f"(ROk {int(st)})"))
                bl, schemas = body_from_data(data=operation, schemas=schemas, request_bodies=request_bodies, config=config, endpoint_name=name)
                rb = operation.request_body
                hops = 0
                while isinstance(rb, oai.Reference) and hops < 8:      # the media types are those of the resolved request body
                    rb = request_bodies.get(rb.ref.split("/")[-1])
                    hops += 1
                cts = list(rb.content) if isinstance(rb, oai.RequestBody) else ([None] if (rb is not None and bl) else [])
                if isinstance(rb, oai.RequestBody) and len(bl) != len(cts):
                    bodies = [(ct, "DROPPED") for ct in cts]      # body_from_data returned neither a Body nor an error for some media type
                else:
                    for ct, b in zip(cts, bl):
                        if isinstance(b, ParseError):
                            d = b.detail or ""
                            bodies.append((ct or "?", "BInvalid" if d == "Invalid content type" else "BMissingSchema" if d == "Missing schema"
                                           else "BUnsupported" if d.startswith("Unsupported content type") else "BPropFail"))
                        else:
                            bodies.append((ct, "BOk"))
                failed = bool(bodies) and all(x != "BOk" for _, x in bodies)
                if not failed:
                    r2 = copy.deepcopy(r)
                    r2, schemas, parameters = Endpoint.add_parameters(endpoint=r2, data=item, schemas=schemas, parameters=parameters, config=config)
                    params_ok = not isinstance(r2, ParseError)
                    if params_ok:
                        params_ok = not isinstance(Endpoint.sort_parameters(endpoint=r2), ParseError)
            ops.append({"key": f"{method.upper()} {path}", "name": name, "tags": [str(t) for t in raw_tags], "params_ok": params_ok,
                        "responses": resps, "bodies": bodies})
    # observation of the real loop
    cols = []
    if not isinstance(data, GeneratorData):
        return ops, None, data
    for tag, col in data.endpoint_collections_by_tag.items():
        eps = [f"{e.method.upper()} {next((p for p in doc['paths'] if norm_url(p) == norm_url(e.path) and e.method in doc['paths'][p]), e.path)}" for e in col.endpoints]
        ws = []
        for er in col.parse_errors:
            h = er.header or ""
            m = re.match(r"WARNING parsing ([A-Z]+) (.*) within ", h)
            key = f"{m.group(1)} {m.group(2)}" if m else "?"
            d = er.detail or ""
            if "Endpoint will not be generated" in h:
                what = 1
            elif d.startswith("Invalid response status code"):
                what = 2
            elif d.startswith("Cannot parse response for status code"):
                what = 3
            else:
                what = 4
            ws.append((key, what))
        cols.append((str(tag), eps, ws))
    return ops, cols, data


def c_op(o):
    rs = "[" + "; ".join(f"({cstr(c)}, {x})" for c, x in o["responses"]) + "]" if o["responses"] else "(@nil (str * resp_outcome))"
    bs = "[" + "; ".join(f"({cstr(c)}, {x})" for c, x in o["bodies"]) + "]" if o["bodies"] else "(@nil (str * body_outcome))"
    ts = "(sel_tags false " + ("[" + "; ".join(cstr(t) for t in o["tags"]) + "]" if o["tags"] else "(@nil str)") + ")"   # the model selects: tags or [default], first
    return f"mkOp {cstr(o['key'])} {cstr(o['name'])} {ts} {'true' if o['params_ok'] else 'false'} {rs} {bs}"


def c_cols(cols):
    def one(c):
        tag, eps, ws = c
        e = "[" + "; ".join(cstr(x) for x in eps) + "]" if eps else "(@nil str)"
        w = "[" + "; ".join(f"({cstr(k)}, {n})" for k, n in ws) + "]" if ws else "(@nil (str * N))"
        return f"({cstr(tag)}, ({e}, {w}))"
    return "[" + "; ".join(one(c) for c in cols) + "]" if cols else "(@nil col_obs)"


# ====================================================================== one document
def work(job):
    label, doc, seed = job[:3]
    jcfg = job[3] if len(job) > 3 else None
    res = {"label": label, "doc": doc, "cfg": jcfg, "problems": [], "terms": [], "stats": {}}
    try:
        from openapi_python_client import utils
        with impl.Gen(doc, cfg=jcfg) as g:
            if g.exc is not None:
                res["raised"] = repr(g.exc)[:300]
                return res
            files = g.files()
            diags = g.diag()
        text = "\n".join(f"{h}\n{d or ''}" for _, h, d in diags)
        if any(l == "ERROR" for l, _, _ in diags) and not files:
            res["rejected"] = True
            return res
        api = census_api(files)
        models = census_models(files)
        classes = {(c, k): f for f, cs in models.items() for c, k in cs}
        S = doc["components"]["schemas"]
        # ------------------------------------------------ schemas: generated or diagnosed; collapses
        ab = AG.Abs(doc, cfg())
        node_by_name = {n["name"]: n for n in ab.nodes}
        obs = []
        expected = {}     # module file -> [(component, class name)]
        sinfo = {}
        for name, s in S.items():
            kind = describes_class(s)
            n = node_by_name[name]
            cls_id = 0
            if n["top"][0] == "model":
                cls_id = n["entries"][n["top"][1]]["cls"]
            elif kind == "enum":
                for op, _ in n["create"]:
                    if op[0] == "mintenum":
                        cls_id = op[1]
            cname = ab.cls_of(cls_id) if cls_id else None
            sinfo[name] = (kind, n, cls_id, cname)
            if cname and kind is not None:
                expected.setdefault("models/" + str(utils.PythonIdentifier(cname, cfg().field_prefix)) + ".py", []).append((name, cname))
        res["expected_modules"] = expected
        colliding = {nm for modf, lst in expected.items() if len({c for _, c in lst}) > 1 for nm, _ in lst}
        for name, s in S.items():
            kind, n, cls_id, cname = sinfo[name]
            generated = ((cname, kind) in classes) if cname else None      # a class of the RIGHT kind: a model is not "generated" by an enum of its name
            diagnosed = names_schema(text, name)
            if cname is not None and kind is not None and name not in colliding:
                obs.append((n["ref"], cls_id, bool(generated), diagnosed))
            if kind is None or name in colliding:
                continue
            if not generated and not diagnosed:
                res["problems"].append({"kind": "schema-silent", "schema": name, "class": cname, "ref_id": n["ref"], "cls_id": cls_id})
                res["graph"] = ab.to_coq()
        # two distinct classes, one module file
        for modf, lst in res.get("expected_modules", {}).items():
            cn = {c for _, c in lst}
            if len(cn) > 1:
                present = {c for c, _ in models.get(modf, [])}
                lost = [(nm, c) for nm, c in lst if c not in present and not names_schema(text, nm)]
                if lost:
                    res["problems"].append({"kind": "module-collision", "module": modf, "classes": sorted(cn), "lost": lost})
        # same class name for two components: the later one must be diagnosed
        byclass = {}
        for name, s in S.items():
            n = node_by_name[name]
            if n["top"][0] == "model":
                byclass.setdefault(ab.cls_of(n["entries"][n["top"][1]]["cls"]), []).append(name)
        for c, nms in byclass.items():
            if len(nms) > 1:
                undiag = [nm for nm in nms[1:] if not names_schema(text, nm)]
                if undiag:
                    res["problems"].append({"kind": "class-collision-silent", "class": c, "schemas": nms})
        rows = [(r0, c0, g0, d0) for r0, c0, g0, d0 in obs if c0]
        obs_term = "[" + "; ".join(f"({r0}, ({c0}, ({'true' if g0 else 'false'}, {'true' if d0 else 'false'})))" for r0, c0, g0, d0 in rows) + "]" \
            if rows else "(@nil (N * (N * (bool * bool))))"
        if ab.imprecise:
            # the abstraction says itself that it cannot decide something in this document (e.g. a property redeclared with schemas
            # that hold model references): no correspondence claim for the schema part of this document
            res["imprecise"] = ab.imprecise[:3]
        else:
            res["terms"].append(("schemas", f"census_case {ab.to_coq()} {obs_term}"))
        # ------------------------------------------------ operations
        gen_ops = {(i["tag"], i["method"], norm_url(i["url"] or "")): (f, i) for f, i in api.items()}
        seen_modules = {}
        for path, item in doc["paths"].items():
            for method in METHODS:
                op = item.get(method)
                if not isinstance(op, dict):
                    continue
                key = f"{method.upper()} {path}"
                name = op_name(path, method, op)
                warned = [(h, d) for _, h, d in diags if h and f"WARNING parsing {key} within" in h]
                for tag in select_tags(op):
                    modf = f"api/{tag}/{utils.PythonIdentifier(name, cfg().field_prefix)}.py"
                    seen_modules.setdefault(modf, []).append(key)
                    hit = gen_ops.get((tag, method.upper(), norm_url(path)))
                    not_generated_warning = any("Endpoint will not be generated" in h for h, _ in warned)
                    if hit is None:
                        if not not_generated_warning:
                            res["problems"].append({"kind": "operation-silent", "op": key, "tag": tag, "module": modf, "name": name})
                        continue
                    f, info = hit
                    # responses
                    for code in (op.get("responses") or {}):
                        try:
                            st = int(code)
                            import http
                            http.HTTPStatus(st)
                        except ValueError:
                            st = None
                        named = any((f"status code {code} " in (d or "")) or (st is not None and f"status code {st}" in (d or "")) for _, d in warned)
                        if st is None:
                            if not named:
                                res["problems"].append({"kind": "status-silent", "op": key, "code": code})
                            continue
                        if st not in info["statuses"] and not named:
                            res["problems"].append({"kind": "status-silent", "op": key, "code": code})
                    codes = {}
                    for code in (op.get("responses") or {}):
                        try:
                            codes.setdefault(int(code), []).append(code)
                        except ValueError:
                            pass
                    for st, cs in codes.items():
                        if len(cs) > 1 and info["statuses"].count(st) >= 1:
                            omitted = [c for c in cs if any(f"status code {c} " in (d or "") for _, d in warned)]
                            if len(cs) - len(omitted) > 1:
                                res["problems"].append({"kind": "status-alias", "op": key, "codes": cs, "status": st})
                    # media types (requestBody references resolved): each one has its own dispatch branch in the GENERATED _get_kwargs
                    # (a Content-Type literal; the files kwarg for a lone multipart body), or a warning of this operation names it; a
                    # warning that names no media type (a property error of the body schema, "Missing schema", "Invalid content
                    # type") accounts for exactly one media type that is neither handled nor named
                    rb = op.get("requestBody")
                    hops = 0
                    while isinstance(rb, dict) and "$ref" in rb and hops < 6:
                        rb = ((doc.get("components") or {}).get("requestBodies") or {}).get(rb["$ref"].split("/")[-1])
                        hops += 1
                    gen_cts = list(info["content_types"])
                    if isinstance(rb, dict) and "content" in rb:
                        declared = list(rb["content"])
                        simp = lambda ct: ct.split(";")[0].strip()
                        body_warnings = [d or "" for h, d in warned if "Endpoint will not be generated" not in h
                                         and not (d or "").startswith("Invalid response status code") and not (d or "").startswith("Cannot parse response for status code")]
                        naming = lambda d: [ct for ct in declared if simp(ct) and simp(ct) in d]
                        unnamed_warnings = [d for d in body_warnings if not naming(d)]
                        lone_multipart = (not info["content_types"] and "files" in info["body_kwargs"])
                        pending = []
                        for ct in declared:
                            handled = ct in info["content_types"] or (lone_multipart and simp(ct) == "multipart/form-data")
                            if handled and lone_multipart and simp(ct) == "multipart/form-data":
                                gen_cts = [ct]
                            named = any(ct in naming(d) for d in body_warnings)
                            if not handled and not named:
                                pending.append(ct)
                        if len(pending) > len(unnamed_warnings):
                            res["problems"].append({"kind": "media-silent", "op": key, "content_types": pending, "generated_branches": info["content_types"],
                                                    "warnings": body_warnings})
                    res.setdefault("gen_obs", {})[key] = (gen_cts, list(info["statuses"]))
        for modf, keys in seen_modules.items():
            if len(keys) > 1:
                res.setdefault("module_clash", []).append((modf, keys))
        # ------------------------------------------------ stage B: the endpoint loop
        ops, cols, data = observe_ops(doc, jcfg)
        if cols is not None:
            if any(x == "DROPPED" for o in ops for _, x in o["bodies"]):
                res["terms"].append(("ops", "false"))    # body_from_data lost a media type: outside the model's outcome type, a mismatch by definition
            else:
                res["terms"].append(("ops", f"ops_case [{'; '.join(c_op(o) for o in ops)}] {c_cols(cols)}" if ops else f"ops_case (@nil operation) {c_cols(cols)}"))
                # the generated functions against the model's endpoints (operations whose module another operation overwrote are
                # not in gen_obs under their own key: find_gen returns None for them)
                clashed = {k for _, ks in res.get("module_clash", []) for k in ks}
                go = [(k, v) for k, v in res.get("gen_obs", {}).items() if k not in clashed]
                if ops and go:
                    gl = "[" + "; ".join(f"({cstr(k)}, ({'[' + '; '.join(cstr(c) for c in cts) + ']' if cts else '(@nil str)'}, "
                                         f"{'[' + '; '.join(str(int(x)) for x in sts) + ']' if sts else '(@nil N)'}))" for k, (cts, sts) in go) + "]"
                    res["terms"].append(("generated", f"gen_case [{'; '.join(c_op(o) for o in ops)}] {gl}"))
        res["stats"] = {"schemas": len(S), "ops": len(ops), "diags": len(diags), "problems": len(res["problems"])}
    except BaseException as e:  # noqa
        import traceback
        res["problems"].append({"kind": "harness", "what": repr(e) + traceback.format_exc()[-700:]})
    return res


def classify(run, r, p):
    """known finding (decided by an exact structural test that mirrors the guard of the theorem) or violation"""
    k = p["kind"]
    if k == "schema-silent" and p.get("model_predicts_pressure_loss"):
        if run.known_finding("name_pressure_pop", f"document {r['label']}: component {p['schema']} (class {p['class']}) has no module and no diagnostic; "
                                                  "g_no_name_pressure is false on the abstracted graph and the model predicts the same silent loss"):
            return
    if k == "operation-silent":
        clash = [keys for modf, keys in r.get("module_clash", []) if modf == p["module"]]
        if clash and run.known_finding("module_overwrite", f"document {r['label']}: operations {clash[0]} share the module file {p['module']}; "
                                                         f"{p['op']} has no function and no diagnostic"):
            return
    if k == "status-alias":
        if run.known_finding("status_alias", f"document {r['label']}: {p['op']} documents {p['codes']} which all parse to {p['status']}: one branch, no diagnostic"):
            return
    if k == "module-collision":
        if run.known_finding("module_collision_order", f"document {r['label']}: classes {p['classes']} share {p['module']}; {p['lost']} has no class and no diagnostic"):
            return
    run.violation("oracle", {"label": r["label"], "problem": p, "doc": r["doc"], "cfg": r.get("cfg")})


def run(run, tier, replay=None):
    rng = run.rng
    from gen import schemas as GS, docs as GD
    jobs = []
    if replay:
        rp = json.load(open(replay))
        jobs = [(v.get("label", "replay"), v["doc"], 1, v.get("cfg")) for v in rp["violations"] if "doc" in v][:10]
    else:
        for l, d in GS.atlas_docs():
            jobs.append(("atlas:" + l, d, 0))
        n = 150 if tier == "quick" else 2500
        for i in range(n):
            jobs.append((f"census{i}", gen_census_doc(random.Random(rng.randrange(1 << 40))), rng.randrange(1 << 30)))
        for i in range(20 if tier == "quick" else 200):
            jobs.append((f"gen_document{i}", GD.gen_document(random.Random(rng.randrange(1 << 30)), pressure=(i % 3 == 0))[0], 0))
        for l, d in prefix_docs():
            jobs.append((l, d, 0))
        for l, d, c in same_kind_docs():
            jobs.append((l, d, 0, c))
        # the recorded witnesses
        ok = {"200": {"description": "ok"}}
        jobs.append(("witness:module_overwrite", {"openapi": "3.1.0", "info": {"title": "t", "version": "1"}, "components": {"schemas": {}},
                                                  "paths": {"/a": {"get": {"operationId": "get-x", "responses": ok}}, "/b": {"get": {"operationId": "get_x", "responses": ok}}}}, 0))
        jobs.append(("witness:name_pressure_pop", {"openapi": "3.1.0", "info": {"title": "t", "version": "1"}, "paths": {}, "components": {"schemas": {
            "MP": OBJ({"q": {"type": "string"}}), "M": OBJ({"p": OBJ({"x": {"type": "string"}})}), "User": OBJ({"m": {"$ref": REF + "MP"}})}}}, 0))
        jobs.append(("witness:status_alias", {"openapi": "3.1.0", "info": {"title": "t", "version": "1"}, "components": {"schemas": {}},
                                              "paths": {"/a": {"get": {"operationId": "a", "responses": {"200": {"description": "x"}, "0200": {"description": "y"}}}}}}, 0))
    run.rule = ("one case = one document: the atlas, generated valid documents, and documents with seeded breakage (broken schemas and their dependants over "
                "prop/items/allOf/union/additionalProperties edges, Reference components, arrays without items, class-name twins Thing/thing, module-name twins AB/Ab, "
                "operationId twins get-x/get_x, broken and duplicate parameters, 1-3 request media types from a list of supported/unsupported/garbage ones, response keys "
                "incl. default / 2XX / 0200 / 999 with valid, invalid and unsupported contents); non-trivial = generate() returned at least one diagnostic; distinct by document hash")
    run.assumptions += ["abstraction function harness/abstract_graph.py", "the census reads the generated sources with ast (method/url constants of _get_kwargs, "
                        "status comparisons of _parse_response, Content-Type constants and body kwargs)",
                        "stage B(2) uses the real leaf parsers (add_parameters / sort_parameters, response_from_data per response, body_from_data per operation with a one-result-per-media-type "
                        "check) as oracles for the per-piece outcomes, called in the order of the real loop with the returned Schemas / Parameters threaded on; "
                        "the model is the control flow of EndpointCollection.from_data / _add_responses / the body loop",
                        "diagnostics are matched on the reference path /components/schemas/<name> and on the text METHOD path of the warning header"]
    t0 = time.time()
    results = []
    with cf.ProcessPoolExecutor(max_workers=14) as ex:
        for r in ex.map(work, jobs, chunksize=4):
            results.append(r)
    print("C07: %d documents generated and counted in %.1fs" % (len(results), time.time() - t0)); t0 = time.time()
    # a silent loss is the known finding only if the guard is false AND the model itself predicts exactly this loss (class not in
    # classes_by_name, component named by no diagnostic): otherwise the implementation lost something the model keeps or reports
    gi = [(i, p) for i, r in enumerate(results) if r.get("graph") for p in r["problems"] if p["kind"] == "schema-silent"]
    gt = [f"(let g := {results[i]['graph']} in let r := build_schemas g in negb (g_no_name_pressure g) && negb (has (res_cbn r) {p['cls_id']}) && negb (named r {p['ref_id']}))"
          for i, p in gi]
    gfalse = set(run_cases(HDR, gt, shard=50)) if gi else set()
    for k, (i, p) in enumerate(gi):
        p["model_predicts_pressure_loss"] = (k not in gfalse)
    terms, meta = [], []
    for r in results:
        if r.get("raised"):
            # nothing may abort the whole generation: every piece of these documents is either generated or dropped with a diagnostic
            # (the documents contain no duplicate enum keys, the one recorded crash: enum_dup_crash, C06/C14)
            run.note_case({"doc": r["label"]}, nontrivial=True, kind="census:raised")
            run.violation("oracle", {"label": r["label"], "problem": {"kind": "raises", "what": r["raised"]}, "doc": r["doc"]})
            continue
        nd = r["stats"].get("diags", 0)
        run.note_case({"doc": r["label"], "schemas": r["stats"].get("schemas"), "ops": r["stats"].get("ops")}, nontrivial=nd > 0,
                      kind=("census:" + ("clean" if nd == 0 else "diagnosed") + (":problem" if r["problems"] else "")))
        for p in r["problems"]:
            classify(run, r, p)
        for what, t in r["terms"]:
            terms.append(t); meta.append((r, what))
    bad = run_cases(HDR, terms, shard=60)
    print("C07: %d correspondence terms evaluated in %.1fs, %d mismatches" % (len(terms), time.time() - t0, len(bad)))
    run.corr = {"cases": len(terms), "mismatches": len(bad),
                "what": "per document: (1) Graph.v on the abstracted graph predicts for every component `class generated` (census of models/*.py) and `named by a "
                        "diagnostic` (diagnostics returned by generate()); (2) Census.collections on the operation list == real endpoint collections "
                        "(endpoints and warnings per tag, in order) and op_accounted holds for every operation"}
    for i in bad[:6]:
        r, what = meta[i]
        run.violation("correspondence", {"label": r["label"], "part": what, "doc": r["doc"], "cfg": r.get("cfg"), "term": terms[i][:3000],
                                         "note": "the generated tree / diagnostics no longer agree with the model for which C07's accounting theorems are proved"})
    run.extra["documents"] = len(results)
    run.extra["raised"] = sum(1 for r in results if r.get("raised"))
    run.extra["schema_correspondence_skipped_abstraction_imprecise"] = sum(1 for r in results if r.get("imprecise"))
