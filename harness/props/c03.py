"""C03 — requests put every argument where the document says it goes.
Stage B: the generated _get_kwargs executed in a fresh interpreter vs Endpoint.get_kwargs (vm_compute) on endpoints abstracted
from the implementation's own parse. Stage C: the request captured behind httpx.MockTransport (sync and asyncio variants) vs
an independent expectation computed from the DOCUMENT (method, path slots, query/header/cookie names and values, body,
Content-Type, credential header)."""
import json, random, urllib.parse, concurrent.futures as cf
from lib.common import cstr, run_cases, coq_eval
from lib import impl, absprop, epwork
from gen import ops as OPS

HDR_BASE = ("Require Import OPC.gen.GenKinds OPC.Uni OPC.Names OPC.Codec OPC.CodecObs OPC.Types OPC.Endpoint OPC.EndpointObs OPC.Parse OPC.Multipart.\nOpen Scope N_scope.\n"
            "Definition mpart_eqb (a b : mpart) : bool := match a, b with MText x, MText y | MBytes x, MBytes y | MStr x, MStr y => str_eqb x y | MJson x, MJson y => json_eqb x y | MFile, MFile => true | _, _ => false end.\n"
            "Fixpoint mpl_eqb (a b : list (str * mpart)) : bool := match a, b with [], [] => true | (k1, x) :: a', (k2, y) :: b' => str_eqb k1 k2 && mpart_eqb x y && mpl_eqb a' b' | _, _ => false end.\n"
            "Definition kw_case2 (T : ctable) (ep : endpoint) (a : args) (obs : option kwargs) : bool := match ep_bodies ep with [b] => match b_type b, arg a [98;111;100;121] with "
            "BFiles, Some (PObj c fs ad) => match to_multipart T 40 c fs ad with None => (match obs with None => true | _ => false end) | Some _ => kw_case T ep a obs end | _, _ => kw_case T ep a obs end | _ => kw_case T ep a obs end.\n"
            "Definition mp_case (o : oracles) (T : ctable) (c : N) (j : json) (obs : option (list (str * mpart))) : bool := "
            "match dec o T 40 (KModel c) j with Some (PObj c' fs ad) => match to_multipart T 40 c' fs ad, obs with Some m, Some ob => mpl_eqb m ob | None, None => true | _, _ => false end | _ => match obs with None => true | _ => false end end.\n"
            "Definition btype_eqb (a b : btype) : bool := match a, b with BJson, BJson | BData, BData | BFiles, BFiles | BContent, BContent => true | _, _ => false end.\n"
            "Definition bplan_eqb (a b : bplan) : bool := match a, b with BInvalidType, BInvalidType | BMissingSchema, BMissingSchema | BUnsupported, BUnsupported => true | BBody x, BBody y => btype_eqb x y | _, _ => false end.\n")


def doc_operation(doc, ep):
    """the operation object of the document this endpoint came from (by operationId), its path template and method"""
    for path, item in doc["paths"].items():
        for method, o in item.items():
            if not isinstance(o, dict) or method == "parameters":
                continue
            name = o.get("operationId")
            if name is None:
                # the documented naming rule for operations without operationId: <method>_<path with / -> _ and braces removed>
                clean = path.replace("{", "").replace("}", "").replace("/", "_").strip("_") if path.strip("/") else ""
                clean = path.replace("{", "").replace("}", "").replace("/", "_")
                clean = clean[1:] if clean.startswith("_") else clean
                clean = clean[:-1] if clean.endswith("_") else clean
                name = f"{method}_{clean}"
            if name == ep.name and ep.method.lower() == method.lower():
                return path, method, o, item
    return None


def declared_params(o, item, doc=None):
    """operation-level parameters first, then path-item ones not overridden: (name, in) -> parameter object; references to
    components/parameters are resolved against the DOCUMENT (the declared name is the component's `name`, not its key)"""
    out = {}
    for p in (o.get("parameters") or []) + (item.get("parameters") or []):
        if "$ref" in p:
            key = p["$ref"].rsplit("/", 1)[1]
            p = ((doc or {}).get("components", {}).get("parameters", {}) or {}).get(key)
            if p is None:
                continue
        out.setdefault((p["name"], p["in"]), p)
    return out


def work(args):
    label, doc, seed, nvec, cfg = args
    rng = random.Random(seed)
    out = {"label": label, "doc": doc, "cfg": cfg, "cases": [], "error": None, "skipped": []}
    try:
        with impl.Gen(doc, cfg=cfg) as g:
            if g.exc is not None:
                out["error"] = "generate raised " + repr(g.exc)
                return out
            data, config = impl.parse_doc(doc, cfg=cfg)
            ab = absprop.Abs(data)
            out["ctable"] = ab.ctable()
            out["diag"] = [d[1] + ": " + str(d[2]) for d in g.diag()]
            eps = epwork.endpoints_of(data, config)
            ops, meta = [], []
            strings = set()
            for module, tag, ep in eps:
                badn = epwork.non_identifier_params(ep)
                if badn:
                    out["skipped"].append((ep.name, "raw_fallback:" + ",".join(badn)))
                    continue
                try:
                    cep = epwork.cendpoint(ab, ep)
                except Exception as e:
                    out["skipped"].append((ep.name, repr(e)))
                    continue
                for vec in epwork.arg_vectors(ab, ep, rng, nvec):
                    epwork.strings_in_vec(vec, strings)
                    kwargs = {k: OPS.to_marker(v) for k, v in vec.items()}
                    ops.append({"op": "get_kwargs", "module": module, "kwargs": kwargs})
                    # every third call is answered by a REDIRECT: the generated client does not follow redirects unless asked to - still exactly one request
                    rsp = {"status": 307, "headers": {"location": "/elsewhere/after-redirect"}} if len(meta) % 3 == 2 else {"status": 508}
                    ops.append({"op": "call", "module": module, "variant": "sync_detailed", "kwargs": kwargs, "auth": bool(ep.requires_security), "response": rsp})
                    ops.append({"op": "call", "module": module, "variant": "asyncio_detailed", "kwargs": kwargs, "auth": bool(ep.requires_security), "response": rsp})
                    meta.append((module, ep, cep, vec))
            # document-level body plans: what body_from_data decided for each declared media type vs Parse.body_plan
            from openapi_python_client.utils import get_content_type
            plans = []
            for module, tag, ep in eps:
                found = doc_operation(doc, ep)
                rb = found[2].get("requestBody") if found else None
                hops = 0
                while rb and "$ref" in rb and hops < 10:
                    rb = (doc.get("components", {}).get("requestBodies", {}) or {}).get(rb["$ref"].rsplit("/", 1)[1])
                    hops += 1
                if not rb or "content" not in rb:
                    continue
                for ct, mt in rb["content"].items():
                    simp = get_content_type(ct, config)
                    got = next((b for b in ep.bodies if b.content_type == ct), None)
                    if got is not None:
                        obs = "(BBody %s)" % epwork.BT[str(got.body_type.value)]
                    else:
                        det = " ".join(str(e.detail) for e in ep.errors)
                        obs = "BInvalidType" if simp is None else ("BMissingSchema" if "schema" not in mt else "BUnsupported")
                    term = "bplan_eqb (body_plan %s %s) %s" % ("None" if simp is None else "(Some %s)" % cstr(simp), "true" if "schema" in mt else "false", obs)
                    mterm = "body_plan %s %s" % ("None" if simp is None else "(Some %s)" % cstr(simp), "true" if "schema" in mt else "false")
                    plans.append({"op": ep.name, "media_type": ct, "obs": obs, "term": term, "mterm": mterm, "generated": got is not None})
            out["plans"] = plans
            # to_multipart of every multipart-body model on schema-directed instances
            from gen import schemas as GS
            inst = GS.Inst(ab, rng)
            mp_ops, mp_meta = [], []
            for m in ab.models:
                if getattr(m, "is_multipart_body", False):
                    cname = str(m.class_info.name)
                    for _ in range(nvec + 2):
                        try:
                            j = inst.model_instance(cname, 0, True)
                        except Exception:
                            break
                        declared_names = {n for n, _, _ in ab.class_props(m)}
                        # str() of a list / dict (the text an untyped additional property is sent as) is not modelled: keep scalars only
                        j = {k: v for k, v in j.items() if k in declared_names or not isinstance(v, (list, dict))}
                        absprop.strings_in(j, strings)
                        mp_ops.append({"op": "multipart", "cls": cname, "data": absprop.to_runner_json(j)})
                        mp_meta.append((cname, j))
            n_main = len(ops)
            ops = ops + mp_ops
            res = impl.run_client(g.out, ops, timeout=600) if ops else []
            if isinstance(res, dict):
                out["error"] = "runner: " + res.get("fatal", "")[:1500]
                return out
            out["mp"] = []
            if not isinstance(res, dict):
                for (cname, j), r in zip(mp_meta, res[n_main:]):
                    ent = {"cls": cname, "data": j, "res": r, "cid": ab.cls_id[cname], "j": absprop.cjson(j)}
                    try:
                        ent["obs"] = cmp_obs(r)
                    except Exception as e:
                        ent["unrepresentable"] = repr(e)
                    out["mp"].append(ent)
            for i, (module, ep, cep, vec) in enumerate(meta):
                rk, rs, ra = res[3 * i], res[3 * i + 1], res[3 * i + 2]
                case = {"module": module, "op": ep.name, "vec": {k: list(v) for k, v in vec.items()}, "kw": rk, "sync": rs, "async": ra, "cep": cep,
                        "cargs": None}
                try:
                    case["cargs"] = epwork.cargs(ab, vec, "O@", "T@")
                    if "exc" in rk or "fatal_op" in rk:
                        case["obs"] = "None"
                    else:
                        case["obs"] = "(Some " + epwork.ckwargs(ab, rk["kwargs"]) + ")"
                except Exception as e:
                    case["unrepresentable"] = repr(e)
                case["expect"] = expectation(doc, ep, vec)
                out["cases"].append(case)
            out["oracles"] = absprop.oracle_terms(strings)
    except BaseException as e:  # noqa
        import traceback
        out["error"] = "harness worker: " + repr(e) + traceback.format_exc()[-1200:]
    return out


def cmp_obs(r):
    """observed to_multipart() mapping -> Coq `option (list (str * mpart))` (keys sorted by code point)"""
    if "dec_exc" in r or "enc_exc" in r or "fatal_op" in r:
        return "None"
    out = r["out"]
    if out["t"] != "dict":
        raise ValueError("to_multipart did not return a dict")
    items = []
    for k, v in sorted(out["v"].items(), key=lambda kv: [ord(c) for c in kv[0]]):
        if v["t"] == "list" and v.get("tuple") and len(v["v"]) == 3 and v["v"][1]["t"] == "bytes":
            data = bytes.fromhex(v["v"][1]["v"])
            ctype = v["v"][2].get("v")
            if ctype == "text/plain":
                items.append(f"({cstr(k)}, MText {cstr(data.decode('utf-8'))})")
            elif ctype == "application/json":
                items.append(f"({cstr(k)}, MJson {absprop.cjson(json.loads(data))})")
            else:
                raise ValueError("unknown part content type %r" % ctype)
        elif v["t"] == "bytes":
            items.append(f"({cstr(k)}, MBytes {cstr(bytes.fromhex(v['v']).decode('utf-8'))})")
        elif v["t"] == "j" and isinstance(v["v"], str):
            items.append(f"({cstr(k)}, MStr {cstr(v['v'])})")
        elif v["t"] == "list" and v.get("tuple"):
            items.append(f"({cstr(k)}, MFile)")
        else:
            raise ValueError("unexpected multipart value %r" % (v,))
    return "(Some [" + "; ".join(items) + "])"


def expectation(doc, ep, vec):
    """what the DOCUMENT says the request must look like for this argument vector (independent of the model)"""
    found = doc_operation(doc, ep)
    if not found:
        return None
    path, method, o, item = found
    params = declared_params(o, item, doc)
    exp = {"method": method.upper(), "query": {}, "headers": {}, "cookies": {}, "absent_query": [], "absent_headers": [], "absent_cookies": [], "path": path, "hostile_path": False}
    by_loc = {"query": ep.query_parameters, "header": ep.header_parameters, "cookie": ep.cookie_parameters, "path": ep.path_parameters}
    # every parameter the DOCUMENT declares for this operation (operation level + path-item level) must be an argument of the function
    exp["missing_params"] = [f"{n} in {l}" for (n, l), pd in params.items() if "schema" in pd and not any(q.name == n for q in by_loc.get(l, []))]
    for loc, plist in by_loc.items():
        for p in plist:
            v = vec.get(str(p.python_name))
            if v is None:
                continue
            if loc == "path":
                try:
                    s = epwork.wire_str(v)
                except ValueError:
                    return None
                if any(c in s for c in "/?#% ") or s in ("", ".", "..") or not s.isascii():
                    exp["hostile_path"] = True
                exp["path"] = exp["path"].replace("{" + p.name + "}", s)
                continue
            key = {"query": "query", "header": "headers", "cookie": "cookies"}[loc]
            if loc in ("header", "cookie") and not p.name.isascii():
                exp["non_ascii_header"] = True
            if v[0] == "unset" or (v[0] == "j" and v[1] is None and loc == "query"):
                exp["absent_" + key].append(p.name)
                continue
            if v[0] == "j" and v[1] is None:
                continue          # None in a header / cookie: the document does not say what is sent (see header_none)
            if loc in ("header", "cookie") and not (json.dumps(v, ensure_ascii=False).isascii() and p.name.isascii()):
                exp["non_ascii_header"] = True     # HTTP header values are ASCII: no claim
                continue
            if v[0] == "model":
                exp.setdefault("merged", []).append(p.name)
                continue
            try:
                if v[0] == "list":
                    exp[key][p.name] = [epwork.wire_str(x) for x in v[1]]
                else:
                    exp[key][p.name] = [epwork.wire_str(v)]
            except ValueError:
                exp.setdefault("unspecified_" + key, []).append(p.name)     # e.g. an array of objects in the query: the document does not fix its text form
    rb = o.get("requestBody")
    hops = 0
    while rb and "$ref" in rb and hops < 10:      # the document's own component, through chains of references
        rb = (doc.get("components", {}).get("requestBodies", {}) or {}).get(rb["$ref"].rsplit("/", 1)[1])
        hops += 1
    sel = None
    if rb and "content" in rb and len(rb["content"]) > 1 and "body" in vec and vec["body"][0] == "model":
        # several media types: the one whose schema IS the class of the value that was passed (when exactly one is) must be used
        hits = [c for c, mt in rb["content"].items() if isinstance(mt.get("schema"), dict) and mt["schema"].get("$ref", "").rsplit("/", 1)[-1] == vec["body"][1]]
        kinds = {c for c in hits if c.split(";")[0].strip() in ("application/json", "application/x-www-form-urlencoded") or c.split(";")[0].strip().endswith("+json")}
        if len(hits) == 1 and kinds:
            sel = hits[0]
    if rb and "content" in rb and (len(rb["content"]) == 1 or sel) and "body" in vec:
        ct = sel or next(iter(rb["content"]))
        exp["content_type"] = ct
        bv = vec["body"]
        if bv[0] == "model":
            exp["body_json"] = bv[2]
        elif bv[0] == "j":
            exp["body_json"] = bv[1]
        elif bv[0] == "list" and all(x[0] == "model" for x in bv[1]):
            exp["body_json"] = [x[2] for x in bv[1]]
        elif bv[0] == "list" and all(x[0] == "date" for x in bv[1]):
            exp["body_json"] = [x[1] for x in bv[1]]
        if ct.startswith("multipart/") and bv[0] == "model":
            fields = {}
            declared = {"title", "count", "flag", "when", "kind", "tags", "meta", "ratio", "ref_or_text", "maybe_note", "stamp", "uid", "lvl", "attachment", "form_kind", "form_version"}
            for k, v in bv[2].items():
                if isinstance(v, (dict, list)):
                    if k in declared:
                        fields[k] = (v, "application/json")
                    else:
                        fields[k] = (None, "unspecified")     # untyped additional property holding a container: encoding not specified by the document
                elif v is None:
                    fields[k] = (None, "unspecified")      # null has no multipart representation the document could fix
                else:
                    fields[k] = (epwork.wire_str(("j", v)).encode() if not isinstance(v, bool) else str(v).encode(), "text/plain")
            for attr, hx in (bv[3] if len(bv) > 3 else {}).items():
                # a File attribute: its bytes, under the declared name, with the File's own mime type; an array of files: one part per element
                fields[attr] = ([bytes.fromhex(h) for h in hx], "application/x-test-list") if isinstance(hx, list) else (bytes.fromhex(hx), "application/x-test")
            exp["multipart_fields"] = fields
        if ct == "application/octet-stream" and bv[0] == "file":
            exp["raw_body_hex"] = bv[1]
    exp["security"] = bool(o.get("security"))
    return exp


def check_request(exp, call):
    """list of discrepancies between the captured request and the document's expectation"""
    bad = []
    for mp in exp.get("missing_params", []):
        bad.append(f"declared parameter {mp} is not an argument of the generated function (never sent)")
    reqs = call.get("requests", [])
    if len(reqs) != 1:
        return [f"{len(reqs)} requests sent (expected exactly one)"]
    r = reqs[0]
    if r["method"] != exp["method"]:
        bad.append(f"method {r['method']} != {exp['method']}")
    got_path = urllib.parse.urlsplit(r["url"]).path
    if not exp["hostile_path"] and urllib.parse.unquote(got_path) != exp["path"]:
        bad.append(f"path {got_path!r} != {exp['path']!r}")
    q = {}
    for k, v in r["query"]:
        q.setdefault(k, []).append(v)
    for name, vals in exp["query"].items():
        if (q.get(name) or []) != vals:
            bad.append(f"query {name!r}: sent {q.get(name)!r}, expected {vals!r}")
    for name in exp["absent_query"]:
        if name in q:
            bad.append(f"query {name!r} sent although unset/None")
    known = set(exp["query"]) | set(exp["absent_query"]) | set(exp.get("unspecified_query", []))
    if not exp.get("merged"):
        for name in q:
            if name not in known:
                bad.append(f"undeclared query key {name!r} sent")
    h = {}
    for k, v in r["headers"]:
        h.setdefault(k.lower(), []).append(v)
    for name, vals in exp["headers"].items():
        if h.get(name.lower()) != vals:
            bad.append(f"header {name!r}: sent {h.get(name.lower())!r}, expected {vals!r}")
    for name in exp["absent_headers"]:
        if name.lower() in h:
            bad.append(f"header {name!r} sent although unset")
    cookies = {}
    for c in h.get("cookie", []):
        for part in c.split(";"):
            if "=" in part:
                k, v = part.strip().split("=", 1)
                cookies[k] = v
    for name, vals in exp["cookies"].items():
        if cookies.get(name) != vals[0]:
            bad.append(f"cookie {name!r}: sent {cookies.get(name)!r}, expected {vals[0]!r}")
    for name in exp["absent_cookies"]:
        if name in cookies:
            bad.append(f"cookie {name!r} sent although unset")
    if "content_type" in exp and not exp["content_type"].startswith("multipart/"):
        if h.get("content-type") != [exp["content_type"]]:
            bad.append(f"Content-Type {h.get('content-type')!r} != declared {exp['content_type']!r}")
        if "body_json" in exp:
            raw = bytes.fromhex(r["content_hex"])
            ct = exp["content_type"].split(";")[0].strip()
            try:
                if ct == "application/json" or ct.endswith("+json"):
                    if json.loads(raw) != exp["body_json"]:
                        bad.append(f"JSON body {raw[:120]!r} != {exp['body_json']!r}")
                elif ct == "application/x-www-form-urlencoded":
                    sent = dict(urllib.parse.parse_qsl(raw.decode(), keep_blank_values=True))
                    want = {k: epwork.wire_str(("j", v)) for k, v in exp["body_json"].items() if v is not None and not isinstance(v, (list, dict))}
                    sent = {k: v for k, v in sent.items() if k in want or not (isinstance(exp["body_json"].get(k), (list, dict)) or (k in exp["body_json"] and exp["body_json"][k] is None))}
                    if sent != want:
                        bad.append(f"form body {sent!r} != {want!r}")
            except Exception as e:
                bad.append(f"body not decodable as {ct}: {e!r}")
    if exp.get("content_type", "").startswith("multipart/") and "multipart_fields" in exp:
        ct = (h.get("content-type") or [""])[0]
        if not ct.startswith("multipart/form-data; boundary="):
            bad.append(f"Content-Type {ct!r} is not multipart/form-data with a boundary")
        else:
            bnd = ct.split("boundary=")[1].encode()
            raw = bytes.fromhex(r["content_hex"])
            got, got_all = {}, {}
            for part in raw.split(b"--" + bnd):
                if b"\r\n\r\n" not in part:
                    continue
                head, body = part.split(b"\r\n\r\n", 1)
                body = body[:-2] if body.endswith(b"\r\n") else body
                name = None
                pct = None
                for line in head.split(b"\r\n"):
                    if line.lower().startswith(b"content-disposition") and b'name="' in line:
                        name = line.split(b'name="')[1].split(b'"')[0].decode("utf-8", "replace")
                    if line.lower().startswith(b"content-type:"):
                        pct = line.split(b":", 1)[1].strip().decode()
                if name is not None:
                    got[name] = (body, pct)
                    got_all.setdefault(name, []).append(body)
            for name, (want, wct) in exp["multipart_fields"].items():
                if name not in got:
                    bad.append(f"multipart field {name!r} missing")
                else:
                    b_, pct = got[name]
                    if wct == "unspecified":
                        continue
                    if wct == "application/x-test-list":
                        if got_all.get(name) != want:
                            bad.append(f"multipart file list {name!r}: parts {[x[:20] for x in got_all.get(name, [])]!r} != one part per file {[x[:20] for x in want]!r}")
                        continue
                    if wct == "application/json":
                        try:
                            if json.loads(b_) != want:
                                bad.append(f"multipart field {name!r}: {b_[:80]!r} != {want!r}")
                        except Exception:
                            bad.append(f"multipart field {name!r} is not JSON: {b_[:80]!r}")
                    elif b_ != want:
                        bad.append(f"multipart field {name!r}: {b_[:80]!r} != {want!r}")
                    elif wct not in ("text/plain",) and pct != wct:
                        bad.append(f"multipart file part {name!r}: Content-Type {pct!r} != the File's mime type {wct!r}")
            for name in got:
                if name not in exp["multipart_fields"]:
                    bad.append(f"undeclared multipart field {name!r} sent")
    if exp.get("raw_body_hex") is not None:
        if r["content_hex"] != exp["raw_body_hex"]:
            bad.append(f"raw body {r['content_hex'][:60]} != {exp['raw_body_hex'][:60]}")
        if h.get("content-type") != [exp["content_type"]]:
            bad.append(f"Content-Type {h.get('content-type')!r} != declared {exp['content_type']!r}")
    if exp["security"]:
        if h.get("authorization") != ["Bearer tok123"]:
            bad.append(f"credential header missing/wrong: {h.get('authorization')!r}")
    return bad


def classify_call_failure(case, which):
    """known-finding class of an exception raised INSIDE httpx for kwargs the model also predicts; None = not a listed class"""
    call = case[which]
    exc = call.get("exc") or {}
    kw = case["kw"].get("kwargs")
    if not kw:
        return None
    def vals(name):
        d = kw.get(name)
        return list(d["v"].values()) if d and d.get("t") == "dict" else []
    if any(v["t"] != "j" or not isinstance(v["v"], str) for v in vals("cookies")):
        return "cookie_non_string"
    if any(v["t"] == "j" and v["v"] is None for v in vals("headers")):
        return "header_none"
    if any(not (v["t"] == "j" and isinstance(v["v"], (str,))) for v in vals("headers")):
        return "header_non_string"
    return None



# ------------------------------------------------------------------ client life cycle (Client.v)
CLIENT_HDR = "Require Import OPC.Uni OPC.Client OPC.Cookies.\nFrom Coq Require Import NArith List. Import ListNotations. Open Scope N_scope.\n"
AUTH_NAMES = ["Authorization", "X-API-Key", "X-Token"]
PLAIN_KEYS = ["X-Trace", "accept-language", "X-Other", "x-trace", "User-Agent2"]
CLASH_KEYS = ["authorization", "AUTHORIZATION", "x-api-key"]      # outside the theorem's guard: spelt differently from the auth header name they collide with
LIFE_DOC = {"openapi": "3.1.0", "info": {"title": "t", "version": "1"}, "paths": {"/me": {"get": OPS.op("get_me", [OPS.P("verbose", "query", {"type": "boolean"}, False)], security=[{"key": []}])}},
            "components": {"securitySchemes": {"key": {"type": "http", "scheme": "bearer"}}}}


def client_seq(rng, guarded=True):
    steps, shadow = [], []       # shadow: what each client's OWN credential is, from the steps alone
    tok = iter("tok%d" % j for j in range(1000))
    def new():
        h = {rng.choice(PLAIN_KEYS): "v%d" % rng.randint(0, 9) for _ in range(rng.randint(0, 2))}
        if not guarded and rng.random() < 0.5:
            h[rng.choice(CLASH_KEYS)] = "user-supplied"
        ck = {rng.choice(["session", "lang", "ab"]): "c%d" % rng.randint(0, 9) for _ in range(rng.randint(0, 2))}
        st = {"k": "new", "tok": next(tok), "pre": rng.choice(["Bearer", "Bearer", "Token", ""]), "auth": rng.choice(AUTH_NAMES[:2] if rng.random() < 0.8 else AUTH_NAMES), "headers": h, "cookies": ck}
        steps.append(st)
        shadow.append({"tok": st["tok"], "pre": st["pre"], "auth": st["auth"], "built": set(), "dirty": False, "ck": dict(ck), "snap": {}})
    new()
    for _ in range(rng.randint(4, 14)):
        i = rng.randrange(len(shadow))
        c = shadow[i]
        r = rng.random()
        if r < 0.08:
            new()
        elif r < 0.25:
            st = {"k": "evolve_token", "i": i, "tok": next(tok)}
            steps.append(st); shadow.append(dict(c, tok=st["tok"], built=set(), dirty=False, ck=dict(c["ck"]), snap={}))
        elif r < 0.32:
            st = {"k": "evolve_auth", "i": i, "pre": rng.choice(["Bearer", "Key", ""]), "auth": rng.choice(AUTH_NAMES if guarded else AUTH_NAMES + ["authorization"])}
            steps.append(st); shadow.append(dict(c, pre=st["pre"], auth=st["auth"], built=set(), dirty=False, ck=dict(c["ck"]), snap={}))
        elif r < 0.45:
            how = rng.choice(["with_timeout", "with_cookies", "evolve_flag"])
            add = {rng.choice(["session", "theme", "ab"]): "w%d" % rng.randint(0, 9)} if how == "with_cookies" else {}
            steps.append({"k": "derive", "i": i, "how": how, "cookies": add})
            for v in c["snap"]:
                c["snap"][v].update(add)            # with_cookies also updates the httpx clients the ORIGINAL client already built
            shadow.append(dict(c, built=set(), dirty=False, ck=dict(c["ck"], **add), snap={}))
        elif r < 0.55:
            h = {rng.choice(PLAIN_KEYS): "w%d" % rng.randint(0, 9) for _ in range(rng.randint(1, 2))}
            if not guarded and rng.random() < 0.5:
                h[rng.choice(CLASH_KEYS)] = "user-supplied"
            steps.append({"k": "with_headers", "i": i, "h": h}); shadow.append(dict(c, built=set(), dirty=False, ck=dict(c["ck"]), snap={}))
        elif r < 0.62:
            st = {"k": "set_token", "i": i, "tok": next(tok)}
            steps.append(st)
            c["dirty"] = c["dirty"] or bool(c["built"])
            c["tok"] = st["tok"]
        else:
            v = rng.choice(["sync", "async"])
            if v not in c["snap"]:
                c["snap"][v] = dict(c["ck"])
            steps.append({"k": "use", "i": i, "variant": v, "own": None if c["dirty"] else ((c["pre"] + " " + c["tok"]) if c["pre"] else c["tok"]), "cookies_expected": dict(c["snap"][v])})
            c["built"] = c["built"] | {v}
    return steps


def cdict(h):
    return "[" + "; ".join(f"({cstr(k)}, {cstr(v)})" for k, v in h.items()) + "]"


def cstep(st):
    k = st["k"]
    if k == "new":
        return f"New {cstr(st['tok'])} {cstr(st['pre'])} {cstr(st['auth'])} {cdict(st['headers'])}"
    if k == "evolve_token":
        return f"EvolveToken {st['i']}%nat {cstr(st['tok'])}"
    if k == "evolve_auth":
        return f"EvolveAuth {st['i']}%nat {cstr(st['pre'])} {cstr(st['auth'])}"
    if k == "derive":
        return f"Derive {st['i']}%nat"
    if k == "with_headers":
        return f"WithHeaders {st['i']}%nat {cdict(st['h'])}"
    if k == "set_token":
        return f"SetToken {st['i']}%nat {cstr(st['tok'])}"
    return f"Use {st['i']}%nat {'Sync' if st['variant'] == 'sync' else 'Async'}"


def client_life_cycle(run, tier):
    """stage B: the generated AuthenticatedClient run through operation sequences == Client.run; stage C: every use by a client whose token was not
    reassigned after its httpx client was built carries that client's OWN credential (sequences inside the guard of ClientThm.own_credential)."""
    rng = random.Random(run.rng.randrange(1 << 30))
    n = 60 if tier == "quick" else 600
    seqs = [(client_seq(rng, guarded=(j % 4 != 3)), j % 4 != 3) for j in range(n)]
    # fixed sequences first (the shapes a life-cycle regression needs): use, derive with a new token, use the derived one - both variants
    for v1 in ("sync", "async"):
        for v2 in ("sync", "async"):
            seqs.insert(0, ([{"k": "new", "tok": "A", "pre": "Bearer", "auth": "Authorization", "headers": {}, "cookies": {"session": "abc123"}}, {"k": "use", "i": 0, "variant": v1, "own": "Bearer A", "cookies_expected": {"session": "abc123"}},
                             {"k": "evolve_token", "i": 0, "tok": "B"}, {"k": "use", "i": 1, "variant": v2, "own": "Bearer B"}, {"k": "derive", "i": 1, "how": "with_timeout"},
                             {"k": "set_token", "i": 2, "tok": "C"}, {"k": "use", "i": 2, "variant": v1, "own": "Bearer C"}, {"k": "use", "i": 0, "variant": v2, "own": "Bearer A"},
                             {"k": "with_headers", "i": 0, "h": {"X-Trace": "1"}}, {"k": "use", "i": 3, "variant": v1, "own": "Bearer A"}, {"k": "use", "i": 0, "variant": v1, "own": "Bearer A"}], True))
    with impl.Gen(LIFE_DOC) as g:
        if g.exc is not None:
            run.violation("harness-or-generator", {"label": "client-life-cycle", "error": repr(g.exc), "doc": LIFE_DOC})
            return
        res = impl.run_client(g.out, [{"op": "client_seq", "module": "api.default.get_me", "steps": s} for s, _ in seqs], timeout=600)
    if isinstance(res, dict):
        run.violation("harness-error", {"label": "client-life-cycle", "error": res.get("fatal", "")[:1500]})
        return
    terms, meta = [], []
    for (steps, guarded), r in zip(seqs, res):
        outs = r.get("steps") if isinstance(r, dict) else None
        run.note_case({"client_life_cycle": [st["k"] for st in steps], "guarded": guarded}, nontrivial=any(st["k"] == "use" for st in steps), kind="client_life_cycle")
        if outs is None or any(isinstance(o, dict) and "exc" in o for o in outs):
            run.violation("oracle", {"label": "client-life-cycle", "doc": LIFE_DOC, "steps": steps, "impl": r, "note": "a client life-cycle step raised"})
            continue
        exp = "[" + "; ".join("None" if o is None else "Some [" + "; ".join(cstr(v) for v in o["vals"]) + "]" for o in outs) + "]"
        terms.append(f"outs_eqb (snd (run init [{'; '.join(cstep(st) for st in steps)}])) {exp}")
        meta.append((steps, outs))
        # the same sequence through Cookies.v: construction / derivation / use (token assignment does not touch cookies)
        cops, cexp = [], []
        for st, o in zip(steps, outs):
            if st["k"] == "new":
                cops.append(f"CNew {cdict(st.get('cookies') or {})}"); cexp.append("None")
            elif st["k"] == "use":
                cops.append(f"CUse {st['i']}%nat {'Sync' if st['variant'] == 'sync' else 'Async'}"); cexp.append("Some " + cdict(o.get("cookies") or {}))
            elif st["k"] != "set_token":
                cops.append(f"CDerive {st['i']}%nat {cdict(st.get('cookies') or {}) if st['k'] == 'derive' and st.get('how') == 'with_cookies' else '[]'}"); cexp.append("None")
        terms.append(f"couts_eqb (snd (crun [] [{'; '.join(cops)}])) [{'; '.join(cexp)}]")
        meta.append((steps, outs))
        if guarded:
            for st, o in zip(steps, outs):
                if st["k"] == "use" and "cookies_expected" in st and o.get("cookies") != st["cookies_expected"]:
                    run.violation("oracle", {"label": "client-life-cycle", "doc": LIFE_DOC, "steps": steps, "step": st, "sent_cookies": o.get("cookies"),
                                             "note": f"client #{st['i']} ({st['variant']}) did not send exactly the cookies it was constructed / derived with {st['cookies_expected']!r}"})
                    break
                if st["k"] == "use" and st["own"] is not None and o["vals"] != [st["own"]]:
                    run.violation("oracle", {"label": "client-life-cycle", "doc": LIFE_DOC, "steps": steps, "step": st, "sent": o["vals"], "all_headers": o["all"],
                                             "note": f"client #{st['i']} did not send exactly its own credential {st['own']!r} under its auth header"})
                    break
    bad = run_cases(CLIENT_HDR, terms, shard=200) if terms else []
    for i in bad[:5]:
        steps, outs = meta[i]
        run.violation("correspondence", {"label": "client-life-cycle", "doc": LIFE_DOC, "steps": steps, "impl": [None if o is None else o["vals"] for o in outs],
                                         "model": coq_eval(CLIENT_HDR, f"snd (run init [{'; '.join(cstep(st) for st in steps)}])")[-900:],
                                         "note": "the generated AuthenticatedClient no longer behaves like Client.v, for which own_credential is proved"})
    run.extra["client_life_cycle_sequences"] = len(terms)
    return len(terms), len(bad)


def run(run, tier, replay=None):
    rng = run.rng
    docs = [(l, d, None) for l, d in OPS.atlas_docs()] + OPS.atlas_override_docs()
    nrand = 4 if tier == "quick" else 40
    for i in range(nrand):
        docs.append((f"rand{i}", OPS.random_doc(random.Random(rng.randrange(1 << 30)), n_ops=rng.randint(4, 8)), None))
    nvec = 4 if tier == "quick" else 12
    if replay:
        rp = json.load(open(replay))
        docs = [(v.get("label", "replay"), v["doc"], v.get("cfg")) for v in rp["violations"] if "doc" in v][:5]
    run.rule = ("documents: atlas of operations (every parameter kind x {query, header, cookie} required+optional with names needing pythonisation; 0-3 path "
                "parameters declared out of order; path-item parameters with operation-level override; one name in several locations; reserved names; json / form / "
                "suffix+json / charset bodies; two media types; security) + random operations; per operation: argument vectors (all set, optionals unset, random "
                "mixes incl. None for nullable). A case = one (operation, argument vector): _get_kwargs compared with the Coq model, and the request captured behind "
                "httpx.MockTransport for the sync and asyncio variants compared with the document; non-trivial = the operation has at least one parameter or a body; "
                "distinct by hash of (label, operation, vector).")
    jobs = [(l, d, rng.randrange(1 << 30), nvec, cfg) for l, d, cfg in docs]
    with cf.ProcessPoolExecutor(max_workers=14) as ex:
        results = list(ex.map(work, jobs))
    hdr = HDR_BASE
    terms, meta = [], []
    for di, r in enumerate(results):
        if r["error"]:
            run.violation("harness-or-generator", {"label": r["label"], "error": r["error"], "doc": r["doc"], "cfg": r.get("cfg")})
            continue
        hdr += f"Definition T{di} : ctable := {r['ctable']}.\nDefinition O{di} : oracles := {r['oracles']}.\n"
        for c in r["cases"]:
            nontriv = bool(c["vec"])
            run.note_case({"doc": r["label"], "op": c["op"], "args": c["vec"]}, nontrivial=nontriv, kind="with_body" if "body" in c["vec"] else "params_only")
            if "unrepresentable" in c:
                run.violation("correspondence", {"label": r["label"], "doc": r["doc"], "cfg": r.get("cfg"), "op": c["op"], "args": c["vec"], "impl": c["kw"],
                                                 "note": "generated _get_kwargs produced something the model cannot represent: " + c["unrepresentable"]})
                continue
            terms.append(f"kw_case2 T{di} {c['cep']} {c['cargs'].replace('O@', f'O{di}').replace('T@', f'T{di}')} {c['obs']}")
            meta.append((di, c))
    pterms, pmeta = [], []
    for di, r in enumerate(results):
        for pl in (r.get("plans") or []):
            # a media type the model says is a body must have been generated; one the model rejects must not
            pterms.append(pl["term"] if pl["generated"] else "match " + pl["mterm"] + " with BBody _ => false | _ => true end")
            pmeta.append((di, pl))
    pbad = run_cases(hdr, pterms, shard=400) if pterms else []
    for i in pbad[:6]:
        di, pl = pmeta[i]
        run.violation("correspondence", {"label": results[di]["label"], "doc": results[di]["doc"], "op": pl["op"], "media_type": pl["media_type"], "impl": pl["obs"],
                                         "note": "body_from_data's decision for this media type differs from Parse.body_plan"})
    mterms, mmeta = [], []
    for di, r in enumerate(results):
        for ent in (r.get("mp") or []):
            run.note_case({"doc": r["label"], "cls": ent["cls"], "multipart_instance": ent["data"]}, kind="to_multipart")
            if "unrepresentable" in ent:
                run.violation("correspondence", {"label": r["label"], "doc": r["doc"], "cfg": r.get("cfg"), "cls": ent["cls"], "instance": ent["data"], "impl": ent["res"], "note": "to_multipart returned something the model cannot represent: " + ent["unrepresentable"]})
                continue
            mterms.append(f"mp_case O{di} T{di} {ent['cid']}%N {ent['j']} {ent['obs']}")
            mmeta.append((di, ent))
    mbad = run_cases(hdr, mterms, shard=200) if mterms else []
    for i in mbad[:6]:
        di, ent = mmeta[i]
        run.violation("correspondence", {"label": results[di]["label"], "doc": results[di]["doc"], "cls": ent["cls"], "instance": ent["data"], "impl": ent["res"],
                                         "model": coq_eval(hdr, f"match dec O{di} T{di} 40 (KModel {ent['cid']}%N) {ent['j']} with Some (PObj c fs ad) => to_multipart T{di} 40 c fs ad | _ => None end")[-600:],
                                         "note": "generated to_multipart no longer behaves like Multipart.v"})
    run.extra["to_multipart_cases"] = len(mterms)
    pbad = list(pbad) + list(mbad)
    pterms = pterms + mterms
    run.extra["body_plans_compared"] = len(pterms) - len(mterms)
    bad = set(run_cases(hdr, terms, shard=250))
    def _file_list_case(c):
        bodyv = c["vec"].get("body") or []
        return len(bodyv) > 3 and any(isinstance(x, list) and x for x in bodyv[3].values()) and "not JSON serializable" in (c["kw"].get("exc") or {}).get("msg", "")
    bad = {i for i in bad if not (_file_list_case(meta[i][1]) and "multipart_file_list" in run.known)}      # binary values are outside the model (no pv constructor): oracle-only finding
    run.corr = {"cases": len(terms) + len(pterms), "mismatches": len(bad) + len(pbad), "what": "body_from_data media-type decisions == Parse.body_plan; generated _get_kwargs(**args) (method, url, params, cookies, headers, json/data body; or exception) == Endpoint.get_kwargs on the endpoint abstracted from the implementation's parse"}
    for i in sorted(bad)[:8]:
        di, c = meta[i]
        mv = coq_eval(hdr, f"get_kwargs T{di} 40 {c['cep']} {c['cargs'].replace('O@', f'O{di}').replace('T@', f'T{di}')}")
        run.violation("correspondence", {"label": results[di]["label"], "doc": results[di]["doc"], "op": c["op"], "args": c["vec"], "impl": c["kw"], "model": mv[-900:],
                                         "note": "generated _get_kwargs no longer behaves like Endpoint.v, for which placement is proved"})
    if not replay or any(v.get("label") == "client-life-cycle" for v in rp["violations"]):
        lc = client_life_cycle(run, tier)
        if lc:
            run.corr["cases"] += lc[0]; run.corr["mismatches"] += lc[1]
            run.corr["what"] += "; AuthenticatedClient operation sequences (new / evolve / with_* / token assignment / sync+asyncio use) == Client.run (credential header) and == Cookies.crun (cookies)"
    # ---- stage C
    n_req = 0
    for i, (di, c) in enumerate(meta):
        exp = c["expect"]
        if exp is None:
            continue
        for which in ("sync", "async"):
            call = c[which]
            if "exc" in call or "fatal_op" in call:
                cl = classify_call_failure(c, which) if i not in bad else None
                what = f"operation {c['op']} of '{results[di]['label']}' with args {json.dumps(c['vec'])[:160]}: {json.dumps(call.get('exc') or call.get('fatal_op'))[:200]}"
                if exp.get("non_ascii_header") and (call.get("exc") or {}).get("type") == "UnicodeEncodeError":
                    continue
                if which == "async" and (call.get("exc") or {}).get("type") == "RuntimeError" and "sync request with an AsyncClient" in (call.get("exc") or {}).get("msg", "") \
                        and c["kw"].get("kwargs", {}).get("content") is not None and run.known_finding("octet_body_async", what):
                    continue
                if "exc" in c["kw"] and c["kw"]["exc"].get("type") == "TypeError" and "isinstance() arg 2" in c["kw"]["exc"].get("msg", "") and c["op"] == "multipart_null_first" \
                        and run.known_finding("multipart_none_member_first", what):
                    continue
                bodyv = c["vec"].get("body") or []
                if len(bodyv) > 3 and any(isinstance(x, list) and x for x in bodyv[3].values()) and (call.get("exc") or {}).get("type") == "TypeError" \
                        and "not JSON serializable" in (call.get("exc") or {}).get("msg", "") and run.known_finding("multipart_file_list", what):
                    continue
                if "exc" in c["kw"]:
                    # _get_kwargs itself raises: the model predicts it (stage B agrees) - e.g. encoder given a value outside its domain
                    continue
                if cl and run.known_finding(cl, what):
                    continue
                run.violation("oracle", {"label": results[di]["label"], "doc": results[di]["doc"], "op": c["op"], "args": c["vec"], "variant": which, "impl": call,
                                         "note": "calling the generated endpoint function raised"})
                continue
            n_req += 1
            problems = check_request(exp, call)
            if problems:
                ids = set()
                if any("Content-Type" in p or "body" in p for p in problems) and c["op"] == "same_schema_two_media":
                    ids.add("multi_body_same_type")
                if exp["hostile_path"] and all(p.startswith("undeclared query key") or p.startswith("path ") for p in problems):
                    ids.add("path_value_unencoded")
                if ids and all(run.known_finding(x, f"operation {c['op']}: {problems[0]}") for x in ids):
                    continue
                run.violation("oracle", {"label": results[di]["label"], "doc": results[di]["doc"], "op": c["op"], "args": c["vec"], "variant": which,
                                         "problems": problems[:6], "request": call.get("requests"), "note": "request differs from what the document declares"})
        # sync == asyncio
        rs, ra = c["sync"].get("requests"), c["async"].get("requests")
        if rs and ra:
            def strip(r):
                x = dict(r[0])
                b = None
                for k, v in x["headers"]:
                    if k.lower() == "content-type" and "boundary=" in v:
                        b = v.split("boundary=")[1]
                x["headers"] = sorted([[k, (v.replace(b, "BOUNDARY") if b else v)] for k, v in x["headers"] if k.lower() not in ("user-agent",)])
                if b:
                    x["content_hex"] = x["content_hex"].replace(b.encode().hex(), b"BOUNDARY".hex())
                return x
            if strip(rs) != strip(ra):
                run.violation("oracle", {"label": results[di]["label"], "doc": results[di]["doc"], "op": c["op"], "args": c["vec"], "sync": rs, "asyncio": ra,
                                         "note": "blocking and asyncio variants sent different requests"})
    for r in results:
        for name, why in r.get("skipped", []):
            if str(why).startswith("raw_fallback:"):
                run.known_finding("raw_fallback", f"operation {name} of '{r['label']}': parameter python names {why[13:]} are not identifiers (colliding names fall back to the raw name); the module does not compile")
    run.extra["requests_checked_against_document"] = n_req
    run.extra["operations_skipped"] = sum(len(r.get("skipped", [])) for r in results)
    run.assumptions += ["abstraction harness/lib/epwork.py + absprop.py (Endpoint objects -> Endpoint.v terms)", "harness/lib/client_runner.py (serialises kwargs, captures requests behind httpx.MockTransport)",
                        "httpx request encoding is outside the model: stage C compares the captured request with an expectation computed from the document by harness/props/c03.py (wire_str conventions of httpx)",
                        "multipart and octet-stream bodies are not modelled (flagged kw_other_body)"]
