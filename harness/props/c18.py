"""C18 — document names cannot capture the generated code's own names.

Candidates: EXHAUSTIVE over the regenerated table build/gen_names.json (harness/translate/gen_names.py: every identifier the
generated code of a probe client binds or reads, per scope; every keyword / soft keyword / builtin; case variants).  Each
candidate is placed as
  * a model property (required and optional; kinds string, date, list of date, model reference; typed and untyped
    additionalProperties),  * a property of a multipart body model,
  * a parameter in path / query / header / cookie of an operation without a body and of one with a JSON body,
  * a member of a raw-name pair (two names with the same snake_case name -> the generator falls back to the RAW spelling, the
    only way an upper-case identifier such as UNSET can become a python name).
One class / one operation per (candidate, placement); many candidates per document; every document also carries the same
placements under the neutral control name `zq_neutral`.
Stage B: the existing correspondences (CodecObs.codec_case for the class, EndpointObs.kw_case for the operation) on the
executed generated code.  The models are capture-free (RenameThm.rename_invariant / kwargs_rename_invariant), so a
mismatch for a candidate whose control matches IS a capture.
Stage C: observations for the candidate == observations for the control after mapping the wire name (decoded attributes,
re-encoded dict, to_multipart, _get_kwargs, captured request of sync_detailed / asyncio_detailed / sync, parsed response), the
captured request agrees with the document (props/c03.py expectation), and the generated modules compile and import.
A capture = (scope, name, placement).  Listed ones (known_findings.json `capture_<scope>_<name>`) -> KNOWN-FINDING; any other
-> VIOLATION with (scope, name, placement, document) as replay."""
import json, os, random, re, time, urllib.parse, concurrent.futures as cf
from lib.common import cstr, run_cases, coq_eval, VERIF, BUILD
from lib import impl, absprop, epwork
from gen import ops as OPS
from props import c03 as C03

HDR_BASE = "Require Import OPC.gen.GenKinds OPC.Uni OPC.Names OPC.Codec OPC.CodecObs OPC.Types OPC.Endpoint OPC.EndpointObs.\nOpen Scope N_scope.\n"
NEUTRAL = "zq_neutral"
REF = "#/components/schemas/"
D = {"type": "string", "format": "date"}
KINDS = {"str": {"type": "string"}, "date": D, "listdate": {"type": "array", "items": D}, "model": {"$ref": REF + "ZqRef"}}
VAL = {"str": "sv", "date": "2021-03-04", "listdate": ["2021-03-04", "2022-05-06"], "model": {"zq_r": "rv"}}
MODEL_SCOPE_ORDER = ["model.from_dict", "model.to_dict", "model.to_multipart", "model.class_body", "model.module", "model.attr"]
EP_SCOPE_ORDER = ["endpoint.function_args", "endpoint._get_kwargs", "endpoint.sync_detailed", "endpoint.asyncio_detailed", "endpoint.sync", "endpoint.asyncio",
                  "endpoint._parse_response", "endpoint._build_response", "endpoint.module", "endpoint.attr"]
FUNCTION_SCOPES = ("model.", "endpoint.")


# ------------------------------------------------------------------ candidates and placements
def load_table():
    p = BUILD / "gen_names.json"
    t = json.loads(p.read_text())
    if not t.get("known"):
        raise RuntimeError("build/gen_names.json is not trustworthy: " + "; ".join(t.get("problems", [])))
    return t


def family(scopes):
    """which placement families a candidate gets: model / endpoint / both"""
    m = any(s.startswith(("model.", "enum.")) for s in scopes)
    e = any(s.startswith("endpoint.") for s in scopes)
    if any(s.startswith(("python.", "package.")) for s in scopes) or not (m or e):
        return True, True
    return m, e


def scope_of(scopes, fam):
    order = MODEL_SCOPE_ORDER if fam == "model" else EP_SCOPE_ORDER
    for s in order:
        if s in scopes:
            return s
    pref = "model." if fam == "model" else "endpoint."
    rest = sorted(s for s in scopes if s.startswith(pref))
    if rest:
        return rest[0]
    return sorted(scopes)[0]


def finding_id(scope, name):
    return "capture_" + scope.replace(".", "_") + "_" + name


def pyid(name):
    from openapi_python_client.utils import PythonIdentifier
    return str(PythonIdentifier(name, "field_"))


def rawid(name):
    from openapi_python_client.utils import PythonIdentifier
    return str(PythonIdentifier(name, "field_", skip_snake_case=True))


def partner_of(name):
    """another document name with the same python name but a different RAW python name (forces the raw-name fallback of
    _resolve_naming_conflict / _check_parameters_for_conflicts); None if the raw fallback cannot change this name"""
    p = pyid(name)
    if rawid(name) == p:
        return None
    for cand in (name.lower(), p, name.upper(), name.capitalize()):
        if cand != name and cand and pyid(cand) == p and rawid(cand) != rawid(name):
            return cand
    return None


# allOf refinement of one of two sibling properties whose names have the SAME python name before de-confliction (From / from, HTTPStatus / http_status):
# (general schema, refined schema, instance value); direction fwd = general first, rev = refined first; which = the candidate or its twin is redefined;
# form = both members inline, or the first member is a $ref parent
ALLOF_KINDS = {"anystr": ({}, {"type": "string"}, "sv"), "strdate": ({"type": "string"}, D, "2021-03-04"),
               "numint": ({"type": "number"}, {"type": "integer"}, 7), "strenum": ({"type": "string"}, {"$ref": REF + "ZqEnum"}, "ea")}
ALLOF_ALL = [("allof", k, d, w, f) for k in ALLOF_KINDS for d in ("fwd", "rev") for w in ("cand", "twin") for f in ("inline", "ref")]
ALLOF_QUICK = [("allof", k, d, ("cand", "twin")[i % 2], ("inline", "ref")[(i // 2) % 2])
               for i, (k, d) in enumerate((k, d) for k in ALLOF_KINDS for d in ("fwd", "rev"))]
ALLOF_ACTIVE = list(ALLOF_QUICK)       # run() switches to ALLOF_ALL for the thorough tier
TWIN_PLACEMENTS = ("modelraw", "paramraw", "allof", "paramx")
# two parameters of ONE operation in DIFFERENT locations whose names are different strings with the same python name (header UNSET + query unset):
# (candidate location, twin location, body?)  - the generator must tell them apart by the location suffix, never by their raw spelling
LOCS = ("path", "query", "header", "cookie")
PARAMX_ALL = [("paramx", a, b, body) for a in LOCS for b in LOCS if a != b for body in ("nobody", "body")]
PARAMX_QUICK = [("paramx", "header", "query", "nobody"), ("paramx", "query", "header", "body"), ("paramx", "cookie", "path", "nobody"), ("paramx", "path", "cookie", "body")]
PARAMX_ACTIVE = list(PARAMX_QUICK)

MODEL_PLACEMENTS = [("model", k, r, "typed") for k in KINDS for r in ("req", "opt")] + [("model", "str", "req", "any"), ("multipart", "str", "req"), ("multipart", "date", "opt")]
PARAM_PLACEMENTS = [("param", loc, b) for loc in ("path", "query", "header", "cookie") for b in ("nobody", "body")]


REDUCED = [("model", "str", "req", "typed"), ("param", "query", "body"), ("param", "path", "nobody")]


def placements_for(name, scopes, regular=True, reduced=False, raw=True, twinx=True):
    """regular=False: only the raw-name pair placements (for a name that PythonIdentifier changes, the regular placements
    exercise the changed spelling, which is a different candidate); reduced: one model / one query-with-body / one path placement;
    a spelling with a space cannot be an HTTP header / cookie name nor a path placeholder (the generator's path regex refuses it with a diagnostic): model and query placements only"""
    m, e = family(scopes)
    out = []
    if m and regular:
        out += MODEL_PLACEMENTS
    if e and regular:
        out += [pl for pl in PARAM_PLACEMENTS if " " not in name or pl[1] == "query"]
    if reduced:
        out = [pl for pl in out if pl in REDUCED]
    if raw and partner_of(name) is not None:
        if m:
            out.append(("modelraw",))
            out += ALLOF_ACTIVE
        if e:
            out.append(("paramraw", "query"))
    if twinx and e and name.isidentifier() and partner_of(name) is not None:
        out += PARAMX_ACTIVE
    return out


def pl_str(pl):
    return ":".join(pl)


# ------------------------------------------------------------------ documents
def build_doc(units):
    """units: list of dicts {uid, name, pl}; one class / one operation per unit"""
    schemas = {"ZqRef": {"type": "object", "properties": {"zq_r": {"type": "string"}}}, "ZqEnum": {"type": "string", "enum": ["ea", "eb"]}}
    paths = {}
    ok200 = {"200": {"description": "ok", "content": {"application/json": {"schema": {"$ref": REF + "ZqRef"}}}}}
    P = lambda n, loc, sch, req=False: {"name": n, "in": loc, "required": True if loc == "path" else req, "schema": sch}
    for u in units:
        n, pl, uid = u["name"], u["pl"], u["uid"]
        if pl[0] == "model":
            _, kind, req, addl = pl
            props = {n: KINDS[kind], "zq_sib_s": {"type": "string"}, "zq_sib_d": D, "zq_sib_l": {"type": "array", "items": D}, "zq_sib_m": {"$ref": REF + "ZqRef"}}
            sch = {"type": "object", "properties": props, "required": ([n] if req == "req" else []) + ["zq_sib_s"]}
            if addl == "typed":
                sch["additionalProperties"] = D
            schemas[f"ZqM{uid}"] = sch
        elif pl[0] == "allof":
            _, kind, direction, which, form = pl
            x, y = (n, u["partner"]) if which == "cand" else (u["partner"], n)
            general, refined, _ = ALLOF_KINDS[kind]
            first, second = (general, refined) if direction == "fwd" else (refined, general)
            m1 = {"type": "object", "properties": {x: first, y: {"type": "string"}}}
            m2 = {"type": "object", "properties": {x: second}}
            if form == "inline":
                schemas[f"ZqA{uid}"] = {"allOf": [m1, m2]}
            else:
                schemas[f"ZqB{uid}"] = m1
                schemas[f"ZqA{uid}"] = {"allOf": [{"$ref": REF + f"ZqB{uid}"}, m2]}
        elif pl[0] == "modelraw":
            schemas[f"ZqW{uid}"] = {"type": "object", "properties": {n: {"type": "string"}, u["partner"]: {"type": "string"}, "zq_sib_d": D}, "additionalProperties": D}
        elif pl[0] == "multipart":
            _, kind, req = pl
            props = {n: KINDS[kind], "zq_sib_l": {"type": "array", "items": {"type": "string"}}, "zq_sib_m": {"$ref": REF + "ZqRef"}, "zq_sib_d": D}
            schemas[f"ZqP{uid}"] = {"type": "object", "properties": props, "required": [n] if req == "req" else [], "additionalProperties": {"$ref": REF + "ZqRef"}}
            paths[f"/zq/mp{uid}"] = {"post": {"operationId": f"zq_mp{uid}", "tags": ["zqtag"], "responses": {"200": {"description": "ok"}},
                                             "requestBody": {"required": True, "content": {"multipart/form-data": {"schema": {"$ref": REF + f"ZqP{uid}"}}}}}}
        elif pl[0] == "paramx":
            _, loc1, loc2, bd = pl
            params = [P(n, loc1, {"type": "string"}), P(u["partner"], loc2, {"type": "string"}),
                      P("zq_sq", "query", D), P("zq_sh", "header", {"type": "string"}), P("zq_sc", "cookie", {"type": "string"})]
            o = {"operationId": f"zq_o{uid}", "tags": ["zqtag"], "parameters": params, "responses": ok200}
            if bd == "body":
                o["requestBody"] = {"required": True, "content": {"application/json": {"schema": {"$ref": REF + "ZqRef"}}}}
            path = f"/zq/u{uid}" + ("/{" + n + "}" if loc1 == "path" else "") + ("/{" + u["partner"] + "}" if loc2 == "path" else "")
            paths[path] = {"post" if bd == "body" else "get": o}
        elif pl[0] in ("param", "paramraw"):
            loc = pl[1]
            body = len(pl) > 2 and pl[2] == "body"
            params = [P(n, loc, {"type": "string"})]
            if pl[0] == "paramraw":
                params.append(P(u["partner"], loc, {"type": "string"}))
            params += [P("zq_sq", "query", D), P("zq_sh", "header", {"type": "string"}), P("zq_sc", "cookie", {"type": "string"})]
            o = {"operationId": f"zq_o{uid}", "tags": ["zqtag"], "parameters": params, "responses": ok200}
            if body:
                o["requestBody"] = {"required": True, "content": {"application/json": {"schema": {"$ref": REF + "ZqRef"}}}}
            path = f"/zq/u{uid}" + ("/{" + n + "}" if loc == "path" else "")
            paths[path] = {"post" if body else "get": o}
    return {"openapi": "3.1.0", "info": {"title": "zq", "version": "1"}, "paths": paths, "components": {"schemas": schemas}}


def unit_class(u):
    pre = {"model": "ZqM", "modelraw": "ZqW", "multipart": "ZqP", "allof": "ZqA"}.get(u["pl"][0])
    return pre + str(u["uid"]) if pre else None


def unit_classes(u):
    """every class the unit adds to the document (the $ref parent of an allOf unit is a class of its own)"""
    c = unit_class(u)
    return ([c] if c else []) + ([f"ZqB{u['uid']}"] if u["pl"][0] == "allof" and u["pl"][4] == "ref" else [])


def instances(u):
    """JSON instances for the class of a model unit (same shape for every candidate; only the key differs)"""
    n, pl = u["name"], u["pl"]
    if pl[0] == "model":
        kind, req, addl = pl[1], pl[2], pl[3]
        extra = {"zq_x1": "2020-01-02", "zq_x2": "2019-12-31"}
        full = {n: VAL[kind], "zq_sib_s": "ss", "zq_sib_d": "2018-07-08", "zq_sib_l": ["2017-01-01"], "zq_sib_m": {"zq_r": "sm"}, **extra}
        out = [full, {n: VAL[kind], "zq_sib_s": "only"}]
        if req == "opt":
            out.append({"zq_sib_s": "absent", "zq_x1": "2020-02-02"})
        return out
    if pl[0] == "allof":
        x, y = (n, u["partner"]) if pl[3] == "cand" else (u["partner"], n)
        val = ALLOF_KINDS[pl[1]][2]
        return [{x: val, y: "tw", "zq_x1": "extra"}, {x: val}, {y: "t2"}]
    if pl[0] == "modelraw":
        return [{n: "a1", u["partner"]: "b1", "zq_sib_d": "2018-07-08", "zq_x1": "2020-01-02"}, {n: "a2"}, {u["partner"]: "b3"}]
    if pl[0] == "multipart":
        kind = pl[1]
        return [{n: VAL[kind], "zq_sib_l": ["l1", "l2"], "zq_sib_m": {"zq_r": "sm"}, "zq_sib_d": "2018-07-08", "zq_x1": {"zq_r": "x"}}, {n: VAL[kind]}]
    return []


# ------------------------------------------------------------------ normalisation of observations (candidate vs control)
def rename_keys(x, table):
    if isinstance(x, dict):
        return {table.get(k, k): rename_keys(v, table) for k, v in x.items()}
    if isinstance(x, list):
        return [rename_keys(v, table) for v in x]
    return x


def norm_ser(s, table, uid):
    """client_runner.ser structure with class names / attribute names made placement-independent"""
    if isinstance(s, dict):
        if s.get("t") == "obj":
            return {"t": "obj", "cls": re.sub(r"\d+$", "#", s["cls"]), "fields": {table.get(k, k): norm_ser(v, table, uid) for k, v in s["fields"].items()},
                    "addl": None if s["addl"] is None else {k: norm_ser(v, table, uid) for k, v in s["addl"].items()}}
        if s.get("t") == "dict":
            return {"t": "dict", "v": {table.get(k, k): norm_ser(v, table, uid) for k, v in s["v"].items()}}
        if s.get("t") == "list":
            return {"t": "list", "v": [norm_ser(v, table, uid) for v in s["v"]], "tuple": s.get("tuple")}
        if s.get("t") == "j" and isinstance(s.get("v"), str):
            return {"t": "j", "v": s["v"].replace(f"u{uid}", "u#")}
        if s.get("t") == "other":
            return {"t": "other", "cls": s.get("cls")}
        return s
    return s


def norm_exc(e):
    return None if e is None else e.get("type")


def norm_roundtrip(r, wtab, ptab, uid, ser_out=False):
    """ser_out: `out` is a client_runner.ser structure (to_multipart) rather than plain JSON (to_dict)"""
    if "fatal_op" in r:
        return {"fatal": norm_exc(r["fatal_op"])}
    out = {}
    for k in ("dec_exc", "enc_exc", "redecode_exc"):
        if k in r:
            out[k] = norm_exc(r[k])
    if "obj" in r:
        out["obj"] = norm_ser(r["obj"], ptab, uid)
    if "out" in r:
        out["out"] = norm_ser(r["out"], wtab, uid) if ser_out else rename_keys(r["out"], wtab)
    for k in ("py_equal", "dumps_ok", "redecode_equal"):
        if k in r:
            out[k] = r[k]
    return out


def norm_kwargs(r, wtab, uid):
    if "fatal_op" in r:
        return {"fatal": norm_exc(r["fatal_op"])}
    if "exc" in r:
        return {"exc": norm_exc(r["exc"])}
    return {k: norm_ser(v, wtab, uid) for k, v in r["kwargs"].items()}


DROP_HEADERS = {"user-agent", "host", "accept", "accept-encoding", "connection", "content-length"}


def norm_call(r, wire, wtab, uid, htab=None, ctab=None):
    """htab: lower-case header name -> tag, ctab: cookie name -> tag (default: the candidate's wire name in either)"""
    htab = {wire.lower(): "<cand>"} if htab is None else htab
    ctab = {wire: "<CAND>"} if ctab is None else ctab
    if "fatal_op" in r:
        return {"fatal": norm_exc(r["fatal_op"])}
    out = {}
    if "exc" in r:
        out["exc"] = norm_exc(r["exc"])
    reqs = []
    for q in r.get("requests", []):
        hs = []
        for k, v in q["headers"]:
            kl = k.lower()
            if kl in DROP_HEADERS:
                continue
            if kl == "cookie":
                parts = []
                for p in v.split(";"):
                    p = p.strip()
                    cn, _, cv = p.partition("=")
                    parts.append(ctab.get(cn, cn) + "=" + cv)
                v = "; ".join(sorted(parts))
            hs.append([htab.get(kl, kl), v])
        reqs.append({"method": q["method"], "path": urllib.parse.urlsplit(q["url"]).path.replace(f"u{uid}", "u#"),
                     "query": sorted([wtab.get(k, k), v] for k, v in q["query"]), "headers": sorted(hs), "content": q["content_hex"]})
    out["requests"] = reqs
    if "result" in r:
        out["parsed"] = norm_ser(r["result"].get("parsed"), {}, uid)
        out["status"] = r["result"].get("status")
    return out


# ------------------------------------------------------------------ one document
def compile_check(out_dir):
    bad = {}
    for f in sorted(out_dir.rglob("*.py")):
        try:
            compile(f.read_text(encoding="utf-8"), str(f), "exec")
        except SyntaxError as e:
            bad[f.relative_to(out_dir).as_posix()] = f"SyntaxError: {e.msg} (line {e.lineno}: {(e.text or '').strip()[:80]})"
    return bad


def op_units_vectors(u, ep):
    """two argument vectors for an operation unit: all set; optionals unset"""
    loc_lists = {"path": ep.path_parameters, "query": ep.query_parameters, "header": ep.header_parameters, "cookie": ep.cookie_parameters}
    vals = {"zq_sq": ("date", "2021-03-04"), "zq_sh": ("j", "hv"), "zq_sc": ("j", "kv"), u["name"]: ("j", "cv")}
    if u.get("partner"):
        vals[u["partner"]] = ("j", "pv")
    full, sparse = {}, {}
    for loc, ps in loc_lists.items():
        for p in ps:
            v = vals.get(p.name, ("j", "zz"))
            full[str(p.python_name)] = v
            sparse[str(p.python_name)] = v if p.required else ("unset",)
    if ep.bodies:
        full["body"] = sparse["body"] = ("model", "ZqRef", {"zq_r": "bv"})
    return [full, sparse]


def process(units, depth=0):
    """generate one document for `units`, run everything, return per-unit records (splits the document when it fails as a whole)"""
    recs = {u["key"]: {"unit": u, "problems": [], "cases": [], "obs": {}} for u in units}
    live = list(units)
    info = {"ctable": None, "oracles": None, "recs": recs, "docs": 0, "error": None}
    for attempt in range(8):
        doc = build_doc(live)
        info["docs"] += 1
        g = impl.Gen(doc)
        try:
            if g.exc is not None:
                return split(units, depth, "generate raised " + repr(g.exc), info)
            data, config = impl.parse_doc(doc)
            ab = absprop.Abs(data)
            mod2cls = {f"models/{m.class_info.module_name}.py": str(m.class_info.name) for m in ab.models}
            bad = compile_check(g.out)
            cls2unit = {c: u for u in live for c in unit_classes(u)}
            op2unit = {}
            for u in live:
                if u["pl"][0] in ("param", "paramraw", "paramx"):
                    op2unit[f"api/zqtag/zq_o{u['uid']}.py"] = u
                elif u["pl"][0] == "multipart":
                    op2unit[f"api/zqtag/zq_mp{u['uid']}.py"] = u
            drop = []
            for f, msg in bad.items():
                u = cls2unit.get(mod2cls.get(f)) or op2unit.get(f)
                if u is None:
                    return split(units, depth, f"{f} does not compile and belongs to no unit: {msg}", info)
                recs[u["key"]]["problems"].append(("compile", f"{f}: {msg}"))
                if f.startswith("models/"):
                    drop.append(u["key"])
            if drop:
                live = [u for u in live if u["key"] not in drop]
                continue
            # ---- execute
            eps = {ep.name: (module, ep) for module, tag, ep in epwork.endpoints_of(data, config)}
            diag = [d[1] + ": " + str(d[2]) for d in g.diag()]
            ops, meta = [{"op": "import_all"}], [None]
            strings = set()
            for u in live:
                r = recs[u["key"]]
                cls = unit_class(u)
                if cls:
                    if cls not in ab.cls_id:
                        r["problems"].append(("rejected", "class not generated: " + "; ".join(d for d in diag if cls in d)[:300]))
                        continue
                    m = ab.models[ab.cls_id[cls]]
                    wire2py = {p.name: str(p.python_name) for p in (m.required_properties or []) + (m.optional_properties or [])}
                    r["py"] = wire2py.get(u["name"])
                    r["ppy"] = wire2py.get(u.get("partner"))
                    for j in instances(u):
                        absprop.strings_in(j, strings)
                        ops.append({"op": "roundtrip", "cls": cls, "data": j}); meta.append((u, "roundtrip", j))
                        if u["pl"][0] == "multipart":
                            ops.append({"op": "multipart", "cls": cls, "data": j}); meta.append((u, "multipart", j))
                else:
                    name = f"zq_o{u['uid']}"
                    if name not in eps:
                        r["problems"].append(("rejected", "operation not generated: " + "; ".join(d for d in diag if name in d or "zq/u%d" % u["uid"] in d)[:300]))
                        continue
                    module, ep = eps[name]
                    try:
                        r["cep"] = epwork.cendpoint(ab, ep)
                    except Exception as e:
                        r["problems"].append(("harness", "endpoint not representable: " + repr(e)))
                        continue
                    r["py"] = next((str(p.python_name) for p in ep.list_all_parameters() if p.name == u["name"]), None)
                    for vec in op_units_vectors(u, ep):
                        epwork.strings_in_vec(vec, strings)
                        kwargs = {k: OPS.to_marker(v) for k, v in vec.items()}
                        rsp = {"status": 200, "json": {"zq_r": "resp"}}
                        ops.append({"op": "get_kwargs", "module": module, "kwargs": kwargs}); meta.append((u, "kw", (vec, ep)))
                        for variant in ("sync_detailed", "asyncio_detailed", "sync"):
                            ops.append({"op": "call", "module": module, "variant": variant, "kwargs": kwargs, "auth": False, "response": rsp}); meta.append((u, variant, (vec, ep)))
            res = impl.run_client(g.out, ops, timeout=900)
            if isinstance(res, dict):
                return split(units, depth, "runner: " + res.get("fatal", "")[:600], info)
            failed = res[0].get("failed", {}) if "fatal_op" not in res[0] else {"<package>": res[0]["fatal_op"]}
            model_fail = {k: v for k, v in failed.items() if ".models" in k or k in ("out", "<package>")}
            if model_fail:
                # a model module that compiles but cannot be imported breaks `models/__init__` for every class of the document:
                # find the module(s) by importing each on its own, drop their units, regenerate
                pr = impl.run_client(g.out, [{"op": "probe_models"}], timeout=600)
                culprits = pr[0].get("failed", {}) if isinstance(pr, list) and isinstance(pr[0], dict) else {}
                for mname, exc in culprits.items():
                    u = cls2unit.get(mod2cls.get(f"models/{mname}.py"))
                    if u is not None:
                        recs[u["key"]]["problems"].append(("import", f"models/{mname}.py: {exc.get('type')}: {exc.get('msg', '')[:200]}"))
                        drop.append(u["key"])
                if drop:
                    live = [u for u in live if u["key"] not in drop]
                    continue
                return split(units, depth, "import of the generated package failed: " + json.dumps(model_fail)[:400], info)
            for k, v in failed.items():
                m = re.search(r"zq_(?:o|mp)(\d+)$", k)
                if m:
                    for u in live:
                        if u["uid"] == int(m.group(1)) and not unit_class(u) or (u["uid"] == int(m.group(1)) and u["pl"][0] == "multipart"):
                            if not any(p[0] == "compile" for p in recs[u["key"]]["problems"]):
                                recs[u["key"]]["problems"].append(("import", f"{k}: {v}"))
            info["ctable"] = ab.ctable()
            for (mt, r0) in zip(meta[1:], res[1:]):
                u, what, arg = mt
                r = recs[u["key"]]
                wire, uid = u["name"], u["uid"]
                wtab, ptab = {wire: "<CAND>"}, {r.get("py") or "?": "<CAND>"}
                if u.get("partner"):
                    wtab[u["partner"]] = "<PARTNER>"
                    ptab[r.get("ppy") or "??"] = "<PARTNER>"
                if what == "roundtrip":
                    case = {"kind": "codec", "instance": arg, "res": r0}
                    try:
                        case["k"] = ab.ckind(("model", unit_class(u)))
                        case["j"] = absprop.cjson(arg)
                        if "fatal_op" in r0:
                            case["unrepresentable"] = "runner could not serialise the object: " + json.dumps(r0["fatal_op"])[:200]
                        elif "dec_exc" in r0:
                            case["obs_obj"], case["obs_out"] = "None", "None"
                        else:
                            case["obs_obj"] = "(Some " + ab.cpv(r0["obj"]) + ")"
                            if "enc_exc" in r0:
                                case["obs_out"] = "None"
                            else:
                                try:
                                    case["obs_out"] = "(Some " + absprop.cjson(absprop.from_jsonable(r0["out"])) + ")"
                                except (ValueError, TypeError):
                                    case["obs_out"] = "None"
                    except Exception as e:
                        case["unrepresentable"] = repr(e)
                    r["cases"].append(case)
                    r["obs"].setdefault("roundtrip", []).append(norm_roundtrip(r0, wtab, ptab, uid))
                    lossless = ("dec_exc" not in r0 and "enc_exc" not in r0 and "fatal_op" not in r0 and r0.get("py_equal") and r0.get("dumps_ok") and r0.get("redecode_equal"))
                    r["obs"].setdefault("lossless", []).append(bool(lossless))
                elif what == "multipart":
                    r["obs"].setdefault("multipart", []).append(norm_roundtrip(r0, wtab, ptab, uid, ser_out=True))
                elif what == "kw":
                    vec, ep = arg
                    case = {"kind": "kw", "vec": {k: list(v) for k, v in vec.items()}, "res": r0, "cep": r["cep"]}
                    try:
                        case["cargs"] = epwork.cargs(ab, vec, "O@", "T@")
                        if "exc" in r0 or "fatal_op" in r0:
                            case["obs"] = "None"
                        else:
                            case["obs"] = "(Some " + epwork.ckwargs(ab, r0["kwargs"]) + ")"
                    except Exception as e:
                        case["unrepresentable"] = repr(e)
                    r["cases"].append(case)
                    r["obs"].setdefault("kw", []).append(norm_kwargs(r0, wtab, uid))
                else:
                    vec, ep = arg
                    htab = ctab = None
                    if u["pl"][0] == "paramx":
                        byloc = {u["pl"][1]: (wire, "<CAND>"), u["pl"][2]: (u["partner"], "<PARTNER>")}
                        htab = {byloc["header"][0].lower(): byloc["header"][1]} if "header" in byloc else {}
                        ctab = {byloc["cookie"][0]: byloc["cookie"][1]} if "cookie" in byloc else {}
                    r["obs"].setdefault(what, []).append(norm_call(r0, wire, wtab, uid, htab, ctab))
                    exp = C03.expectation(doc, ep, vec)
                    if exp is not None:
                        if "exc" in r0 or "fatal_op" in r0:
                            r["obs"].setdefault("docprob", []).append(f"{what}: raised {json.dumps(r0.get('exc') or r0.get('fatal_op'))[:160]}")
                        else:
                            for p in C03.check_request(exp, r0):
                                r["obs"].setdefault("docprob", []).append(f"{what}: {p}")
                            pj = (r0.get("result") or {}).get("parsed_json")
                            if pj != {"zq_r": "resp"}:
                                r["obs"].setdefault("docprob", []).append(f"{what}: parsed response is {json.dumps(pj)[:80]}")
            info["oracles"] = absprop.oracle_terms(strings)
            return [info]
        finally:
            g.close()
    return split(units, depth, "document still does not compile after removing the offending classes", info)


def split(units, depth, why, info):
    """the document failed as a whole: halve the candidate units (controls stay in both halves) until the culprit is alone"""
    cands = [u for u in units if not u.get("control")]
    if len(cands) <= 1 or depth > 14:
        for u in cands:
            info["recs"][u["key"]]["problems"].append(("document", why))
        info["error"] = why
        info["control_invalid"] = True
        return [info]
    ctl = [u for u in units if u.get("control")]
    h = len(cands) // 2
    return process(renumber(ctl + cands[:h]), depth + 1) + process(renumber(ctl + cands[h:]), depth + 1)


def renumber(units):
    out = []
    for i, u in enumerate(units):
        u = dict(u)
        u["uid"] = i
        out.append(u)
    return out


def work(job):
    try:
        return process(renumber(job))
    except BaseException as e:  # noqa
        import traceback
        return [{"error": "harness worker: " + repr(e) + traceback.format_exc()[-1500:], "recs": {}, "fatal": True, "units": job}]


# ------------------------------------------------------------------ the check
def make_units(cands, table_scopes, raw_only=(), reduced=(), spellings=(), paramx_only=()):
    units = []
    for name in cands:
        for pl in placements_for(name, table_scopes[name], regular=name not in raw_only and name not in paramx_only, reduced=name in reduced, raw=name not in spellings):
            u = {"name": name, "pl": pl, "key": name + "|" + pl_str(pl)}
            if pl[0] in TWIN_PLACEMENTS:
                u["partner"] = partner_of(name)
            units.append(u)
    return units


def name_correspondence(names):
    """stage B on the python names themselves: utils.PythonIdentifier(s, 'field_') of the tree under verification == Names.python_identifier
    (the proved model, RenameThm.spelling_avoids / python_identifier_avoids are about it) for every candidate and every spelling.
    -> (observed python names, {s: model value} for the mismatches)"""
    names = sorted(names)
    obs = {n: pyid(n) for n in names}
    hdr = "Require Import OPC.Uni OPC.Names.\nOpen Scope N_scope.\n"
    terms = [f"str_eqb (python_identifier {cstr(n)} {cstr('field_')} false) {cstr(obs[n])}" for n in names]
    bad = run_cases(hdr, terms, shard=120, jobs=14)
    out = {}
    for i in bad[:40]:
        from lib.common import decode_coq_str
        out[names[i]] = decode_coq_str(coq_eval(hdr, f"python_identifier {cstr(names[i])} {cstr('field_')} false"))
    for i in bad[40:]:
        out[names[i]] = "?"
    return obs, out


def control_units():
    out = [{"name": NEUTRAL, "pl": pl, "key": NEUTRAL + "|" + pl_str(pl)} for pl in MODEL_PLACEMENTS + PARAM_PLACEMENTS]
    out.append({"name": "ZqNeutral", "pl": ("modelraw",), "partner": "zq_neutral", "key": NEUTRAL + "|modelraw"})
    out.append({"name": "ZqNeutral", "pl": ("paramraw", "query"), "partner": "zq_neutral", "key": NEUTRAL + "|paramraw:query"})
    out += [{"name": "ZqNeutral", "pl": pl, "partner": "zq_neutral", "key": NEUTRAL + "|" + pl_str(pl)} for pl in ALLOF_ACTIVE + PARAMX_ACTIVE]
    for u in out:
        u["control"] = True
    return out


def select(table, tier, rng, known_names):
    """-> (names, scopes, raw_only). thorough: everything x every placement. quick: every function-scope identifier that can
    become a python name (verbatim: all regular placements; through the raw-name fallback: the raw placements), every name of a
    listed finding, and a random sample of the remaining names (keywords, builtins, module-level and package names)"""
    scopes = {c["name"]: c["scopes"] for c in table["candidates"]}
    names = sorted(scopes)
    if tier == "thorough":
        return names, scopes, set()
    fn = [n for n in names if any(s.startswith(FUNCTION_SCOPES) for s in scopes[n])]
    core = [n for n in fn if pyid(n) == n]
    raw = [n for n in fn if pyid(n) != n and partner_of(n) is not None and not n.startswith("_")]
    # capitalised keywords / reserved words (From / from, Class / class, Self / self): twins that the reserved-word suffix and the raw-name fallback must keep apart
    raw += [n for n in names if "python.variant" in scopes[n] and n[:1].isupper() and not n.isupper() and partner_of(n) is not None]
    # identifiers the generated functions use that only the reserved-word suffix keeps apart from a document name (dict, str, self, ...)
    guarded = [n for n in fn if pyid(n) == n + "_"] + [n for n in ("self", "true", "false", "datetime", "class", "from", "import", "none", "type", "id") if n in scopes]
    rest = [n for n in names if n not in core and n not in raw and n not in guarded]
    must = [n for n in names if n in known_names]
    pick = rng.sample([n for n in rest if n not in must], min(len(rest), 10))
    return sorted(set(core + raw + guarded + must + pick)), scopes, set(raw) - set(must) - set(guarded)


def run(run, tier, replay=None):
    rng = run.rng
    table = load_table()
    known_names = {f["witness"].get("name") for f in run.known.values() if isinstance(f.get("witness"), dict)}
    global ALLOF_ACTIVE, PARAMX_ACTIVE
    ALLOF_ACTIVE = list(ALLOF_ALL if tier == "thorough" else ALLOF_QUICK)
    PARAMX_ACTIVE = list(PARAMX_ALL if tier == "thorough" else PARAMX_QUICK)
    names, scopes, raw_only = select(table, tier, rng, known_names)
    table_names = set(scopes)
    # spellings that python_identifier must keep apart from a template identifier N (or fold onto N's own python name): _N, __N, N_, ' N', -N, N-, case variants
    spell = {}
    for sp in table.get("spellings", []):
        spell.setdefault(sp["name"], []).append(sp["target"])
    for sp, targets in spell.items():
        scopes[sp] = sorted(set(scopes.get(sp, [])) | {sc for t in targets for sc in scopes.get(t, []) if sc.startswith(("model.", "endpoint.", "enum."))})
    rp = json.load(open(replay)) if replay else None
    # ---- stage B on the names: the implementation's PythonIdentifier == the proved model, for EVERY candidate and EVERY spelling (all tiers)
    t0 = time.time()
    check_names = sorted(table_names | set(spell)) if not replay else sorted({v["name"] for v in rp["violations"] if "name" in v})
    pyname, name_bad = name_correspondence(check_names)
    print("phase names %.1fs (%d names, %d mismatches)" % (time.time() - t0, len(check_names), len(name_bad)))
    for sp, model in sorted(name_bad.items())[:12]:
        run.violation("correspondence", {"name": sp, "placement": "python-name", "impl": pyname[sp], "model": model, "targets": spell.get(sp),
                                         "note": "utils.PythonIdentifier no longer computes what Names.python_identifier (for which spelling_avoids / python_identifier_avoids are proved) computes; "
                                                 "the placements of this spelling are searched for a concrete capture below"})
    if tier == "thorough":
        sp_pick, reduced = sorted(spell), set()
    else:
        us = [sp for sp in spell if sp.startswith("_")]
        others = sorted(set(spell) - set(us))
        sp_pick = sorted(set(us) | set(rng.sample(others, len(others) // 4)))
        reduced = set(sp_pick) - table_names
    # targeted search for a concrete capture: the mismatching spellings whose new python name is an identifier of the generated code first, all placements (at most 40 of them)
    hot = sorted(name_bad, key=lambda sp: (pyname[sp] not in table_names, len(sp), sp))[:40]
    sp_pick = sorted(set(sp_pick) | set(hot) & set(spell))
    reduced -= set(hot)
    # quick: the upper / title case spelling of every function-scope identifier that is its own python name gets (only) the cross-location twin placements
    px_only = set()
    if tier != "thorough":
        for n0 in list(names):
            if n0 in table_names and pyid(n0) == n0 and any(sc.startswith(FUNCTION_SCOPES) for sc in scopes[n0]):
                for sp in (n0.upper(), n0.title()):
                    if sp in spell and sp not in sp_pick and sp not in table_names and sp.isidentifier() and partner_of(sp) is not None:
                        px_only.add(sp)
    names = sorted(set(names) | set(sp_pick) | px_only)
    scopes[NEUTRAL] = ["control"]
    scopes["ZqNeutral"] = ["control"]
    only_spelling = set(spell) - table_names
    units = make_units(names, scopes, raw_only, reduced, only_spelling, px_only)
    if replay:
        want = {(v["name"], v["placement"]) for v in rp["violations"] if "name" in v and "placement" in v}
        for n, _ in want:
            scopes.setdefault(n, ["replay"])
        units = [u for u in make_units(sorted({n for n, _ in want}), scopes, spellings=only_spelling) if (u["name"], pl_str(u["pl"])) in want]
    # pack: ~12 candidates per document, all placements of a candidate in the same document, controls in every document
    by_name = {}
    for u in units:
        by_name.setdefault(u["name"], []).append(u)
    order = sorted(by_name)
    rng.shuffle(order)
    per_doc = 150 if tier == "quick" else 210          # candidate units per document
    jobs, job, cnt = [], control_units(), 0
    for n in order:
        job += by_name[n]
        cnt += len(by_name[n])
        if cnt >= per_doc:
            jobs.append(job)
            job, cnt = control_units(), 0
    if cnt:
        jobs.append(job)
    run.rule = ("candidates: every identifier of the regenerated table build/gen_names.json (identifiers bound or read by the generated code of a probe client, per scope; "
                "keywords, soft keywords, builtins, case variants) - thorough: all; quick: every function-scope identifier that survives PythonIdentifier unchanged, every "
                "name of a listed finding, and a random sample of the rest. Each candidate x scope-appropriate placements (model property: 4 kinds x required/optional, "
                "untyped additionalProperties; multipart model property; parameter in path/query/header/cookie without and with a JSON body; raw-name pair). A case = one "
                "(candidate, placement): the class / operation is generated in a document shared with other candidates and with the control name zq_neutral, executed in a "
                "fresh interpreter (3 instances per class; 2 argument vectors x {_get_kwargs, sync_detailed, asyncio_detailed, sync} per operation), compared with the Coq "
                "models (stage B) and with the control (stage C). In addition, for EVERY template identifier N the spellings _N, __N, N_, ' N', -N, N-, upper / title / capitalised / lower case "
                "(build/gen_names.json `spellings`): utils.PythonIdentifier of every candidate and spelling is compared with Names.python_identifier in Coq on every run (all tiers); thorough: every "
                "spelling x every regular placement; quick: every underscore-prefixed spelling and a quarter of the others in one model / query-with-body / path placement, and all placements for "
                "spellings whose python name disagrees with the model. A spelling whose python name (implementation == model) is N generates N's code: its captures count as N's. "
                "Twin placements (every candidate N that has a twin T with the same python name before de-confliction: From / from, Class / class, HTTPStatus / http_status, UNSET / unset): N and T as "
                "raw-name pair (model, query) and as sibling properties of a model REFINED through allOf - {untyped->string, string->date, number->integer, string->enum} x {general first, refined first} x "
                "{N or T redefined} x {inline members, $ref parent} (thorough: all 32; quick: 8 covering combinations), compared with the twin control ZqNeutral / zq_neutral. "
                "Cross-location twins (paramx): N in one location and its twin in ANOTHER location of the same operation (thorough: all 12 ordered location pairs x with/without body; quick: 4 pairs covering "
                "every location on both sides), for every table candidate with a twin and for the upper / title case spelling of every function-scope identifier. "
                "Non-trivial = the candidate is not the control; distinct by (name, placement).")
    t0 = time.time()
    with cf.ProcessPoolExecutor(max_workers=14) as ex:
        results = [x for part in ex.map(work, jobs) for x in part]
    print("phase gen+run %.1fs (%d documents, %d units)" % (time.time() - t0, sum(r.get("docs", 0) for r in results), len(units)))
    t0 = time.time()
    # ---- stage B: the existing correspondences (one coqc job group per document: its class table is only parsed there)
    groups = []
    for di, info in enumerate(results):
        if info.get("fatal"):
            run.violation("harness-error", {"error": info["error"], "units": [u["key"] for u in info.get("units", [])][:20]}, no_input=True)
            continue
        hdr = HDR_BASE
        if info["ctable"] is not None:
            hdr += f"Definition T{di} : ctable := {info['ctable']}.\nDefinition O{di} : oracles := {info['oracles']}.\n"
        terms, tmeta = [], []
        for key, r in info["recs"].items():
            r["bmis"] = []
            for c in r["cases"]:
                if "unrepresentable" in c:
                    r["bmis"].append((c, "the generated code produced something the model cannot represent: " + c["unrepresentable"]))
                    continue
                if c["kind"] == "codec":
                    terms.append(f"codec_case O{di} T{di} {c['k']} {c['j']} {c['obs_obj']} {c['obs_out']}")
                else:
                    terms.append(f"kw_case T{di} {c['cep']} {c['cargs'].replace('O@', f'O{di}').replace('T@', f'T{di}')} {c['obs']}")
                tmeta.append((key, c))
        if terms:
            groups.append((di, hdr, terms, tmeta))
    n_terms = sum(len(g[2]) for g in groups)
    n_bad = 0
    with cf.ThreadPoolExecutor(max_workers=14) as ex:
        for (di, hdr, terms, tmeta), bad in zip(groups, ex.map(lambda g: run_cases(g[1], g[2], shard=700, jobs=2), groups)):
            for i in bad:
                key, c = tmeta[i]
                results[di]["recs"][key]["bmis"].append((c, "model and executed generated code disagree"))
            n_bad += len(bad)
    print("phase corr %.1fs (%d terms, %d mismatches)" % (time.time() - t0, n_terms, n_bad))
    # ---- verdicts per (candidate, placement), gated by the control of the same document
    captures = {}        # (scope, name) -> list of (placement, evidence, doc units)
    n_units = n_ctrl_bad = n_rejected = 0
    corr_mis = 0
    for di, info in enumerate(results):
        if info.get("fatal"):
            continue
        recs = info["recs"]
        ctrl = {} if info.get("control_invalid") else {pl_str(r["unit"]["pl"]): r for r in recs.values() if r["unit"].get("control")}
        for key, r in recs.items():
            u = r["unit"]
            pls = pl_str(u["pl"])
            if u.get("control"):
                if info.get("control_invalid"):
                    continue
                if r["bmis"] or r["problems"]:
                    n_ctrl_bad += 1
                    ev = [p[1] for p in r["problems"]] + [m[1] + ": " + json.dumps(m[0].get("res"))[:300] for m in r["bmis"]]
                    run.violation("correspondence", {"name": u["name"], "placement": pls, "evidence": ev[:3], "doc": build_doc(renumber([u])),
                                                     "note": ("two sibling names that differ only by case / delimiters (ZqNeutral / zq_neutral: same python name before de-confliction) no longer come out as two "
                                                              "distinct, working attributes / arguments - the de-confliction of python names depends on how the document spells or refines them"
                                                              if u["pl"][0] in TWIN_PLACEMENTS else
                                                              "the NEUTRAL control name does not behave like the proved models: not a capture; the templates or the models changed")})
                continue
            n_units += 1
            fam = "model" if u["pl"][0] in ("model", "modelraw", "multipart", "allof") else "endpoint"
            # a spelling whose python name (implementation == proved model) is the template identifier N itself generates the same code as N:
            # its captures are N's captures
            canon = u["name"]
            pn = pyname.get(canon)
            if canon not in name_bad and pn and pn != canon and pn in table_names and pn not in name_bad and pyname.get(pn) == pn and u["pl"][0] not in TWIN_PLACEMENTS:
                canon = pn
            scope = scope_of(scopes.get(canon, ["?"]), fam)
            run.note_case({"name": u["name"], "placement": pls, "scope": scope}, nontrivial=True, kind=u["pl"][0])
            c = ctrl.get(pls)
            evidence = []
            for kind, msg in r["problems"]:
                if kind == "rejected" and (u["pl"][0] in ("modelraw", "paramraw") or (c is not None and any(k == "rejected" for k, _ in c["problems"]))):
                    n_rejected += 1       # refused with a diagnostic (two document names collide): visible, and outside C18
                    continue
                evidence.append(f"{kind}: {msg}")
            if c is not None and not c["bmis"]:
                for cs, why in r["bmis"]:
                    corr_mis += 1
                    evidence.append("stage B: " + why + " on " + json.dumps(cs.get("instance") or cs.get("vec"))[:160] + " -> " + json.dumps(cs.get("res"))[:260])
            if c is not None:
                for what in sorted(set(r["obs"]) | set(c["obs"])):
                    if what == "docprob":
                        if r["obs"].get(what) and not c["obs"].get(what):
                            evidence.append("stage C (document): " + "; ".join(r["obs"][what][:3]))
                        continue
                    if r["obs"].get(what) != c["obs"].get(what) and not any(k in ("compile", "import", "rejected", "document") for k, _ in r["problems"]):
                        a, b = r["obs"].get(what), c["obs"].get(what)
                        idx = next((i for i in range(min(len(a or []), len(b or []))) if a[i] != b[i]), 0) if a and b else 0
                        evidence.append(f"stage C ({what}): candidate {json.dumps((a or [None])[idx] if a else None)[:300]} != control {json.dumps((b or [None])[idx] if b else None)[:300]}")
            elif not evidence:
                evidence.append("no control for this placement in the document")
            if evidence:
                if canon != u["name"]:
                    evidence = [f"(document spelling {u['name']!r} -> python name {canon!r}) " + evidence[0]] + evidence[1:]
                captures.setdefault((scope, canon), []).append((pls, evidence, u))
    run.corr = {"cases": n_terms + len(check_names), "mismatches": n_ctrl_bad + len(name_bad), "mismatches_that_are_captures": corr_mis,
                "what": "per (candidate, placement): generated from_dict/to_dict == Codec.dec/enc (codec_case) and generated _get_kwargs == Endpoint.get_kwargs (kw_case) on the class / "
                        "endpoint abstracted from the implementation's parse; mismatches of a candidate whose neutral control matches are captures (classified below), mismatches of the control are violations"}
    run.exhaustive = (tier == "thorough" and not replay)
    # ---- classification
    listed, unlisted = [], []
    for (scope, name), hits in sorted(captures.items()):
        fid = finding_id(scope, name)
        pls = sorted({h[0] for h in hits})
        what = f"document name {name!r} ({scope}) placed as {', '.join(pls[:6])}{' ...' if len(pls) > 6 else ''}: {hits[0][1][0][:420]}"
        wit = (run.known.get(fid) or {}).get("witness") or {}
        allowed = set(wit.get("placements") or [])
        fams = tuple(a[:-1] for a in allowed if a.endswith(":*"))          # "allof:*" = every allOf-refinement placement
        extra_pl = [h for h in hits if h[0] not in allowed and not (fams and h[0].startswith(fams))]
        if fid in run.known and not extra_pl and run.known_finding(fid, what):
            listed.append(fid)
        elif fid in run.known and extra_pl:
            run.known_finding(fid, what)
            listed.append(fid)
            unlisted.append((scope, name, extra_pl))      # a listed capture that now also happens in placements the finding does not list
        else:
            unlisted.append((scope, name, hits))
    for scope, name, hits in unlisted[:40]:
        pls, ev, u = hits[0]
        ctl = [c for c in control_units() if pl_str(c["pl"]) == pls]
        run.violation("oracle", {"scope": scope, "name": u["name"], "python_name": name, "placement": pls, "all_placements": sorted({h[0] for h in hits}), "evidence": ev[:4],
                                 "doc": build_doc(renumber(ctl + [u])), "finding_id_if_genuine": finding_id(scope, u["name"] if u["name"] in name_bad else name),
                                 "note": "a document name captures a name of the generated code and this (scope, name) is not a listed finding"})
    run.corr["mismatches"] += sum(1 for _, _, hits in unlisted for h in hits for e in h[1] if e.startswith("stage B"))
    run.extra.update({"spellings_in_table": len(spell), "python_names_compared_with_model": len(check_names), "python_name_mismatches": len(name_bad),
                      "candidates": len(names), "candidate_table_size": len(table["candidates"]), "units": n_units, "captures": len(captures), "raw_pairs_rejected_with_diagnostic": n_rejected,
                      "captures_listed": sorted(listed), "documents": sum(r.get("docs", 0) for r in results),
                      "derived_patterns_of_the_templates": [(p["prefix"], p["suffix"]) for p in table.get("patterns", [])]})
    stale = sorted(set(run.known) - set(listed)) if (tier == "thorough" and not replay) else []
    if stale:
        run.extra["listed_findings_not_reproduced"] = stale
    run.assumptions += ["harness/translate/gen_names.py: the probe document reaches every template branch that introduces a name (checked: required scopes present, ast walk agrees with symtable)",
                        "generated functions are instances of the IR of coq/Rename.v and Python function scope is the IR's single flat scope (closures / comprehensions read the enclosing scope)",
                        "abstraction harness/lib/absprop.py + epwork.py; harness/lib/client_runner.py (observation only)",
                        "document-derived local names (prefix/suffix patterns around a property name, e.g. _x, x_item, json_x) are listed in the evidence but collisions between two document names are outside C18"]
