"""C16 - each configuration option has exactly its documented effect.
Stage A (check.py): gen_frame.py regenerates the option read-site table; FrameThm.frame re-checks it against the documented sites.
Stage B: correspondence of the executable option models of coq/Frame.v with the implementation on random inputs:
  Class.from_string with class_overrides / field_prefix, needs_prefix (PythonIdentifier / ClassName with two prefixes),
  utils.get_content_type + body type + response source with content_type_overrides, the tag selection of
  EndpointCollection.from_data with generate_all_tags on/off, ModelProperty.build's class string with the title option.
Stage C (metamorphic): documents (atlas + random schema graphs, each extended with operations / tags / media types / names that
  need a prefix / titled inline objects) are generated with every option toggled alone and in random pairs; the output tree of
  the variant is compared with the base tree under the option's own relation (see RELATIONS), wire behaviour is compared by
  executing both generated clients (from_dict/to_dict round trips, endpoint calls against httpx.MockTransport)."""
from __future__ import annotations
import ast, contextlib, copy, io, json, os, random, re, shutil, sys, tempfile, time, concurrent.futures as cf
from pathlib import Path
from lib.common import cstr, run_cases, coq_eval, REPO
from lib import impl, absprop, strings as S
from gen import schemas as G

HDR = r"""Require Import OPC.gen.GenTables OPC.Uni OPC.Names OPC.Fs OPC.gen.GenFrame OPC.Frame.
Open Scope N_scope.
Definition fs (s : str) : str := map (fun c => if c =? 962 then 963 else c) s.
Definition eqf (a b : str) := str_eqb (fs a) (fs b).
Definition pair_eqf (a b : str * str) := eqf (fst a) (fst b) && eqf (snd a) (snd b).
Definition opt_eqf (a b : option str) := match a, b with Some x, Some y => eqf x y | None, None => true | _, _ => false end.
Definition bt_eqb (a b : body_type) := match a, b with BData, BData | BFiles, BFiles | BContent, BContent | BJson, BJson => true | _, _ => false end.
Definition body_eqb (a b : option body) := match a, b with
  | Some x, Some y => str_eqb (b_sent x) (b_sent y) && bt_eqb (b_type x) (b_type y) | None, None => true | _, _ => false end.
Definition src_eqb (a b : option source) := match a, b with
  | Some SrcText, Some SrcText | Some SrcJson, Some SrcJson | Some SrcBytes, Some SrcBytes | None, None => true | _, _ => false end.
Fixpoint listN_eqb (a b : list N) := match a, b with [], [] => true | x :: a', y :: b' => (x =? y) && listN_eqb a' b' | _, _ => false end.
Fixpoint colls_eqb (a b : list (str * list N)) := match a, b with
  | [], [] => true | (k, v) :: a', (k', v') :: b' => eqf k k' && listN_eqb v v' && colls_eqb a' b' | _, _ => false end.
Definition same_paths (a b : list path) := forallb (fun p => mem_path p b) a && forallb (fun p => mem_path p a) b.
"""

FL = {"none": "FNone", "poetry": "FPoetry", "pdm": "FPdm", "setup": "FSetup"}


def clist(items):
    items = list(items)
    return "[" + "; ".join(items) + "]" if items else "[]"


def copt_str(x):
    return "None" if x is None else f"(Some {cstr(x)})"


def nosurr(s):
    """no lone surrogates (email.message wraps them in a Header object) and no capital / final sigma (str.lower()'s context-dependent
    final-sigma rule is the one known divergence of Names.v's per-character lower map; comparisons fold it, dictionary lookups cannot)"""
    return not any(0xD800 <= ord(c) <= 0xDFFF or c in "\u03a3\u03c2" for c in s)


def new_config(cfg=None, meta="none", encoding="utf-8", doc_path="/nonexistent/doc.json", out=None):
    from openapi_python_client.config import Config, ConfigFile, MetaType
    c = dict(cfg or {})
    c.setdefault("post_hooks", [])
    return Config.from_sources(ConfigFile(**c), MetaType(meta), Path(doc_path), encoding, False, output_path=out)


# ====================================================================================================== stage B
def stage_b(run, tier):
    from openapi_python_client import utils
    from openapi_python_client.parser.properties.schemas import Class, Schemas
    from openapi_python_client.parser.properties import ModelProperty
    from openapi_python_client.parser import responses as R
    from openapi_python_client.parser import GeneratorData
    from openapi_python_client import schema as oai
    rng = run.rng
    terms, meta = [], []
    n = 1 if tier == "quick" else 5

    # ---- B1 Class.from_string with overrides
    names = [s for s in S.special_names()[:60]] + ["Pet", "PetOwner", "pet", "1Model", "_Private", "a/b/C", "#/components/schemas/Pet", "/x/", "", "//",
                                                      "My Model", "my-model.v2", "HTTPThing", "class", "None", "é中", "²", "x²", "İx"]
    prefixes = ["field_", "attr_", "x", "F", "", "1", "zq_", "_", "é"]
    def rname():
        r = rng.random()
        if r < 0.5:
            return rng.choice(names)
        if r < 0.8:
            return S.rand_str(rng, S.HOSTILE, 8)
        return S.rand_str(rng, S.ORD, 10)
    for _ in range((300 if tier == 'quick' else 500) * n):
        s = rname()
        if rng.random() < 0.3:
            s = rng.choice(["#/components/schemas/", "/components/schemas/", "a/", "/"]) + s
        p = rng.choice(prefixes)
        if not nosurr(s):
            continue
        default = str(utils.ClassName(s.split("/")[-1], p))
        ovs = []
        for _k in range(rng.choice([0, 1, 1, 2, 3])):
            key = default if rng.random() < 0.6 else str(utils.ClassName(rname(), p))
            if not nosurr(key):
                continue
            ovs.append((key, rng.choice([None, rname()]), rng.choice([None, rname()])))
            if not all(nosurr(x or "") for x in ovs[-1]):
                ovs.pop()
        seen, uniq = set(), []
        for o in ovs:
            if o[0] not in seen:
                seen.add(o[0]); uniq.append(o)
        cfg = new_config({"field_prefix": p, "class_overrides": {k: {"class_name": c, "module_name": m} for k, c, m in uniq}})
        case = {"fn": "Class.from_string", "string": s, "prefix": p, "overrides": uniq}
        try:
            c = Class.from_string(string=s, config=cfg)
            obs = (str(c.name), str(c.module_name))
        except Exception as e:  # noqa
            run.violation("correspondence", {**case, "impl": "raised " + repr(e), "note": "Class.from_string raised; the model is total"})
            continue
        covs = clist(f"({cstr(k)}, {{| o_class := {copt_str(c_)}; o_module := {copt_str(m)} |}})" for k, c_, m in uniq)
        terms.append(f"pair_eqf (class_from_string {cstr(s)} {cstr(p)} {covs}) ({cstr(obs[0])}, {cstr(obs[1])})")
        meta.append({**case, "impl": obs, "model_term": f"class_from_string {cstr(s)} {cstr(p)} {covs}"})
        run.note_case(case, nontrivial=bool(uniq), kind="B:class_from_string")
        # oracle on the implementation: an unnamed class is untouched; the result depends on s only through the default name
        if default not in seen:
            c0 = Class.from_string(string=s, config=new_config({"field_prefix": p}))
            if (str(c0.name), str(c0.module_name)) != obs:
                run.violation("oracle", {**case, "note": "a class the override table does not name changed", "without": (str(c0.name), str(c0.module_name)), "with": obs})

    # ---- B2 needs_prefix
    for _ in range((250 if tier == 'quick' else 400) * n):
        v = rname()
        if not nosurr(v):
            continue
        obs = str(utils.PythonIdentifier(v, "Pa_")) != str(utils.PythonIdentifier(v, "Qb_"))
        terms.append(f"Bool.eqb (needs_prefix {cstr(v)} false) {'true' if obs else 'false'}")
        meta.append({"fn": "PythonIdentifier prefix sensitivity", "value": v, "impl": obs, "model_term": f"needs_prefix {cstr(v)} false"})
        obs2 = str(utils.ClassName(v, "Pa")) != str(utils.ClassName(v, "Qb"))
        terms.append(f"Bool.eqb (class_needs_prefix {cstr(v)}) {'true' if obs2 else 'false'}")
        meta.append({"fn": "ClassName prefix sensitivity", "value": v, "impl": obs2, "model_term": f"class_needs_prefix {cstr(v)}"})
        run.note_case({"fn": "needs_prefix", "value": v}, nontrivial=obs or obs2, kind="B:needs_prefix")

    # ---- B3 content types
    base_cts = ["application/json", "application/octet-stream", "application/x-www-form-urlencoded", "multipart/form-data", "text/plain", "text/csv", "text/html",
                "application/vnd.api+json", "application/problem+json", "application/zip", "application/xml", "image/png", "*/*", "application/*", "json", "a/b/c", "",
                "/", "a/", "/b", "+json", "x/y+json", "application/x-zq", "text/", "applicätion/json", "İ/x", "application/json+"]
    def rct():
        c = rng.choice(base_cts)
        r = rng.random()
        if r < 0.2:
            c += rng.choice(["; charset=utf-8", ";charset=utf-8", " ; q=1", ";", "; boundary=x; y=z", ";;"])
        elif r < 0.3:
            c = rng.choice([" ", "\t", "\n", "\xa0", " ", "\x1f", "\x85"]) + c
        elif r < 0.4:
            c = c + rng.choice([" ", "\t", "\r\n", "\xa0 ", " ;x"])
        elif r < 0.5:
            c = "".join(ch.upper() if rng.random() < 0.4 else ch for ch in c)
        elif r < 0.55:
            c = S.rand_str(rng, list("ab/;+ jsontex\t") + ["É", "ß"], 10)
        return c
    cts_all = []
    for _ in range((8 if tier == 'quick' else 12) * n):
        cts = []
        for _i in range(25):
            c = rct()
            if c not in cts:
                cts.append(c)
        ovs = {}
        for _k in range(rng.choice([0, 1, 2, 4])):
            ovs[rng.choice(cts)] = rng.choice(cts + base_cts[:8])
        cfg = new_config({"content_type_overrides": ovs})
        # one document: operation i has request body + response with media type cts[i]
        paths = {}
        for i, c in enumerate(cts):
            paths[f"/p{i}"] = {"post": {"operationId": f"op{i}", "requestBody": {"content": {c: {"schema": {"type": "object", "properties": {"a": {"type": "string"}}}}}},
                                        "responses": {"200": {"description": "d", "content": {c: {"schema": {"type": "string"}}}}}}}
        doc = impl.base_doc(paths=paths)
        with contextlib.redirect_stdout(io.StringIO()):
            data = GeneratorData.from_dict(doc, config=cfg)
        eps = {}
        if hasattr(data, "endpoint_collections_by_tag"):
            for col in data.endpoint_collections_by_tag.values():
                for e in col.endpoints:
                    eps[e.path] = e
        covs = clist(f"({cstr(k)}, {cstr(v)})" for k, v in ovs.items())
        for i, c in enumerate(cts):
            case = {"fn": "get_content_type", "content_type": c, "overrides": ovs}
            obs = utils.get_content_type(c, cfg)
            terms.append(f"opt_eqf (get_content_type {covs} {cstr(c)}) {copt_str(obs)}")
            meta.append({**case, "impl": obs, "model_term": f"get_content_type {covs} {cstr(c)}"})
            src = R._source_by_content_type(c, cfg)
            sname = None if src is None else {"response.text": "SrcText", "response.json()": "SrcJson", "response.content": "SrcBytes"}.get(src["attribute"], "?")
            terms.append(f"src_eqb (source_of {covs} {cstr(c)}) {'None' if sname is None else '(Some ' + sname + ')'}")
            meta.append({**case, "fn": "_source_by_content_type", "impl": sname, "model_term": f"source_of {covs} {cstr(c)}"})
            e = eps.get(f"/p{i}")
            if e is not None:
                if e.bodies:
                    b = e.bodies[0]
                    bt = {"data": "BData", "files": "BFiles", "content": "BContent", "json": "BJson"}[str(b.body_type.value)]
                    ob = f"(Some {{| b_sent := {cstr(b.content_type)}; b_type := {bt} |}})"
                    obj = (b.content_type, bt)
                else:
                    ob, obj = "None", None
                terms.append(f"body_eqb (body_of {covs} {cstr(c)}) {ob}")
                meta.append({**case, "fn": "body_from_data", "impl": obj, "model_term": f"body_of {covs} {cstr(c)}"})
            run.note_case(case, nontrivial=c in ovs, kind="B:content_type")
            # oracle: classification equals that of the target without any override; the body keeps the document's string
            tgt = ovs.get(c, c)
            if utils.get_content_type(tgt, new_config()) != obs:
                run.violation("oracle", {**case, "note": "get_content_type with override differs from get_content_type(target) without", "impl": obs})
            if e is not None and e.bodies and e.bodies[0].content_type != c:
                run.violation("oracle", {**case, "note": "Body.content_type is not the document's media type string", "impl": e.bodies[0].content_type})

    # ---- B4 tag selection
    tagpool = ["a", "b", "a b", "a_b", "A", "1", "", "default", "tag", "class", "x-y", "X Y", "é", "_u", "pets", "$"]
    for _ in range(40 * n):
        k = rng.randint(2, 8)
        ops, paths = [], {}
        for i in range(k):
            tags = None if rng.random() < 0.15 else [rng.choice(tagpool) for _t in range(rng.choice([0, 1, 1, 2, 2, 3, 4]))]
            fail = rng.random() < 0.15
            path = f"/p{i}" + ("/{missing}" if fail else "")
            o = {"operationId": f"op{i}", "responses": {"200": {"description": "d"}}}
            if tags is not None:
                o["tags"] = tags
            paths[path] = {rng.choice(["get", "post", "put"]): o}
            ops.append((tags or [], None if fail else i, path))
        doc = impl.base_doc(paths=paths)
        for allt in (False, True):
            cfg = new_config({"generate_all_tags": allt})
            with contextlib.redirect_stdout(io.StringIO()):
                data = GeneratorData.from_dict(doc, config=cfg)
            case = {"fn": "EndpointCollection.from_data", "generate_all_tags": allt, "ops": [(t, i) for t, i, _ in ops]}
            if not hasattr(data, "endpoint_collections_by_tag"):
                run.violation("correspondence", {**case, "impl": repr(data)[:200], "note": "document rejected"})
                continue
            idx = {p: i for _, i, p in ops}
            obs = [(str(t), [idx[e.path] for e in col.endpoints]) for t, col in data.endpoint_collections_by_tag.items()]
            cops = clist(f"({clist(cstr(t) for t in tg)}, {'None' if i is None else '(Some %d)' % i})" for tg, i, _ in ops)
            cobs = clist(f"({cstr(t)}, {clist(str(i) for i in l)})" for t, l in obs)
            terms.append(f"colls_eqb (collect (E:=N) {'true' if allt else 'false'} {cops}) {cobs}")
            meta.append({**case, "impl": obs, "model_term": f"collect (E:=N) {'true' if allt else 'false'} {cops}"})
            run.note_case(case, nontrivial=any(len(t) > 1 for t, _, _ in ops), kind="B:tags")
            # oracle: the very same Endpoint object under every tag
            if allt:
                byname = {}
                for t, col in data.endpoint_collections_by_tag.items():
                    for e in col.endpoints:
                        byname.setdefault(e.path, []).append(e)
                for p_, es in byname.items():
                    if any(x is not es[0] and x != es[0] for x in es):
                        run.violation("oracle", {**case, "note": "generate_all_tags: different endpoint values under different tags", "path": p_})

    # ---- B5 title prefix option
    tnames = ["Pet", "pet owner", "x", "1a", "my-title", "Σx", "", "A B"]
    for _ in range(150 * n):
        title = rng.choice([None, "", rng.choice(tnames), rname()])
        name = rng.choice(tnames[:5] + [rname()]) or "n"
        parent = rng.choice([None, "", rng.choice(tnames), rname()])
        b = rng.random() < 0.5
        p = rng.choice(prefixes[:4])
        if not all(nosurr(x or "") for x in (title, name, parent)):
            continue
        cfg = new_config({"field_prefix": p, "use_path_prefixes_for_title_model_names": b})
        case = {"fn": "ModelProperty.build class name", "title": title, "name": name, "parent": parent, "use_path_prefixes": b, "prefix": p}
        try:
            prop, _ = ModelProperty.build(data=oai.Schema(type="object", title=title), name=name, schemas=Schemas(), required=True, parent_name=parent,
                                          config=cfg, process_properties=False, roots=set())
            obs = (str(prop.class_info.name), str(prop.class_info.module_name))
        except Exception as e:  # noqa
            run.violation("correspondence", {**case, "impl": "raised " + repr(e)})
            continue
        t = f"class_from_string (model_class_string {'true' if b else 'false'} {copt_str(title)} {cstr(name)} {cstr(parent or '')}) {cstr(p)} []"
        terms.append(f"pair_eqf ({t}) ({cstr(obs[0])}, {cstr(obs[1])})")
        meta.append({**case, "impl": obs, "model_term": t})
        run.note_case(case, nontrivial=bool(title), kind="B:title_option")
    # ---- B6 project / package names (Project.__init__) vs Frame.project_name / package_name (the literal `-` -> `_` replacement)
    from openapi_python_client import Project
    titles = ["My API", "t", "Pet Store v2", "HTTPThing", "a.b-c_d", "", "123", "\u00e9 api", "X"]
    datas = {}
    for t_ in titles:
        with contextlib.redirect_stdout(io.StringIO()):
            datas[t_] = GeneratorData.from_dict(impl.base_doc(info={"title": t_, "version": "1"}), config=new_config())
    for _ in range((120 if tier == "quick" else 300) * n):
        t_ = rng.choice(titles)
        po = rng.choice([None, None, ""] + NAME_OVERRIDES + [S.rand_str(rng, list("abXY09-_. "), 10)])
        ko = rng.choice([None, None, None, ""] + [x.replace("-", "_") for x in NAME_OVERRIDES[:4]] + [S.rand_str(rng, list("abXY09-_. "), 8)])
        cfg = new_config({"project_name_override": po, "package_name_override": ko})
        case = {"fn": "Project names", "title": t_, "project_name_override": po, "package_name_override": ko}
        try:
            pr = Project(openapi=datas[t_], config=cfg)
            obs = (pr.project_name, pr.package_name)
        except Exception as e:  # noqa
            run.violation("correspondence", {**case, "impl": "raised " + repr(e)})
            continue
        tm = f"(project_name {copt_str(po)} {cstr(t_)}, package_name {copt_str(ko)} {copt_str(po)} {cstr(t_)})"
        terms.append(f"pair_eqf {tm} ({cstr(obs[0])}, {cstr(obs[1])})")
        meta.append({**case, "impl": obs, "model_term": tm})
        run.note_case(case, nontrivial=bool(po or ko), kind="B:project_package_names")
        # oracle, independent of model and implementation: the documented rule (the default project name is checked by the model)
        exp = documented_names({"project_name_override": po, "package_name_override": ko}, pr.project_name)
        if obs != exp:
            run.violation("oracle", {**case, "impl": obs, "documented": exp, "note": "project / package name differs from the documented rule (override verbatim; package = project with '-' replaced by '_')"})
    return terms, meta


NAME_OVERRIDES = ["AcmeBilling-SDK", "billingV2-client", "my.proj-name", "My Proj-x", "a__b-c", "UPPER-lower-MiXed9", "v2API-3d", "plain-kebab-name", "x"]

HDR_LOC = "Require Import OPC.gen.GenKinds OPC.Uni OPC.Names OPC.Codec OPC.FrameCodec.\n"


def stage_b_locations(run):
    """PropertyProtocol.validate_location of the two enum property classes (built by property_from_data with literal_enums off / on)
    vs FrameCodec.validate_location over the regenerated class facts; oracle: the two classes agree in every location"""
    from openapi_python_client.parser.properties import property_from_data, Schemas
    from openapi_python_client import schema as oai
    terms, meta = [], []
    LOC = {"query": "LQuery", "path": "LPath", "header": "LHeader", "cookie": "LCookie"}
    for sch, vt in (({"type": "string", "enum": ["a", "b"]}, "VTStr"), ({"type": "integer", "enum": [1, 2]}, "VTInt")):
        for required in (True, False):
            obs = {}
            for lit in (False, True):
                cfg = new_config({"literal_enums": lit})
                prop, _ = property_from_data(name="p", required=required, data=oai.Schema(**sch), schemas=Schemas(), parent_name="Parent", config=cfg)
                cname = type(prop).__name__
                for loc, cl in LOC.items():
                    ok = prop.validate_location(oai.ParameterLocation(loc)) is None
                    obs[(lit, loc)] = ok
                    k = f"(KLitEnum {vt} [])" if lit else f"(KEnum 0%N {vt} [])"
                    case = {"fn": "validate_location", "class": cname, "location": loc, "required": required, "literal_enums": lit}
                    if (cname == "LiteralEnumProperty") != lit:
                        run.violation("oracle", {**case, "note": "literal_enums does not select the enum property class"})
                    terms.append(f"Bool.eqb (validate_location {k} {cl} {'true' if required else 'false'}) {'true' if ok else 'false'}")
                    meta.append({**case, "impl": ok})
                    run.note_case(case, nontrivial=True, kind="B:validate_location")
            for loc in LOC:
                if obs[(False, loc)] != obs[(True, loc)]:
                    run.violation("oracle", {"fn": "validate_location", "location": loc, "required": required, "schema": sch,
                                             "note": "an enum parameter is allowed in this location under one enum representation only: literal_enums changes which operations are generated",
                                             "EnumProperty": obs[(False, loc)], "LiteralEnumProperty": obs[(True, loc)]})
    bad = run_cases(HDR_LOC, terms, shard=100)
    for i in bad:
        run.violation("correspondence", {**meta[i], "note": "validate_location differs from FrameCodec.validate_location over the regenerated _allowed_locations"})
    return len(terms), len(bad)


def stage_b_macros(run):
    """every wire macro of the two enum property templates (transform, transform_multipart, transform_header), rendered by the real
    Jinja environment and EXECUTED on each member (str and int enums, required and optional, value present / UNSET): the Enum kind
    (on a member of the class rendered from str_enum / int_enum.py.jinja) and the Literal kind (on the plain value) must produce
    the same output (FrameCodec.literal_enum_same_macros says the same macros exist; this compares what they compute)."""
    from openapi_python_client import Project
    from openapi_python_client.parser import GeneratorData
    from openapi_python_client.parser.properties import property_from_data, Schemas
    from openapi_python_client import schema as oai
    import typing
    n = 0
    class Unset:      # stand-in for the generated types.Unset
        def __bool__(self):
            return False
    UNSET = Unset()
    with contextlib.redirect_stdout(io.StringIO()):
        data = GeneratorData.from_dict(impl.base_doc(), config=new_config())
    env = Project(openapi=data, config=new_config()).env
    mods = {False: env.get_template("property_templates/enum_property.py.jinja").module, True: env.get_template("property_templates/literal_enum_property.py.jinja").module}
    for sch in ({"type": "string", "enum": ["a", "b c", "1"]}, {"type": "integer", "enum": [1, 30, -2]}):
        for required in (True, False):
            props = {}
            for lit in (False, True):
                props[lit], _ = property_from_data(name="p", required=required, data=oai.Schema(**sch), schemas=Schemas(), parent_name="Parent", config=new_config({"literal_enums": lit}))
            ns0 = {}
            tname = "int_enum.py.jinja" if sch["type"] == "integer" else "str_enum.py.jinja"
            exec(env.get_template(tname).render(enum=props[False]), ns0)
            cls = ns0[str(props[False].class_info.name)]
            for val in list(sch["enum"]) + ([UNSET] if not required else []):
                for macro in ("transform", "transform_multipart", "transform_header"):
                    outs = {}
                    for lit in (False, True):
                        v = val if (lit or val is UNSET) else cls(val)
                        try:
                            if macro == "transform_header":
                                if val is UNSET:
                                    continue
                                code = "out = " + str(getattr(mods[lit], macro)("v")).strip()
                            else:
                                code = str(getattr(mods[lit], macro)(props[lit], "v", "out"))
                            ns = {"v": v, "UNSET": UNSET, "Unset": Unset, "Union": typing.Union, "Literal": typing.Literal, "cast": typing.cast, str(props[False].class_info.name): cls if not lit else typing.Any}
                            exec(compile(code.strip() + "\n", "<macro>", "exec"), ns)
                            o = ns["out"]
                            outs[lit] = ("UNSET",) if o is UNSET else (type(o).__name__ if not isinstance(o, cls) else type(val).__name__, o.value if isinstance(o, cls) else o)
                        except Exception as e:  # noqa
                            outs[lit] = ("raised", type(e).__name__, str(e)[:80])
                    if not outs:
                        continue
                    n += 1
                    case = {"fn": "enum wire macro", "macro": macro, "schema": sch, "required": required, "value": "UNSET" if val is UNSET else val}
                    run.note_case(case, nontrivial=True, kind="B:enum_macros")
                    if outs.get(False) != outs.get(True) or outs.get(False, ("raised",))[0] == "raised":
                        run.violation("oracle", {**case, "Enum": repr(outs.get(False)), "Literal": repr(outs.get(True)),
                                                 "note": "a wire macro computes different outputs for the Enum and the Literal representation of the same enum value (literal_enums changes behaviour)"})
    return n


# ====================================================================================================== documents for stage C
REF = G.REF


def add_ops(doc, rng, label):
    """Extend a schema-only document with operations that exercise tags, media types, parameter names that need a prefix,
    titled inline objects and class names that need a prefix. Deterministic in rng."""
    d = copy.deepcopy(doc)
    Sx = d.setdefault("components", {}).setdefault("schemas", {})
    models = [n for n, s in Sx.items() if isinstance(s, dict) and s.get("type") == "object"]
    enums = [n for n, s in Sx.items() if isinstance(s, dict) and "enum" in s]
    Sx["C16Plain"] = G.obj({"id": {"type": "integer"}, "name": {"type": "string"}, "when": {"type": "string", "format": "date"}}, required=["id"])
    Sx["C16Kind"] = {"type": "string", "enum": ["small", "LARGE", "mid size"]}
    Sx["C16Level"] = {"type": "integer", "enum": [1, 2, 30]}
    Sx["C16Needy"] = G.obj({"1st": {"type": "string"}, "_private": {"type": "integer"}, "ok": {"type": "boolean"}, "kind": {"$ref": REF + "C16Kind"},
                            "levels": G.arr({"$ref": REF + "C16Level"})}, required=["1st"])
    Sx["1C16Digit"] = G.obj({"v": {"type": "integer"}})
    Sx["C16Holder"] = G.obj({"c16_plain": {"$ref": REF + "C16Plain"}, "C16Kind": {"$ref": REF + "C16Kind"}, "many": G.arr({"$ref": REF + "C16Plain"})})
    Sx["C16Top"] = G.obj({"child": G.obj({"z": {"type": "string"}, "deep": G.obj({"w": {"type": "integer"}}, title="Deep Zq Title")}, title="Kid Zq Title"),
                          "plain": G.obj({"q": {"type": "integer"}}), "described": {"type": "string", "description": "a described attribute"}},
                         title="Top Zq Title", description="A titled model.")
    pool = ["C16Plain", "C16Needy", "C16Top"] + rng.sample(models, min(len(models), 3))
    tagsets = [["alpha", "beta"], ["beta"], ["gamma", "alpha", "delta"], None, ["alpha"], ["x y", "beta"]]
    paths = {}
    ok = {"description": "ok"}
    for i, m in enumerate(pool):
        ref = {"$ref": REF + m}
        paths[f"/things{i}/{{thing_id}}"] = {
            "post": {"operationId": f"create_thing{i}", "tags": tagsets[i % len(tagsets)] or [],
                     "parameters": [{"name": "thing_id", "in": "path", "required": True, "schema": {"type": "integer"}},
                                    {"name": "kind", "in": "query", "required": True, "schema": {"$ref": REF + "C16Kind"}},
                                    {"name": "1st", "in": "query", "schema": {"type": "string"}},
                                    {"name": "_under", "in": "query", "schema": {"type": "integer"}},
                                    {"name": "labels", "in": "query", "schema": {"type": "array", "items": {"type": "string"}}},
                                    {"name": "X-Trace", "in": "header", "schema": {"type": "string"}}],
                     "requestBody": {"required": True, "content": {"application/json": {"schema": ref}}},
                     "responses": {"200": {"description": "ok", "content": {"application/json": {"schema": ref}}},
                                   "404": {"description": "no", "content": {"application/json": {"schema": G.obj({"detail": {"type": "string"}})}}}}},
            "get": {"operationId": f"list_thing{i}", "tags": tagsets[(i + 1) % len(tagsets)] or [],
                    "parameters": [{"name": "thing_id", "in": "path", "required": True, "schema": {"type": "integer"}},
                                   {"name": "level", "in": "query", "schema": {"$ref": REF + "C16Level"}}],
                    "responses": {"200": {"description": "ok", "content": {"application/json": {"schema": G.arr(ref)}}}}}}
    paths["/upload"] = {"post": {"operationId": "upload_blob", "tags": ["files", "alpha"],
                                 "requestBody": {"content": {"application/octet-stream": {"schema": {"type": "string", "format": "binary"}}}},
                                 "responses": {"200": {"description": "ok", "content": {"text/plain": {"schema": {"type": "string"}}}}}}}
    paths["/zip"] = {"post": {"operationId": "upload_zip", "tags": ["files"],
                              "requestBody": {"content": {"application/zip": {"schema": {"type": "string", "format": "binary"}}}},
                              "responses": {"200": {"description": "ok", "content": {"application/zip": {"schema": {"type": "string", "format": "binary"}}}}}}}
    paths["/custom"] = {"post": {"operationId": "post_custom", "tags": ["beta", "files"],
                                 "requestBody": {"content": {"application/x-zq-custom": {"schema": {"$ref": REF + "C16Plain"}}}},
                                 "responses": {"200": {"description": "ok", "content": {"application/x-zq-custom": {"schema": {"$ref": REF + "C16Plain"}}}}}}}
    paths["/form"] = {"post": {"operationId": "post_form", "requestBody": {"content": {"application/x-www-form-urlencoded": {"schema": G.obj({"a": {"type": "string"}, "b": {"type": "integer"}})}}},
                               "responses": {"204": {"description": "none"}}}}
    paths["/untagged"] = {"get": {"operationId": "get_untagged", "responses": {"200": {"description": "ok", "content": {"application/json": {"schema": {"$ref": REF + "C16Kind"}}}}}}}
    if rng.random() < 0.5:
        paths["/dup"] = {"get": {"operationId": "get_dup", "tags": ["beta", "beta", "be ta"], "responses": {"200": ok}}}
    d["paths"] = paths
    d["info"] = {"title": "C16 Api " + re.sub(r"[^A-Za-z0-9]", "", label), "version": "1.0.2"}
    return d


def enum_everywhere_doc():
    """string and integer enums in EVERY position: model property (required / optional / nullable / inline), array item, nested
    array, union member, additionalProperties; parameters in all four locations, required and optional, plain and as array items;
    request and response bodies (as the body itself, as array items, inside models, as map values); several tags"""
    C, L = {"$ref": REF + "EColor"}, {"$ref": REF + "ELevel"}
    Sx = {"EColor": {"type": "string", "enum": ["red", "green", "dark blue"]}, "ELevel": {"type": "integer", "enum": [1, 2, 30]},
          "EHolder": G.obj({"c": C, "oc": C, "l": L, "ol": L, "inl": {"type": "string", "enum": ["x", "y z"]}, "inli": {"type": "integer", "enum": [5, 6]},
                            "arr": G.arr(C), "oarr": G.arr(L), "deep": G.arr(G.arr(C)), "u": G.any_of(L, {"type": "string"}), "nu": G.any_of(C, G.NULL),
                            "ul": G.any_of(G.arr(C), {"type": "integer"})}, required=["c", "l", "arr", "u"]),
          "EMap": G.obj({"k": {"type": "string"}}, addl=C), "EMapL": G.obj({}, addl=G.arr(L)),
          "EForm": G.obj({"color": C, "level": L, "note": {"type": "string"}}, required=["color"])}
    J = lambda sch: {"description": "ok", "content": {"application/json": {"schema": sch}}}
    Bd = lambda sch, ct="application/json": {"required": True, "content": {ct: {"schema": sch}}}
    def Pm(name, loc, sch, req):
        return {"name": name, "in": loc, "schema": sch, "required": True if loc == "path" else req}
    paths = {}
    for loc in ("query", "header", "cookie"):
        paths[f"/in/{loc}"] = {"get": {"operationId": f"enum_in_{loc}", "tags": [loc, "params"],
                                       "parameters": [Pm("r-color", loc, C, True), Pm("o-color", loc, C, False), Pm("r-level", loc, L, True), Pm("o-level", loc, L, False),
                                                      Pm("inline", loc, {"type": "string", "enum": ["p", "q"]}, False)],
                                       "responses": {"200": J(C)}}}
        paths[f"/only/{loc}/req"] = {"get": {"operationId": f"enum_only_req_{loc}", "tags": [loc], "parameters": [Pm("color", loc, C, True)], "responses": {"200": J(L)}}}
        paths[f"/only/{loc}/opt"] = {"get": {"operationId": f"enum_only_opt_{loc}", "tags": [loc], "parameters": [Pm("level", loc, L, False)], "responses": {"200": J(G.arr(C))}}}
    paths["/in/query/list"] = {"get": {"operationId": "enum_list_in_query", "tags": ["query"], "parameters": [Pm("colors", "query", G.arr(C), True), Pm("levels", "query", G.arr(L), False)],
                                       "responses": {"200": J(G.arr(L))}}}
    paths["/in/path/{color}/{level}"] = {"get": {"operationId": "enum_in_path", "tags": ["path", "params"], "parameters": [Pm("color", "path", C, True), Pm("level", "path", L, True)],
                                                 "responses": {"200": J({"$ref": REF + "EHolder"})}}}
    paths["/mixed/{level}"] = {"put": {"operationId": "enum_mixed", "tags": ["params", "bodies"],
                                       "parameters": [Pm("level", "path", L, True), Pm("q", "query", C, False), Pm("X-Color", "header", C, True), Pm("X-Level", "header", L, False), Pm("ck", "cookie", C, False)],
                                       "requestBody": Bd({"$ref": REF + "EHolder"}), "responses": {"200": J({"$ref": REF + "EHolder"}), "404": J(C)}}}
    paths["/body/enum"] = {"post": {"operationId": "enum_body", "tags": ["bodies"], "requestBody": Bd(C), "responses": {"200": J(L)}}}
    paths["/body/list"] = {"post": {"operationId": "enum_list_body", "tags": ["bodies"], "requestBody": Bd(G.arr(L)), "responses": {"200": J(G.arr(C))}}}
    paths["/body/map"] = {"post": {"operationId": "enum_map_body", "tags": ["bodies"], "requestBody": Bd({"$ref": REF + "EMap"}), "responses": {"200": J({"$ref": REF + "EMapL"})}}}
    paths["/body/form"] = {"post": {"operationId": "enum_form_body", "tags": ["bodies"], "requestBody": Bd({"$ref": REF + "EForm"}, "application/x-www-form-urlencoded"),
                                    "responses": {"200": J({"$ref": REF + "EForm"})}}}
    # enums as direct fields, array items and union members of a MULTIPART body model (to_multipart uses transform_multipart)
    Sx["EMulti"] = G.obj({"color": C, "ocolor": C, "level": L, "olevel": L, "inl": {"type": "string", "enum": ["x", "y z"]}, "inli": {"type": "integer", "enum": [5, 6]},
                          "oinli": {"type": "integer", "enum": [7, 8]}, "arr": G.arr(C), "arrl": G.arr(L), "u": G.any_of(L, {"type": "string"}), "uc": G.any_of(C, {"type": "integer"}),
                          "note": {"type": "string"}}, required=["color", "level", "inli"])
    paths["/body/multipart"] = {"post": {"operationId": "enum_multipart_body", "tags": ["bodies"], "requestBody": Bd({"$ref": REF + "EMulti"}, "multipart/form-data"), "responses": {"200": J(C)}}}
    return {"openapi": "3.1.0", "info": {"title": "Enum Api", "version": "3.0"}, "paths": paths, "components": {"schemas": Sx}}


# instances that exercise every field (used in addition to the random ones): model name -> JSON
FULL_INSTANCES = {"EMulti": [{"color": "dark blue", "ocolor": "red", "level": 30, "olevel": 2, "inl": "y z", "inli": 6, "oinli": 7, "arr": ["red", "green"], "arrl": [1, 30],
                              "u": 2, "uc": "green", "note": "n"},
                             {"color": "red", "level": 1, "inli": 5, "u": "text", "uc": 4}]}


DESC_TEXTS = ["C:\\users\\svc\\uploads", "\\\\nas\\share\\dir", "unicode name \\N{not a name", "ends with a backslash\\", "it's \"quoted\" text",
              "tab\\there and \\x and \\u12 and \\0", "percent %s {braces} ${x}", "two\nlines \\n literal", "caf\u00e9 \u2014 dash", "back`tick` and 'single'", "\\",
              "plain words only"]


def described_doc():
    """descriptions (property, model, enum, parameter, operation, response) carrying backslashes that form invalid / unicode /
    hex escapes, a trailing backslash, quotes, braces, newlines, non-ASCII: docstrings_on_attributes moves the property
    descriptions from the class docstring into attribute docstrings and must change nothing else (both trees import and behave alike)"""
    T = DESC_TEXTS
    props = {}
    for i, t in enumerate(T):
        props[f"p{i}"] = {"type": "string", "description": t}
        props[f"q{i}"] = {"type": "integer", "description": t, "default": i}
    Sx = {"Described": G.obj(props, required=[f"p{i}" for i in range(0, len(T), 2)], description="model: " + " | ".join(T[:6])),
          "DescEnum": {"type": "string", "enum": ["a", "b"], "description": T[0]},
          "Holder": G.obj({"d": {"$ref": REF + "Described", "description": T[1]}, "e": {"$ref": REF + "DescEnum"}, "l": {"type": "array", "items": {"type": "string"}, "description": T[3]},
                           "inner": G.obj({"z": {"type": "string", "description": T[2]}}, description=T[5])}, description=T[3])}
    params = [{"name": f"a{i}", "in": "query", "schema": {"type": "string"}, "description": t} for i, t in enumerate(T)]
    paths = {"/d": {"post": {"operationId": "post_described", "tags": ["desc"], "summary": T[0], "description": T[1] + "\n" + T[3], "parameters": params,
                             "requestBody": {"content": {"application/json": {"schema": {"$ref": REF + "Described"}}}},
                             "responses": {"200": {"description": T[3], "content": {"application/json": {"schema": {"$ref": REF + "Holder"}}}}}}}}
    return {"openapi": "3.1.0", "info": {"title": "Described Api", "version": "1", "description": T[0]}, "paths": paths, "components": {"schemas": Sx}}


def plain_doc(rng):
    """a document with no enum, no title, one tag per operation, only standard media types, no name that needs a prefix:
    almost every option must leave its tree byte-identical"""
    Sx = {"Alpha": G.obj({"id": {"type": "integer"}, "s": {"type": "string"}, "b": {"$ref": REF + "Beta"}}, required=["id"]),
          "Beta": G.obj({"when": {"type": "string", "format": "date-time"}, "tags": G.arr({"type": "string"})})}
    paths = {"/a": {"get": {"operationId": "get_a", "tags": ["one"], "parameters": [{"name": "q", "in": "query", "schema": {"type": "string"}}],
                            "responses": {"200": {"description": "ok", "content": {"application/json": {"schema": {"$ref": REF + "Alpha"}}}}}},
                    "post": {"operationId": "post_a", "tags": ["two"], "requestBody": {"content": {"application/json": {"schema": {"$ref": REF + "Alpha"}}}},
                             "responses": {"200": {"description": "ok", "content": {"application/json": {"schema": {"$ref": REF + "Beta"}}}}}}}}
    return {"openapi": "3.1.0", "info": {"title": "Plain Api", "version": "2.0"}, "paths": paths, "components": {"schemas": Sx}}


# ====================================================================================================== generation + observation
class Tree:
    """one generation: files (relative to the output directory), names as the parser sees them, kept on disk until close()"""
    def __init__(self, doc, cfg, meta="none", encoding="utf-8", custom=None):
        from openapi_python_client import generate
        from openapi_python_client.parser import GeneratorData
        self.root = Path(tempfile.mkdtemp(prefix="opc_c16_"))
        p = self.root / "doc.json"
        p.write_text(json.dumps(doc), encoding="utf-8")
        self.outroot = self.root / "o"
        self.outroot.mkdir()
        self.out = self.outroot / "out"
        self.meta, self.encoding = meta, encoding
        self.config = new_config(cfg, meta, encoding, str(p), self.out)
        self.exc = None
        self.errors = []
        cust = None
        if custom:
            cust = self.root / "custom_templates"
            cust.mkdir()
        try:
            with contextlib.redirect_stdout(io.StringIO()):
                self.errors = list(generate(config=self.config, custom_template_path=cust))
        except BaseException as e:  # noqa
            self.exc = e
        self.files = {}
        if self.out.exists():
            for f in sorted(self.out.rglob("*")):
                if f.is_file() and "__pycache__" not in f.parts:
                    self.files[str(f.relative_to(self.out))] = f.read_bytes()
        self.outside = sorted(str(f.relative_to(self.root)) for f in self.root.rglob("*") if f.is_file() and self.out not in f.parents and f != p)
        with contextlib.redirect_stdout(io.StringIO()):
            self.data = GeneratorData.from_dict(doc, config=self.config)
        from openapi_python_client import Project
        self.ok = hasattr(self.data, "models")
        self.pkg = ""
        if self.ok:
            pr = Project(openapi=self.data, config=self.config)
            self.pkg, self.project = pr.package_name, pr.project_name
            self.pp = "" if meta == "none" else self.pkg + "/"
            # GeneratorData.models / .enums are one-shot iterators: materialise them
            self.data.models = list(self.data.models)
            self.data.enums = list(self.data.enums)
            self.classes = [(str(m.class_info.name), str(m.class_info.module_name)) for m in self.data.models] + \
                           [(str(e.class_info.name), str(e.class_info.module_name)) for e in self.data.enums]
            self.endpoints = []
            seen = set()
            for t, col in self.data.endpoint_collections_by_tag.items():
                for e in col.endpoints:
                    self.endpoints.append((str(t), e))

    def text(self, rel):
        return self.files[rel].decode(self.encoding)

    def pkg_files(self):
        return {k[len(self.pp):]: v for k, v in self.files.items() if k.startswith(self.pp)} if self.pp else dict(self.files)

    def pkg_dir(self):
        return self.out / self.pkg if self.pp else self.out

    def diag(self):
        return sorted((str(getattr(e.level, "name", e.level)), str(e.header), str(e.detail)) for e in self.errors)

    def close(self):
        shutil.rmtree(self.root, ignore_errors=True)


def tok_replace(text, pairs):
    """apply token renamings (new -> old); pairs are (regex, replacement)"""
    for rx, rep in pairs:
        text = rx.sub(rep, text)
    return text


def word_pairs(mapping):
    """{new: old} -> [(regex matching new as a whole word, old)], longest first"""
    return [(re.compile(r"(?<![A-Za-z0-9_])" + re.escape(n) + r"(?![A-Za-z0-9_])"), o) for n, o in sorted(mapping.items(), key=lambda kv: -len(kv[0])) if n != o]


def norm_unions(text):
    """sort the members of every Union[...] (response_type() emits them sorted by type string, so a renaming reorders them)"""
    out, i = [], 0
    while True:
        j = text.find("Union[", i)
        if j < 0:
            out.append(text[i:])
            return "".join(out)
        out.append(text[i:j + 6])
        k, depth, parts, cur = j + 6, 1, [], []
        while k < len(text) and depth:
            c = text[k]
            if c == "[":
                depth += 1
            elif c == "]":
                depth -= 1
                if depth == 0:
                    break
            if c == "," and depth == 1:
                parts.append("".join(cur).strip()); cur = []
            else:
                cur.append(c)
            k += 1
        parts.append("".join(cur).strip())
        out.append(", ".join(sorted(norm_unions(p) for p in parts)))
        i = k


def first_diff(a, b, mode="bytes"):
    """first path at which two {path: text} maps differ (None = equal). mode lines: files compared as multisets of lines
    (renaming moves lines inside the alphabetically sorted import blocks)."""
    for k in sorted(set(a) | set(b)):
        if k not in a or k not in b:
            return k, "only in " + ("variant" if k in b else "base")
        if a[k] == b[k]:
            continue
        if mode == "lines" and sorted(norm_unions(a[k]).split("\n")) == sorted(norm_unions(b[k]).split("\n")):
            continue
        la, lb = a[k].split("\n"), b[k].split("\n")
        if mode == "lines":
            import collections
            ca, cb = collections.Counter(la), collections.Counter(lb)
            return k, "base-only lines %r / variant-only lines %r" % (list((ca - cb).elements())[:2], list((cb - ca).elements())[:2])
        for i, (x, y) in enumerate(zip(la, lb)):
            if x != y:
                return k, "line %d: %r / %r" % (i + 1, x[:120], y[:120])
        return k, "length %d / %d lines" % (len(la), len(lb))
    return None


def texts(tree, files=None):
    files = tree.files if files is None else files
    return {k: v.decode(tree.encoding) for k, v in files.items()}


def quiet_parse(src):
    import warnings
    with warnings.catch_warnings():
        warnings.simplefilter("ignore")
        return ast.parse(src)


def strip_docstrings(src):
    """ast dump of a module with every string-expression statement removed (docstrings of modules, classes, functions, attributes)"""
    t = quiet_parse(src)
    for node in ast.walk(t):
        for fld in ("body", "orelse", "finalbody"):
            b = getattr(node, fld, None)
            if isinstance(b, list):
                nb = [s for s in b if not (isinstance(s, ast.Expr) and isinstance(s.value, ast.Constant) and isinstance(s.value.value, str))]
                if len(nb) != len(b):
                    setattr(node, fld, nb or [ast.Pass()])
    return ast.dump(t)


# ---------------------------------------------------------------------------------------- wire behaviour
def wire_plan(tree, instances):
    """operations for client_runner built from THIS tree's own names; positional w.r.t. the parser's model / endpoint order so
    that plans of two generations of the same document correspond. instances: per model index a list of JSON instances."""
    ops, keys = [{"op": "import_all"}], [("import", 0, 0, None)]      # every module of the package imports (or fails) alike in both clients
    models = list(tree.data.models)
    for mi, m in enumerate(models):
        for ji, j in enumerate(instances.get(mi, [])):
            ops.append({"op": "roundtrip", "cls": str(m.class_info.name), "data": absprop.to_runner_json(j)})
            keys.append(("rt", mi, ji, None))
    done = set()
    for tag, e in tree.endpoints:
        key = (e.method, e.path)
        if key in done:
            continue
        done.add(key)
        kw = {}
        okp = True
        multi_extra = []
        for plist in (e.path_parameters, e.query_parameters, e.header_parameters, e.cookie_parameters):
            for p in plist:
                v = param_value(p)
                if v is None:
                    if p.required:
                        okp = False
                    continue
                kw[str(p.python_name)] = v
        body_ct = None
        if e.bodies:
            b = e.bodies[0]
            bt = str(b.body_type.value)
            pn = type(b.prop).__name__
            if bt in ("json", "data") and pn == "ModelProperty":
                mi = next((i for i, m in enumerate(models) if m.class_info.name == b.prop.class_info.name), None)
                inst = (instances.get(mi) or [None])[0] if mi is not None else None
                if inst is None:
                    okp = False
                else:
                    kw["body"] = {"@model": [str(b.prop.class_info.name), absprop.to_runner_json(inst)]}
            elif bt == "json" and pn != "ModelProperty" and param_value(b.prop) is not None:
                kw["body"] = param_value(b.prop)
            elif bt == "files" and pn == "ModelProperty":
                mi = next((i for i, m in enumerate(models) if m.class_info.name == b.prop.class_info.name), None)
                inst = (instances.get(mi) or [None])[0] if mi is not None else None
                if inst is None:
                    okp = False
                else:
                    kw["body"] = {"@model": [str(b.prop.class_info.name), absprop.to_runner_json(inst)]}
                    multi_extra = [x for x in (instances.get(mi) or [])[1:3]]
            elif bt == "content":
                kw["body"] = {"@file": "00ff10"}
            else:
                okp = False
            body_ct = b.content_type
        if not okp:
            continue
        rsp = {"status": 200, "json": {"id": 3, "name": "n"}}
        for r in e.responses:
            if int(r.status_code) == 200:
                at = r.source["attribute"]
                pn = type(r.prop).__name__
                if at == "response.json()":
                    if pn == "ModelProperty":
                        mi = next((i for i, m in enumerate(models) if m.class_info.name == r.prop.class_info.name), None)
                        inst = (instances.get(mi) or [None])[0] if mi is not None else None
                        rsp = {"status": 200, "json": absprop.to_runner_json(inst if inst is not None else {})}
                    elif pn == "ListProperty" and type(r.prop.inner_property).__name__ == "ModelProperty":
                        mi = next((i for i, m in enumerate(models) if m.class_info.name == r.prop.inner_property.class_info.name), None)
                        rsp = {"status": 200, "json": [absprop.to_runner_json(x) for x in (instances.get(mi) or [])[:2]]}
                    elif pn in ("EnumProperty", "LiteralEnumProperty"):
                        rsp = {"status": 200, "json": enum_values(r.prop)[-1]}
                    elif pn == "ListProperty" and type(r.prop.inner_property).__name__ in ("EnumProperty", "LiteralEnumProperty"):
                        rsp = {"status": 200, "json": enum_values(r.prop.inner_property)[:2]}
                    else:
                        rsp = {"status": 200, "json": "x"}
                elif at == "response.text":
                    rsp = {"status": 200, "text": "hello"}
                elif at == "response.content":
                    rsp = {"status": 200, "content_hex": "0a0b0c"}
        from openapi_python_client.utils import PythonIdentifier
        mod = "api.%s.%s" % (tag, PythonIdentifier(e.name, tree.config.field_prefix))
        ops.append({"op": "call", "module": mod, "variant": "sync_detailed", "kwargs": kw, "response": rsp})
        keys.append(("call", e.method, e.path, body_ct))
        for xi, x in enumerate(multi_extra):      # further instances through the multipart encoder
            ops.append({"op": "call", "module": mod, "variant": "sync_detailed", "kwargs": {**kw, "body": {"@model": [kw["body"]["@model"][0], absprop.to_runner_json(x)]}}, "response": rsp})
            keys.append(("call", e.method, e.path + "#%d" % (xi + 1), body_ct))
    return ops, keys


def enum_values(p):
    n = type(p).__name__
    return sorted(p.values.values(), key=str) if n == "EnumProperty" else sorted(p.values, key=str)


def param_value(p, pick=0):
    """argument marker for client_runner from the tree's OWN property object; the value is a function of the property's kind and
    declared values only, so the plans of two generations of one document pass the same wire values"""
    n = type(p).__name__
    if n == "IntProperty":
        return 7
    if n == "StringProperty":
        return "s v"
    if n == "BooleanProperty":
        return True
    if n == "FloatProperty":
        return {"@f": "1.5"}
    if n == "DateProperty":
        return {"@date": "2020-01-02"}
    if n == "DateTimeProperty":
        return {"@datetime": "2020-01-02T03:04:05"}
    if n == "UuidProperty":
        return {"@uuid": "12345678-1234-5678-1234-567812345678"}
    if n == "EnumProperty":
        vs = enum_values(p)
        return {"@enum": [str(p.class_info.name), vs[pick % len(vs)]]}
    if n == "LiteralEnumProperty":
        vs = enum_values(p)
        return vs[pick % len(vs)]
    if n == "ListProperty":
        inner = [param_value(p.inner_property, i) for i in (0, 1)]
        return None if any(x is None for x in inner) else inner
    if n == "UnionProperty":
        for m in p.inner_properties:       # first member with a value; enum members first so that the option under test is exercised
            if type(m).__name__ in ("EnumProperty", "LiteralEnumProperty"):
                return param_value(m, 1)
        for m in p.inner_properties:
            v = param_value(m)
            if v is not None and type(m).__name__ != "NoneProperty":
                return v
    return None


def norm_obs(x, enum_plain=False):
    """normalise a client_runner result for comparison: drop tracebacks; optionally Enum members -> their plain value"""
    if isinstance(x, dict):
        if enum_plain and x.get("t") == "enum":
            return {"t": "j", "v": x.get("v")}
        if enum_plain and set(x) >= {"type", "msg"} and isinstance(x.get("msg"), str):
            return {"type": x["type"]}      # exception texts name the value's class (ELevel / int): only the exception type is compared
        return {k: norm_obs(v, enum_plain) for k, v in x.items() if k not in ("tb",) and not (enum_plain and k == "parsed_cls")}
    if isinstance(x, list):
        return [norm_obs(v, enum_plain) for v in x]
    return x


def boolnum(o):
    if isinstance(o, bool):
        return int(o)
    if isinstance(o, dict):
        return {k: boolnum(v) for k, v in o.items()}
    if isinstance(o, list):
        return [boolnum(v) for v in o]
    return o


def alias_norm(o):
    """a call observation with JSON bodies decoded, Content-Length dropped and bools read as ints (used only to recognise the
    numeric_alias finding after a round trip of the same instance has already shown it)"""
    def body(hexs):
        try:
            return boolnum(json.loads(bytes.fromhex(hexs).decode("utf-8")))
        except Exception:
            return hexs
    o = json.loads(json.dumps(o))
    for rq in o.get("requests", []) or []:
        rq["content_hex"] = body(rq.get("content_hex", ""))
        rq["headers"] = [h for h in rq.get("headers", []) if h[0].lower() != "content-length"]
    r = o.get("result")
    if isinstance(r, dict):
        if "content_hex" in r:
            r["content_hex"] = body(r["content_hex"])
        r["headers"] = [h for h in r.get("headers", []) if h[0].lower() != "content-length"]
    return boolnum(o)


def has_int_enum(ab, kind, seen):
    t = kind[0]
    if t == "enum":
        return kind[2] == "VTInt"
    if t == "litenum":
        return kind[1] == "VTInt"
    if t == "list":
        return has_int_enum(ab, kind[1], seen)
    if t == "union":
        return any(has_int_enum(ab, m, seen) for m in kind[1])
    if t == "model":
        if kind[1] in seen or kind[1] not in ab.cls_id or ab.cls_id[kind[1]] >= 1000:
            return False
        seen.add(kind[1])
        m = ab.models[ab.cls_id[kind[1]]]
        ad = ab.class_addl(m)
        return any(has_int_enum(ab, k, seen) for _, _, k in ab.class_props(m)) or (ad is not None and has_int_enum(ab, ad, seen))
    return False


def fix_boundary(r):
    """multipart requests: replace httpx's random boundary by a fixed token in the Content-Type header and the body, so that the
    parts (names, per-part headers, bytes, order) of two clients can be compared"""
    for rq in (r.get("requests") or []) if isinstance(r, dict) else []:
        for h in rq.get("headers", []):
            m = re.match(r"multipart/form-data; boundary=(\S+)$", h[1]) if h[0].lower() == "content-type" else None
            if m:
                b = m.group(1).encode()
                body = bytes.fromhex(rq.get("content_hex", "")).replace(b, b"BOUNDARY")
                rq["content_hex"] = body.hex()
                rq["multipart_text"] = body.decode("utf-8", "replace")[:4000]
                h[1] = "multipart/form-data; boundary=BOUNDARY"
    return r


def run_wire(tree, instances):
    ops, keys = wire_plan(tree, instances)
    res = impl.run_client(tree.pkg_dir(), ops, timeout=300)
    if isinstance(res, dict):
        return keys, {"fatal": res.get("fatal", "")[-600:]}
    return keys, [fix_boundary(r) for r in res]


def make_instances(tree, seed, per=2):
    ab = absprop.Abs(tree.data)
    inst = G.Inst(ab, random.Random(seed), maxdepth=3)
    out = {}
    for mi, m in enumerate(ab.models):
        try:
            out[mi] = [inst.model_instance(str(m.class_info.name), 0, canonical=True) for _ in range(per)]
        except Exception:
            out[mi] = []
        out[mi] = [copy.deepcopy(x) for x in FULL_INSTANCES.get(str(m.class_info.name), [])] + out[mi]
    return out


# ====================================================================================================== options and their relations
NEWPFX = "zqx_"
PROJ_OV, PKG_OV = "ZqBilling-SDKv2-x", "ZqPkgName2_X"     # upper case, camelCase, digit after letters: survive verbatim / up to `-` -> `_`


def documented_names(cfg, default_project):
    """README: project name = project_name_override (else the default); package name = package_name_override, else the project name
    with every `-` replaced by `_` (nothing else). Computed WITHOUT the implementation's Project."""
    project = cfg.get("project_name_override") or default_project
    return project, (cfg.get("package_name_override") or project.replace("-", "_"))

def opt_table(base_tree):
    """option name -> dict(cfg=..., meta=..., encoding=..., custom=..., doc=fn) describing the toggled setting"""
    cls = base_tree.classes
    # override two classes: a model that others reference, and an enum
    ov = {}
    picks = [c for c in cls if c[0] in ("C16Plain", "C16Kind", "Alpha")] or cls[:1]
    for i, (cn, mn) in enumerate(picks[:2]):
        # same length as the old class name when possible: class names occur inside word-wrapped docstrings
        newc = f"RenamedZq{i}Cls" if len(cn) < 7 or len(cn) > 30 else (f"Zq{i}Cls" + "x" * len(cn))[:len(cn)]
        ov[cn] = {"class_name": newc, "module_name": f"renamed_zq{i}_mod"}
    return {
        "class_overrides": {"cfg": {"class_overrides": ov}},
        "project_name_override": {"cfg": {"project_name_override": PROJ_OV}},
        "package_name_override": {"cfg": {"package_name_override": PKG_OV}},
        "package_version_override": {"cfg": {"package_version_override": "9.8.7.dev77"}},
        "field_prefix": {"cfg": {"field_prefix": NEWPFX}},
        "use_path_prefixes_for_title_model_names": {"cfg": {"use_path_prefixes_for_title_model_names": False}},
        "literal_enums": {"cfg": {"literal_enums": True}},
        "docstrings_on_attributes": {"cfg": {"docstrings_on_attributes": True}},
        "generate_all_tags": {"cfg": {"generate_all_tags": True}},
        "content_type_overrides": {"cfg": {"content_type_overrides": {"application/zip": "application/octet-stream", "application/x-zq-custom": "application/json"}}},
        "post_hooks": {"cfg": {"post_hooks": ["echo zq-hook-ran", "touch ZQ_HOOK_MARK"]}},
        "meta": {"meta": True},
        "file_encoding": {"encoding": "utf-16"},
        "custom_template_path": {"custom": True},
        "http_timeout": {"cfg": {"http_timeout": 77}},
    }


def merged(settings):
    cfg, meta, enc, custom = {}, None, "utf-8", False
    for s in settings:
        cfg.update(s.get("cfg", {}))
        if s.get("meta"):
            meta = s["meta"]
        if s.get("encoding"):
            enc = s["encoding"]
        if s.get("custom"):
            custom = True
    return cfg, meta, enc, custom


def positional_map(base, var):
    """class / module renaming between two generations of the same document, by the parser's model order"""
    if len(base.classes) != len(var.classes):
        return None
    cm, mm = {}, {}
    for (bc, bm), (vc, vm) in zip(base.classes, var.classes):
        if cm.setdefault(vc, bc) != bc or mm.setdefault(vm, bm) != bm:
            return None
    if len(set(cm.values())) != len(cm) or len(set(mm.values())) != len(mm):
        return None
    return cm, mm


def map_tree(var, pairs, path_pairs=None):
    out = {}
    for k, v in texts(var).items():
        out[tok_replace(k, path_pairs if path_pairs is not None else pairs)] = tok_replace(v, pairs)
    return out


def has_feature(doc, what):
    txt = json.dumps(doc)
    if what == "enum":
        return '"enum"' in txt
    if what == "title":
        return '"title": "' in txt.split('"paths"')[-1] or "Zq Title" in txt
    if what == "multitag":
        return any(len(o.get("tags") or []) > 1 for pi in doc.get("paths", {}).values() for o in pi.values() if isinstance(o, dict))
    if what == "ctype":
        return "application/zip" in txt or "application/x-zq-custom" in txt
    if what == "description":
        return '"description"' in json.dumps(doc.get("components", {}))
    return True


def relation(opt, doc, base, var, ctx):
    """Check the documented relation of option `opt` between generation `base` (option off) and `var` (option on), everything
    else equal. Returns list of (note, detail) failures. ctx: dict(with instances, wire cache, flags)."""
    fails = []
    def fail(note, detail=None, finding=None):
        fails.append((note, detail, finding))
    if base.exc or var.exc or not base.ok or not var.ok:
        if repr(base.exc) != repr(var.exc) or base.ok != var.ok:
            fail("generation outcome differs", {"base": repr(base.exc), "variant": repr(var.exc)})
        return fails
    B, V = texts(base), texts(var)
    same_tree = lambda mode="bytes": first_diff(B, V, mode)
    wire = None     # (pairs for mapping the variant's observation back, enum_plain)
    if opt in ("http_timeout", "custom_template_path"):
        d = same_tree()
        if d:
            fail("option must not change any file", d)
    elif opt == "post_hooks":
        Vx = {k: v for k, v in V.items() if k != "ZQ_HOOK_MARK"}
        d = first_diff(B, Vx)
        if d:
            fail("post_hooks changed a generated file", d)
        if "ZQ_HOOK_MARK" not in V:
            fail("post hook did not run in the project directory")
        if var.outside:
            fail("post hook wrote outside the project directory", var.outside[:3])
    elif opt == "file_encoding":
        # both decoded with their own encoding: same text
        d = same_tree()
        if d:
            fail("file_encoding changed the decoded text of a file", d)
        for k, raw in var.files.items():
            if raw and var.encoding == "utf-16" and raw[:2] not in (b"\xff\xfe", b"\xfe\xff"):
                fail("file not written in the requested encoding", k)
                break
    elif opt == "package_version_override":
        allowed = {"pyproject.toml", "setup.py"}
        bver = doc["info"]["version"]
        Vm = {k: (v.replace("9.8.7.dev77", bver) if k in allowed else v) for k, v in V.items()}
        d = first_diff(B, Vm)
        if d:
            fail("package_version_override changed something other than the version in pyproject.toml / setup.py", d)
        if var.meta != "none" and not any("9.8.7.dev77" in V.get(k, "") for k in allowed):
            fail("package_version_override has no effect on the metadata")
    elif opt in ("project_name_override", "package_name_override"):
        mp = {}
        if var.project != base.project:
            mp[var.project] = base.project
        if var.pkg != base.pkg:
            mp[var.pkg] = base.pkg
        allowed = {"pyproject.toml", "setup.py", "README.md"}
        pairs = word_pairs(mp)
        Vm = {}
        for k, v in V.items():
            k2 = tok_replace(k, pairs)
            Vm[k2] = tok_replace(v, pairs) if k2 in allowed else v
        d = first_diff(B, Vm)
        if d:
            fail(opt + " changed something other than the project/package name in the metadata files and the package directory name", d)
        vcfg = {"project_name_override": var.config.project_name_override, "package_name_override": var.config.package_name_override}
        exp_project, exp_pkg = documented_names(vcfg, ctx["default_project"])
        if var.project != exp_project or var.pkg != exp_pkg:
            fail("project / package name is not the documented one (override verbatim; package = project with '-' -> '_')",
                 {"expected": [exp_project, exp_pkg], "got": [var.project, var.pkg]})
        if var.meta != "none":
            stray = [k for k in V if "/" in k and not k.startswith(exp_pkg + "/")]
            if stray:
                fail("package directory is not named after the documented package name", {"expected": exp_pkg, "found": stray[0]})
            for fn, pat in (("pyproject.toml", 'name = "%s"' % exp_project), ("setup.py", 'name="%s"' % exp_project), ("README.md", "# " + exp_project),
                            ("README.md", "from %s import Client" % exp_pkg)):
                if fn == "pyproject.toml" and var.meta == "setup":
                    continue        # the setup flavour's pyproject.toml only configures ruff
                if fn in V and pat not in V[fn]:
                    fail("metadata file does not carry the documented name", {"file": fn, "expected_text": pat})
            if var.meta == "poetry" and '{include = "%s"}' % exp_pkg not in V.get("pyproject.toml", ""):
                fail("pyproject.toml include entry is not the documented package name", {"expected": exp_pkg})
        wire = ([], False)
    elif opt == "meta":
        # package subtree identical across flavours
        own = ("py.typed", "ZQ_HOOK_MARK")     # the marker, and the file a post hook of the context drops into the project directory
        d = first_diff({k: v.decode(base.encoding) for k, v in base.pkg_files().items() if k not in own},
                       {k: v.decode(var.encoding) for k, v in var.pkg_files().items() if k not in own})
        if d:
            fail("package subtree differs between metadata flavours %s / %s" % (base.meta, var.meta), d)
    elif opt == "generate_all_tags":
        api = var.pp + "api/"
        d = first_diff({k: v for k, v in B.items() if not k.startswith(api)}, {k: v for k, v in V.items() if not k.startswith(api)})
        if d:
            fail("generate_all_tags changed a file outside api/", d)
        # every base module is present unchanged (first tag), the copies under the other tags are byte-identical
        for k, v in B.items():
            if k.startswith(api) and not k.endswith("__init__.py"):
                if V.get(k) != v:
                    fail("first-tag module differs from the option-off module", k)
                    break
        bymod = {}
        for t, e in var.endpoints:
            bymod.setdefault((e.method, e.path), []).append(t)
        from openapi_python_client.utils import PythonIdentifier
        ep = {(e.method, e.path): e for _, e in var.endpoints}
        for key, tags in bymod.items():
            fn = str(PythonIdentifier(ep[key].name, var.config.field_prefix)) + ".py"
            vs = {V.get(api + t + "/" + fn) for t in tags}
            if len(vs) != 1 or None in vs:
                fail("modules of one endpoint under its tags are not byte-identical", {"endpoint": key, "tags": tags})
                break
        if not has_feature(doc, "multitag"):
            d = same_tree()
            if d:
                fail("generate_all_tags changed the tree of a document whose operations have at most one tag", d)
        exp = set()
        for pi in doc.get("paths", {}).values():
            for o in pi.values():
                if isinstance(o, dict):
                    for t in (o.get("tags") or ["default"]):
                        exp.add(str(PythonIdentifier(t, "tag")))
        got = {k[len(api):].split("/")[0] for k in V if k.startswith(api) and "/" in k[len(api):]}
        if not ctx.get("has_errors") and got != exp:
            fail("generate_all_tags: tag directories are not exactly the tags of the document", {"expected": sorted(exp), "got": sorted(got)})
    elif opt == "docstrings_on_attributes":
        allowed_prefix = (var.pp + "models/", var.pp + "client.py")
        for k in sorted(set(B) | set(V)):
            if B.get(k) == V.get(k):
                continue
            if k not in B or k not in V or not k.startswith(allowed_prefix) or not k.endswith(".py"):
                fail("docstrings_on_attributes changed a file other than a model module / client.py", k)
                break
            try:
                if strip_docstrings(B[k]) != strip_docstrings(V[k]):
                    fail("docstrings_on_attributes changed more than docstrings", k)
                    break
            except SyntaxError as e:
                if not ctx.get("base_syntax_bad", {}).get(k):
                    fail("file does not parse", (k, str(e)))
                    break
        wire = ([], False)
    elif opt == "literal_enums":
        if not has_feature(doc, "enum"):
            d = same_tree()
            if d:
                fail("literal_enums changed the tree of a document without enums", d)
        else:
            untouched = [k for k in B if not k.startswith((var.pp + "models/", var.pp + "api/"))]
            for k in untouched:
                if B[k] != V.get(k):
                    fail("literal_enums changed a file outside models/ and api/", k)
                    break
        # (a) the option must not change WHICH operations are generated, nor the diagnostics (FrameCodec.literal_enum_same_operations)
        api = var.pp + "api/"
        mb, mv = sorted(k for k in B if k.startswith(api)), sorted(k for k in V if k.startswith(api))
        if mb != mv:
            fail("literal_enums changed the set of generated api modules", {"only_off": [k for k in mb if k not in mv][:5], "only_on": [k for k in mv if k not in mb][:5],
                                                                             "diagnostics_on": [d_ for d_ in var.diag() if d_ not in base.diag()][:3]})
        db, dv = sorted((l, h) for l, h, _ in base.diag()), sorted((l, h) for l, h, _ in var.diag())
        if db != dv:
            fail("literal_enums changed the diagnostics", {"only_off": [x for x in db if x not in dv][:3], "only_on": [x for x in dv if x not in db][:3],
                                                            "detail_on": [d_ for d_ in var.diag() if (d_[0], d_[1]) not in db][:2]})
        eb = [(t, e.method, e.path, [(str(p.name), loc) for loc, ps in (("path", e.path_parameters), ("query", e.query_parameters), ("header", e.header_parameters), ("cookie", e.cookie_parameters)) for p in ps],
               [str(b_.body_type.value) for b_ in e.bodies], [int(r_.status_code) for r_ in e.responses]) for t, e in base.endpoints]
        ev = [(t, e.method, e.path, [(str(p.name), loc) for loc, ps in (("path", e.path_parameters), ("query", e.query_parameters), ("header", e.header_parameters), ("cookie", e.cookie_parameters)) for p in ps],
               [str(b_.body_type.value) for b_ in e.bodies], [int(r_.status_code) for r_ in e.responses]) for t, e in var.endpoints]
        if eb != ev:
            i = next((i for i, (x, y) in enumerate(zip(eb, ev)) if x != y), min(len(eb), len(ev)))
            fail("literal_enums changed the parsed operations (tag, method, path, parameters by location, bodies, statuses)",
                 {"off": eb[i] if i < len(eb) else None, "on": ev[i] if i < len(ev) else None})
        wire = ([], True)
    elif opt == "content_type_overrides":
        if not has_feature(doc, "ctype"):
            d = same_tree()
            if d:
                fail("content_type_overrides changed the tree of a document that does not use the overridden media types", d)
        else:
            # equal to generating the document in which the media types are literally replaced by their targets, up to that string
            tgt = ctx["ctype_target_tree"]
            T = texts(tgt)
            Vm = {k: v.replace("application/zip", "application/octet-stream").replace("application/x-zq-custom", "application/json") for k, v in V.items()}
            d = first_diff(T, Vm)
            if d:
                fail("overridden media type is not handled exactly like its target", d)
        wire = "ctype"
    elif opt in ("class_overrides", "use_path_prefixes_for_title_model_names", "field_prefix"):
        pm = positional_map(base, var)
        if pm is None:
            fail(opt + ": not a bijective renaming of the parser's classes", {"base": base.classes[:6], "variant": var.classes[:6]})
            return fails
        cm, mm = pm
        changed = {v: b for v, b in cm.items() if v != b}
        if opt == "class_overrides":
            req = ctx["overrides"]
            for old, o in req.items():
                if o["class_name"] not in cm or cm[o["class_name"]] != old:
                    fail("class override not applied", {old: o})
            # only the named classes and classes named after them (inline children are minted from the parent's class name) change
            for v, b in changed.items():
                if not any(b.startswith(old) for old in req):
                    fail("class_overrides renamed a class it does not name", {b: v})
        if opt == "use_path_prefixes_for_title_model_names" and not has_feature(doc, "title"):
            d = same_tree()
            if d:
                fail("title option changed the tree of a document without titles", d)
        # names the templates derive from a class name: literal enums get check_<snake(Class)> and <SNAKE(Class)>_VALUES
        from openapi_python_client.utils import snake_case
        dm = {}
        for vcls, bcls in cm.items():
            if vcls != bcls:
                dm["check_" + snake_case(vcls)] = "check_" + snake_case(bcls)
                dm[snake_case(vcls).upper() + "_VALUES"] = snake_case(bcls).upper() + "_VALUES"
        pairs = word_pairs({**cm, **mm, **dm})
        if opt == "field_prefix":
            old = base.config.field_prefix
            pairs = [(re.compile(r"(?<![A-Za-z0-9_])" + re.escape(NEWPFX)), old),
                     (re.compile(r"(?<![A-Za-z0-9_])" + re.escape(NEWPFX.rstrip("_").capitalize()) + r"(?=[0-9A-Z_])"), old.rstrip("_").capitalize())]
        Vm = map_tree(var, pairs)
        d = first_diff(B, Vm, "lines")
        if d:
            fail(opt + ": after undoing the renaming a file still differs", d)
        if opt == "field_prefix":
            # names that do not need a prefix are untouched: no new-prefix token may sit where the base has no old-prefix token
            # (implied by the comparison above: a new-prefix token where the base has an unprefixed name maps to a different line)
            pass
        wire = (pairs, False)
    else:
        fail("no relation defined for option " + opt)
    # ---- wire behaviour
    if wire is not None and ctx.get("wire", True) and not fails:
        inst = ctx["instances"]
        kb, rb = ctx["wire_cache"](base)
        kv, rv = ctx["wire_cache"](var)
        if isinstance(rb, dict) or isinstance(rv, dict):
            if isinstance(rb, dict) != isinstance(rv, dict):
                fail("one of the two clients cannot be executed", {"base": rb if isinstance(rb, dict) else "ok", "variant": rv if isinstance(rv, dict) else "ok"})
        elif wire == "ctype":
            # calls that exist in both: identical; calls only in the variant (the overridden media types): Content-Type is the original
            mb = {k: r for k, r in zip(kb, rb)}
            for k, r in zip(kv, rv):
                if k[0] == "import":
                    if (mb[k].get("failed") or {}) != (r.get("failed") or {}):      # the variant has more modules (the newly supported operations)
                        fail("a module fails to import under one setting only", {"off": mb[k].get("failed"), "on": r.get("failed")})
                        break
                elif k in mb:
                    if norm_obs(mb[k]) != norm_obs(r):
                        fail("wire behaviour of an unrelated operation changed", {"op": k})
                        break
                elif k[0] == "call" and k[3] in ("application/zip", "application/x-zq-custom"):
                    reqs = r.get("requests") or []
                    cts = [v for rq in reqs for h, v in rq["headers"] if h.lower() == "content-type"]
                    if "exc" in r or not reqs or cts != [k[3]]:
                        fail("overridden media type is not sent as itself", {"op": k, "content_types": cts, "exc": r.get("exc")})
                        break
                    tk, tr = ctx["wire_cache"](ctx["ctype_target_tree"])
                    mt = {(x[0], x[1], x[2]): y for x, y in zip(tk, tr) if x[0] == "call"}
                    t = mt.get((k[0], k[1], k[2]))
                    if t is not None:
                        a, b_ = norm_obs(t), norm_obs(r)
                        strip = lambda o: [{**rq, "headers": [h for h in rq["headers"] if h[0].lower() != "content-type"]} for rq in o.get("requests", [])]
                        if strip(a) != strip(b_) or a.get("result") != b_.get("result"):
                            fail("overridden media type does not behave like its target on the wire", {"op": k})
                            break
        else:
            pairs, enum_plain = wire
            alias_seen = False
            if kb != kv and not pairs:
                fail("the two clients do not expose the same operations", {"base": len(kb), "variant": len(kv)})
            else:
                for k, x, y in zip(kb, rb, rv):
                    sx = json.dumps(norm_obs(x, enum_plain), sort_keys=True)
                    sy = json.dumps(json.loads(tok_replace(json.dumps(norm_obs(y, enum_plain)), pairs)), sort_keys=True)
                    if sx != sy and enum_plain and k[0] == "rt" and ctx["int_enum_model"](k[1]) and \
                            json.dumps(boolnum(json.loads(sx)), sort_keys=True) == json.dumps(boolnum(json.loads(sy)), sort_keys=True):
                        # exactly the guard complement of FrameCodec.literal_enum_same_wire: a JSON bool at an int-enum position
                        fail("Enum re-emits the member's int where the Literal alias re-emits the received bool",
                             {"op": k, "instance": ctx["instances"].get(k[1], [None] * (k[2] + 1))[k[2]]}, finding="numeric_alias")
                        alias_seen = True
                        continue
                    if sx != sy and enum_plain and k[0] == "call" and alias_seen and \
                            json.dumps(alias_norm(json.loads(sx)), sort_keys=True) == json.dumps(alias_norm(json.loads(sy)), sort_keys=True):
                        continue     # the same aliasing instance travelling as a request / response body (already reported above)
                    if sx != sy:
                        i = next((i for i in range(min(len(sx), len(sy))) if sx[i] != sy[i]), 0)
                        fail("wire behaviour differs", {"op": k, "base": sx[max(0, i - 80):i + 120], "variant": sy[max(0, i - 80):i + 120]})
                        break
    return fails


# ====================================================================================================== worker
SINGLES = ["class_overrides", "project_name_override", "package_name_override", "package_version_override", "field_prefix",
           "use_path_prefixes_for_title_model_names", "literal_enums", "docstrings_on_attributes", "generate_all_tags", "content_type_overrides",
           "post_hooks", "meta", "file_encoding", "custom_template_path", "http_timeout"]
WIRE_OPTS = {"project_name_override", "package_name_override", "class_overrides", "field_prefix", "use_path_prefixes_for_title_model_names", "literal_enums", "docstrings_on_attributes", "content_type_overrides"}


def ctype_target_doc(doc):
    return json.loads(json.dumps(doc).replace("application/zip", "application/octet-stream").replace("application/x-zq-custom", "application/json"))


def work(args):
    label, doc, seed, combos, base_meta, wire_budget = args
    rng = random.Random(seed)
    out = {"label": label, "doc": doc, "cases": [], "fails": [], "error": None, "flavours": []}
    trees = {}
    wire_results = {}
    t0 = time.time()
    try:
        base0 = Tree(doc, {}, meta=base_meta)
        if not base0.ok or base0.exc:
            out["error"] = "base generation failed: " + repr(base0.exc or base0.data)[:300]
            base0.close()
            return out
        table = opt_table(base0)
        default_project = base0.project      # no override: kebab-case title + "-client" (Names.kebab_case, checked by C09/C19 and stage B here)
        overrides = table["class_overrides"]["cfg"]["class_overrides"]
        instances = make_instances(base0, seed)
        ab0 = absprop.Abs(base0.data)
        int_enum_model = lambda mi: has_int_enum(ab0, ("model", str(ab0.models[mi].class_info.name)), set())
        base_syntax_bad = {}
        for k, v in base0.files.items():
            if k.endswith(".py"):
                try:
                    quiet_parse(v.decode("utf-8"))
                except SyntaxError:
                    base_syntax_bad[k] = True
        has_errors = any(l == "ERROR" for l, _, _ in base0.diag()) or any("WARNING" in h or l == "WARNING" for l, h, _ in base0.diag())

        def setting(o, flavour=None):
            s = dict(table[o])
            if o == "meta":
                s = {"meta": flavour}
            return s

        def get_tree(opts, flavour=None, target=False):
            key = (tuple(sorted(opts)), flavour, target)
            if key not in trees:
                cfg, meta, enc, custom = merged([setting(o, flavour) for o in opts])
                d = ctype_target_doc(doc) if target else doc
                if target:
                    cfg = {k: v for k, v in cfg.items() if k != "content_type_overrides"}
                trees[key] = Tree(d, cfg, meta=meta or base_meta, encoding=enc, custom=custom)
            return trees[key]
        trees[((), None, False)] = base0
        budget = [wire_budget]

        def wire_cache(tree):
            k = id(tree)
            if k not in wire_results:
                wire_results[k] = run_wire(tree, instances)
            return wire_results[k]

        for combo in combos:
            # combo = tuple of option names; the LAST one is the option under test, the others are the fixed context
            ctxopts, opt = list(combo[:-1]), combo[-1]
            flavours = [None]
            if opt == "meta":
                flavours = [f for f in ("none", "poetry", "pdm", "setup") if f != base_meta]
            for fl in flavours:
                ctx_fl = None
                if "meta" in ctxopts:
                    ctx_fl = "poetry" if base_meta != "poetry" else "setup"
                b = get_tree(ctxopts, ctx_fl)
                if opt == "meta":
                    v = get_tree(ctxopts + [opt], fl)
                else:
                    v = get_tree(ctxopts + [opt], ctx_fl)
                ctx = {"instances": instances, "overrides": overrides, "int_enum_model": int_enum_model, "default_project": default_project, "wire_cache": wire_cache, "base_syntax_bad": base_syntax_bad, "has_errors": has_errors,
                       "wire": opt in WIRE_OPTS and (not ctxopts or budget[0] > 0) and b.encoding == "utf-8" and v.encoding == "utf-8"}
                if opt == "content_type_overrides":
                    ctx["ctype_target_tree"] = get_tree(ctxopts, ctx_fl, target=True)
                if ctx["wire"] and ctxopts:
                    budget[0] -= 1
                fails = relation(opt, doc, b, v, ctx)
                changed = b.files != v.files
                case = {"doc": label, "option": opt, "context": ctxopts, "flavour": fl or ctx_fl or base_meta, "base_meta": base_meta, "seed": seed, "wire": bool(ctx["wire"])}
                out["cases"].append((case, changed))
                for note, detail, finding in fails:
                    out["fails"].append({**case, "note": note, "first_difference": detail, "diag": v.diag()[:3], "finding": finding})
        # flavour file sets for the Coq term (stage B of flavour_files)
        for key, t in trees.items():
            if t.ok and not t.exc and not key[2]:
                out["flavours"].append({"meta": t.meta, "pkg": t.pkg, "files": sorted(t.files),
                                        "models": [m for _, m in t.classes],
                                        "tags": tag_table(t), "post_hook": "post_hooks" in key[0]})
    except BaseException as e:  # noqa
        import traceback
        out["error"] = "worker: " + repr(e) + traceback.format_exc()[-1200:]
    finally:
        for t in trees.values():
            t.close()
    out["dt"] = time.time() - t0
    return out


def tag_table(t):
    from openapi_python_client.utils import PythonIdentifier
    return [(str(tag), [str(PythonIdentifier(e.name, t.config.field_prefix)) for e in col.endpoints]) for tag, col in t.data.endpoint_collections_by_tag.items()]


# ====================================================================================================== run
def run(run, tier, replay=None):
    rng = run.rng
    t0 = time.time()
    terms, meta = stage_b(run, tier)
    print("phase B-gen %.1fs (%d terms)" % (time.time() - t0, len(terms))); t0 = time.time()

    # ---------------- stage C jobs
    atlas = G.atlas_docs()
    docs = [("plain", plain_doc(rng))]
    pick = [atlas[1], atlas[-1]] if tier == "quick" else [a for a in atlas if not a[0].startswith("unions")] + atlas[2:4]
    for l, d in pick:
        docs.append((l, add_ops(d, random.Random(rng.randrange(1 << 30)), l)))
    nrand = 3 if tier == "quick" else 30
    for i in range(nrand):
        r = random.Random(rng.randrange(1 << 30))
        docs.append((f"rand{i}", add_ops(G.random_doc(r, n_models=r.randint(2, 5), depth=r.randint(1, 2)), r, f"rand{i}")))
    if tier == "thorough":
        from gen import docs as GD
        for i in range(10):
            r = random.Random(rng.randrange(1 << 30))
            docs.append((f"graph{i}", add_ops(GD.gen_document(r)[0], r, f"graph{i}")))
    npairs = 8 if tier == "quick" else 45
    jobs = []
    if os.environ.get("C16_ONLY") == "B":
        docs = []
    if replay:
        rp = json.load(open(replay))
        docs = []
        for v in rp["violations"]:
            if "doc_json" in v and "option" in v:
                jobs.append((v.get("doc", "replay"), v["doc_json"], v.get("seed", 1), [tuple(v.get("context", [])) + (v["option"],)], v.get("base_meta", "none"), 4))
        if all("doc_json" in v for v in rp["violations"]):
            terms, meta = [], []      # only stage C cases to replay; otherwise the (deterministic) stage B stream is re-run as a whole
    for di, (label, doc) in enumerate(docs):
        combos = [(o,) for o in SINGLES]
        allpairs = [(a, b) for a in SINGLES for b in SINGLES if a != b and a != "http_timeout" and b != "http_timeout"]
        rng.shuffle(allpairs)
        combos += allpairs[:npairs]
        base_meta = "none" if di % 2 == 0 else "poetry"
        # split a document's combos over several jobs so that the pool stays busy
        chunk = 9 if tier == "quick" else 15
        for ci in range(0, len(combos), chunk):
            jobs.append((label, doc, rng.randrange(1 << 30), combos[ci:ci + chunk], base_meta, 3 if tier == "quick" else 8))
    # documents with enums in every position: the enum-representation option under test alone and in the context of other options
    if not replay and os.environ.get("C16_ONLY") != "B":
        from gen import ops as GO
        edocs = [("enums", enum_everywhere_doc())] + [(l, d) for l, d in GO.atlas_param_docs()]
        if tier == "thorough":
            edocs += [(l, d) for l, d in GO.atlas_body_docs() + GO.atlas_response_docs() + GO.atlas_path_docs()]
            edocs += [(f"ops{i}", GO.random_doc(random.Random(rng.randrange(1 << 30)))) for i in range(12)]
        ectx = [(), ("generate_all_tags",), ("field_prefix",), ("docstrings_on_attributes",), ("class_overrides",), ("meta",)]
        for ei, (label, doc) in enumerate(edocs):
            ctxs = ectx if (label == "enums" or tier == "thorough") else ectx[:1]
            for ci, c in enumerate(ctxs):
                jobs.append((label, doc, rng.randrange(1 << 30), [c + ("literal_enums",)], "none" if (ei + ci) % 2 == 0 else "poetry", 4))
        jobs.append(("enums", enum_everywhere_doc(), rng.randrange(1 << 30), [(o,) for o in SINGLES if o != "literal_enums"], "poetry", 4))
        # descriptions with backslashes / quotes / escapes: the docstring option alone and in context, and every other option on that document
        dd = described_doc()
        for ci, c in enumerate([(), ("literal_enums",), ("field_prefix",), ("class_overrides",), ("meta",), ("file_encoding",)][:6 if tier == "thorough" else 4]):
            jobs.append(("described", dd, rng.randrange(1 << 30), [c + ("docstrings_on_attributes",)], "none" if ci % 2 == 0 else "poetry", 4))
        jobs.append(("described", dd, rng.randrange(1 << 30), [(o,) for o in SINGLES if o != "docstrings_on_attributes"], "poetry", 4))
    run.rule = ("stage B: random (string, prefix, override table) / media type strings with override tables / operation lists with tag lists (duplicates, colliding and hostile "
                "tags, failing operations) / (title, name, parent) triples, each evaluated by the implementation and by the Coq model; stage C: documents = a plain document + atlas "
                "documents + random schema graphs, each extended with operations (several tags, octet/form/text/custom media types, parameter and property names that need a prefix, "
                "titled inline objects, enums) + a document with string/int enums in every position (model property, array item, union member, additionalProperties, parameters in all four "
                "locations required and optional, request/response bodies) and the parameter atlas of gen/ops.py for the literal_enums comparison; a case = (document, context options, option under test): the tree generated with the option on is compared with the tree with it off "
                "(both in the same context of other options) under the option's documented relation; non-trivial = the two trees differ; distinct by hash of (document label, options, flavour).")
    results = []
    with cf.ProcessPoolExecutor(max_workers=15) as ex:
        for r in ex.map(work, jobs):
            results.append(r)
    print("phase C %.1fs (%d jobs)" % (time.time() - t0, len(jobs))); t0 = time.time()

    seen_fail = set()
    seen_terms = set()
    fterms, fmeta = [], []
    for r in results:
        if r["error"]:
            run.violation("harness-or-generator", {"doc": r["label"], "error": r["error"], "doc_json": r["doc"]})
            continue
        for case, changed in r["cases"]:
            run.note_case(case, nontrivial=changed, kind="C:" + case["option"] + ("+ctx" if case["context"] else ""))
        for f in r["fails"]:
            key = (f["doc"], f["option"], tuple(f["context"]), f["note"])
            if key in seen_fail:
                continue
            seen_fail.add(key)
            fid = classify(f)
            if fid and run.known_finding(fid, "document '%s', option %s (context %s): %s; first difference %s" % (f["doc"], f["option"], f["context"], f["note"], json.dumps(f["first_difference"], default=str)[:200])):
                continue
            run.violation("oracle", {**f, "doc_json": r["doc"]})
        # flavour file sets vs Frame.core_files / flavour_only (evaluated in Coq): one term per (document, flavour, tag layout)
        for fl in r["flavours"]:
            if fl["post_hook"] or len(fl["files"]) > 90:
                continue
            key = (r["label"], fl["meta"], fl["pkg"], tuple(fl["files"]))
            if key in seen_terms:
                continue
            seen_terms.add(key)
            models = clist(cstr(m) for m in fl["models"])
            tags = clist(f"({cstr(t)}, {clist(cstr(e) for e in es)})" for t, es in fl["tags"])
            d = f"{{| d_models := {models}; d_tags := {tags} |}}"
            obs = clist("[" + ";".join(cstr(c) for c in p.split("/")) + "]" for p in fl["files"])
            term = f"same_paths (map (app (pkg_prefix {FL[fl['meta']]} {cstr(fl['pkg'])})) (core_files {d}) ++ flavour_only {FL[fl['meta']]} {cstr(fl['pkg'])}) {obs}"
            fterms.append(term)
            fmeta.append({"fn": "file set per flavour", "doc": r["label"], "meta": fl["meta"], "model_term": term, "impl": fl["files"][:8]})
    fterms, fmeta = fterms[:48], fmeta[:48]
    fbad = run_cases(HDR, fterms, shard=4, jobs=14)
    off = len(terms)
    terms += fterms
    meta += fmeta
    if not replay and os.environ.get("C16_ONLY") != "B":
        collision_probe(run)
        naming_probe(run, tier)
        encoding_probe(run, tier)
        metadata_probe(run, tier)
    bad = run_cases(HDR, terms[:off], shard=250) + [off + i for i in fbad]
    print("phase corr %.1fs" % (time.time() - t0))
    nloc, badloc = stage_b_locations(run) if not replay else (0, 0)
    if not replay:
        run.extra["enum_macro_output_cases"] = stage_b_macros(run)
    run.corr = {"cases": len(terms) + nloc, "mismatches": len(bad) + badloc,
                "what": "Class.from_string(overrides, field_prefix) == Frame.class_from_string; prefix sensitivity of PythonIdentifier/ClassName == needs_prefix/class_needs_prefix; "
                        "utils.get_content_type / _source_by_content_type / body_from_data == get_content_type / source_of / body_of; endpoint_collections_by_tag == collect; "
                        "ModelProperty.build class == class_from_string (model_class_string ..); generated file set == prefix ++ core_files + flavour_only; "
                        "EnumProperty / LiteralEnumProperty.validate_location == FrameCodec.validate_location; Project.project_name / package_name == Frame.project_name / package_name"}
    for i in bad[:8]:
        m = meta[i]
        mv = coq_eval(HDR, m["model_term"]) if "model_term" in m and len(m["model_term"]) < 20000 else ""
        run.violation("correspondence", {k: v for k, v in m.items() if k != "model_term"} | {"model": mv[-500:], "note": "implementation no longer behaves like the Frame.v model for which the option lemma is proved"})
    run.assumptions += ["that an option a function does not read cannot influence it (Python semantics; data flow through values the parser stores is not tracked by the syntactic frame) - probed by the metamorphic search of stage C",
                        "the documented site sets of Frame.v are a hand-written reading of README.md / the CLI help",
                        "undoing a renaming = whole-word token replacement on file paths and contents; files are then compared as multisets of lines for the class/prefix/title options (import blocks are sorted by name)",
                        "harness/lib/client_runner.py and absprop.py (instances) for the wire comparison; multipart bodies are not executed (random boundary)",
                        "email.message.Message.get_content_type is modelled for strings without lone surrogates"]


def collision_probe(run):
    """class_overrides whose renaming is NOT injective: class-name collisions are diagnosed by the parser; a module-name collision
    is not (two classes are written to one models/<module>.py). The failing oracle is classified by the Coq guard
    rename_injective_on (FrameThm.override_injective / override_module_collision_refuted)."""
    doc = plain_doc(run.rng)
    probes = [("module collision", {"Alpha": {"module_name": "beta"}}), ("module collision (reverse)", {"Beta": {"module_name": "alpha"}}),
              ("module collision (both renamed)", {"Alpha": {"module_name": "same_mod"}, "Beta": {"module_name": "Same Mod"}}),
              ("class collision", {"Alpha": {"class_name": "Beta"}}), ("class and module renamed apart", {"Alpha": {"class_name": "Gamma", "module_name": "gamma_mod"}}),
              ("class renamed onto the other's default module", {"Alpha": {"class_name": "beta"}})]
    base = Tree(doc, {})
    names = [c for c, _ in base.classes]
    base.close()
    silent, gterms = [], []
    for label, ov in probes:
        t = Tree(doc, {"class_overrides": ov})
        try:
            nfiles = len([k for k in t.files if k.startswith("models/") and not k.endswith("__init__.py")])
            lost = t.ok and not t.exc and not t.diag() and nfiles < len(t.classes)
            case = {"probe": label, "overrides": ov, "classes": getattr(t, "classes", None), "model_files": nfiles, "diagnostics": len(t.diag())}
            run.note_case(case, nontrivial=True, kind="C:override-collision-probe")
            covs = clist(f"({cstr(k)}, {{| o_class := {copt_str(o.get('class_name'))}; o_module := {copt_str(o.get('module_name'))} |}})" for k, o in ov.items())
            if lost:
                silent.append(case)
                gterms.append(f"rename_injective_on {covs} {cstr('field_')} {clist(cstr(n) for n in names)}")
        finally:
            t.close()
    guard_false = set(run_cases(HDR, gterms, shard=10)) if gterms else set()
    for i, case in enumerate(silent):
        what = "class_overrides %s: %d classes but %d model files and no diagnostic (two classes share one module file)" % (json.dumps(case["overrides"]), len(case["classes"]), case["model_files"])
        if i in guard_false and run.known_finding("override_module_collision", what):
            continue
        run.violation("oracle", {**case, "doc_json": doc, "note": "a class silently lost its module file although the override table is injective on the document's classes" if i not in guard_false else what})


def encoding_probe(run, tier):
    """every (metadata flavour, --file-encoding in {utf-8, cp1252, utf-16}) pair on a document with a non-ASCII title and
    descriptions: the set of files is that of the utf-8 generation and every file, decoded with the REQUESTED encoding, holds the
    utf-8 generation's text (a writer that ignores the option writes the locale's encoding instead)."""
    doc = described_doc()
    doc["info"] = {"title": "Caf\u00e9 \u00dcber API \u2014 \u00bd", "version": "1", "description": "d\u00e9j\u00e0 vu \u20ac"}
    for fl in ("none", "poetry", "pdm", "setup"):
        base = Tree(doc, {}, meta=fl, encoding="utf-8")
        try:
            B = texts(base)
            for enc in ("cp1252", "utf-16"):
                var = Tree(doc, {}, meta=fl, encoding=enc)
                try:
                    case = {"probe": "file_encoding", "flavour": fl, "file_encoding": enc}
                    run.note_case(case, nontrivial=True, kind="C:encoding-probe")
                    if var.exc is not None or base.exc is not None:
                        run.violation("oracle", {**case, "doc_json": doc, "note": "generation raised", "error": repr(var.exc or base.exc)})
                        continue
                    if sorted(var.files) != sorted(base.files):
                        run.violation("oracle", {**case, "doc_json": doc, "note": "file_encoding changed the set of generated files",
                                                 "first_difference": sorted(set(var.files) ^ set(base.files))[:5]})
                        continue
                    for k in sorted(var.files):
                        try:
                            txt = var.files[k].decode(enc)
                        except UnicodeError as e:
                            txt = "<undecodable as %s: %s>" % (enc, e)
                        if txt != B[k]:
                            i = next((i for i in range(min(len(txt), len(B[k]))) if txt[i] != B[k][i]), 0)
                            run.violation("oracle", {**case, "doc_json": doc, "note": "a generated file is not written in the requested encoding (decoded with it, it differs from the utf-8 generation's text)",
                                                     "first_difference": [k, B[k][max(0, i - 30):i + 40], txt[max(0, i - 30):i + 40]]})
                            break
                finally:
                    var.close()
        finally:
            base.close()


def metadata_probe(run, tier):
    """package_version_override / project_name_override / package_name_override, each alone and all together, in EVERY flavour that
    has a metadata file (poetry, pdm: pyproject.toml; setup: setup.py), both tiers. The documented expectation is computed
    without the implementation: declared version = the override when given, info.version otherwise; declared name = the project
    name; package = package override or project with `-` -> `_`; and the overrides change ONLY those declarations (substituting the
    expected strings back gives the no-override tree byte for byte)."""
    doc = plain_doc(run.rng)
    doc["info"] = {"title": "Plain Api", "version": "2.0.3-doc"}
    doc_version, default_project = "2.0.3-doc", "plain-api-client"
    VER, PROJ, PKG = "9.8.7.dev77", "ZqMeta-Proj2", "ZqMetaPkg_3"
    cfgs = [("version", {"package_version_override": VER}), ("project", {"project_name_override": PROJ}), ("package", {"package_name_override": PKG}),
            ("all", {"package_version_override": VER, "project_name_override": PROJ, "package_name_override": PKG})]

    def declared(files, fl):
        """(name, version, package entries) as DECLARED in the flavour's metadata file, by text"""
        if fl == "setup":
            t = files.get("setup.py", "")
            return (re.findall(r'^\s*name="(.*)",\s*$', t, re.M), re.findall(r'^\s*version="(.*)",\s*$', t, re.M), re.findall(r'package_data=\{"([^"]*)"', t))
        t = files.get("pyproject.toml", "")
        head = t.split("[tool.ruff]")[0]
        return (re.findall(r'^name = "(.*)"\s*$', head, re.M), re.findall(r'^version = "(.*)"\s*$', head, re.M),
                re.findall(r'\{include = "([^"]*)"\}', head) if fl == "poetry" else [])

    for fl in ("poetry", "pdm", "setup"):
        base = Tree(doc, {}, meta=fl)
        try:
            B = texts(base)
            case0 = {"probe": "metadata", "flavour": fl, "config": {}}
            run.note_case(case0, nontrivial=True, kind="C:metadata-probe")
            n, v, pk = declared(B, fl)
            exp_pk = [default_project.replace("-", "_")] if fl in ("poetry", "setup") else []
            if (n, v, pk) != ([default_project], [doc_version], exp_pk):
                run.violation("oracle", {**case0, "doc_json": doc, "note": "without overrides the metadata file does not declare the default project name / the document's version / the default package",
                                         "declared": [n, v, pk], "documented": [[default_project], [doc_version], exp_pk]})
            for label, cfg in cfgs:
                var = Tree(doc, cfg, meta=fl)
                try:
                    case = {"probe": "metadata", "flavour": fl, "config": cfg}
                    run.note_case(case, nontrivial=True, kind="C:metadata-probe")
                    if var.exc is not None or not var.ok:
                        run.violation("oracle", {**case, "doc_json": doc, "note": "generation failed", "error": repr(var.exc)})
                        continue
                    V = texts(var)
                    project, pkg = documented_names(cfg, default_project)
                    version = cfg.get("package_version_override") or doc_version
                    n, v, pk = declared(V, fl)
                    exp_pk = [pkg] if fl in ("poetry", "setup") else []
                    if (n, v, pk) != ([project], [version], exp_pk):
                        run.violation("oracle", {**case, "doc_json": doc, "note": "the flavour's metadata file does not declare the documented project name / version / package (override when given, the document's value otherwise)",
                                                 "first_difference": ["setup.py" if fl == "setup" else "pyproject.toml", {"declared": [n, v, pk], "documented": [[project], [version], exp_pk]}]})
                        continue
                    # ONLY those declarations: map the documented strings back, in the metadata files and the package directory name
                    pairs = word_pairs({k_: v_ for k_, v_ in ((project, default_project), (pkg, default_project.replace("-", "_"))) if k_ != v_})
                    allowed = {"pyproject.toml", "setup.py", "README.md"}
                    Vm = {}
                    for k, t in V.items():
                        k2 = tok_replace(k, pairs)
                        if k2 in allowed:
                            t = tok_replace(t, pairs)
                            if k2 != "README.md":
                                t = t.replace('"%s"' % version, '"%s"' % doc_version)
                        Vm[k2] = t
                    d = first_diff(B, Vm)
                    if d:
                        run.violation("oracle", {**case, "doc_json": doc, "note": "a naming / version override changed something other than the documented declarations", "first_difference": d})
                finally:
                    var.close()
        finally:
            base.close()


def naming_probe(run, tier):
    """project_name_override alone / package_name_override alone / both, with override strings containing upper case, camelCase,
    digits after letters, `.`, ` `, `__`, in every metadata flavour, generated into the DEFAULT location (cwd): the directory names,
    the metadata files and the importable package name must be the documented ones (computed without the implementation) and the
    wire behaviour must equal that of the client generated without overrides."""
    from openapi_python_client import generate
    from openapi_python_client.config import Config, ConfigFile, MetaType
    rng = run.rng
    doc = plain_doc(rng)
    default_project = "plain-api-client"       # README: kebab-case title + -client
    base = Tree(doc, {})
    inst = make_instances(base, 7)
    kb, rb = run_wire(base, inst)
    combos = []
    ovs = NAME_OVERRIDES if tier == "thorough" else NAME_OVERRIDES[:5]
    for i, o in enumerate(ovs):
        pk = o.replace("-", "_").replace(".", "_").replace(" ", "_") + "Pkg"
        for mode, cfg in (("project", {"project_name_override": o}), ("package", {"package_name_override": pk}), ("both", {"project_name_override": o, "package_name_override": pk})):
            flavours = ["none", "poetry", "pdm", "setup"] if tier == "thorough" else [["none", "poetry", "pdm", "setup"][(i + len(mode)) % 4], "poetry"]
            for fl in dict.fromkeys(flavours):
                combos.append((mode, cfg, fl))
    nwire = 0
    old = os.getcwd()
    try:
        for mode, cfg, fl in combos:
            root = Path(tempfile.mkdtemp(prefix="opc_c16n_"))
            try:
                (root / "doc.json").write_text(json.dumps(doc))
                cwd = root / "cwd"
                cwd.mkdir()
                config = Config.from_sources(ConfigFile(post_hooks=[], **cfg), MetaType(fl), root / "doc.json", "utf-8", False, output_path=None)
                case = {"probe": "naming", "mode": mode, "config": cfg, "flavour": fl}
                os.chdir(cwd)
                try:
                    with contextlib.redirect_stdout(io.StringIO()):
                        list(generate(config=config))
                except Exception as e:  # noqa
                    run.violation("oracle", {**case, "doc_json": doc, "note": "generate raised", "error": repr(e)})
                    continue
                finally:
                    os.chdir(old)
                project, pkg = documented_names(cfg, default_project)
                top = sorted(x.name for x in cwd.iterdir())
                exp_top = pkg if fl == "none" else project
                run.note_case(case, nontrivial=True, kind="C:naming-probe")
                problems = []
                if top != [exp_top]:
                    problems.append(("output directory is not the documented name", {"expected": exp_top, "found": top}))
                pdir = cwd / exp_top if fl == "none" else cwd / exp_top / pkg
                if not (pdir / "client.py").is_file():
                    problems.append(("package directory is not <project>/<package> with the documented names", {"expected": str(pdir.relative_to(cwd)),
                                     "found": sorted(str(x.relative_to(cwd)) for x in cwd.rglob("client.py"))}))
                if fl != "none" and (cwd / exp_top).is_dir():
                    txt = {f: (cwd / exp_top / f).read_text() if (cwd / exp_top / f).is_file() else "" for f in ("pyproject.toml", "setup.py", "README.md")}
                    checks = [("README.md", "# " + project), ("README.md", "from %s import Client" % pkg)]
                    if fl in ("poetry", "pdm"):
                        checks.append(("pyproject.toml", 'name = "%s"' % project))
                    if fl == "poetry":
                        checks.append(("pyproject.toml", '{include = "%s"}' % pkg))
                    if fl == "setup":
                        checks += [("setup.py", 'name="%s"' % project), ("setup.py", 'package_data={"%s"' % pkg)]
                    for f, pat in checks:
                        if pat not in txt[f]:
                            problems.append(("metadata file does not carry the documented name", {"file": f, "expected_text": pat}))
                # importable under the documented name, same wire behaviour as without overrides
                if not problems and pkg.isidentifier() and nwire < (4 if tier == "quick" else 12) and mode != "package":
                    nwire += 1
                    t = Tree.__new__(Tree)
                    t.data, t.endpoints, t.config, t.pp, t.pkg, t.out = base.data, base.endpoints, base.config, "x/", pkg, pdir.parent
                    kv, rv = run_wire(t, inst)
                    if isinstance(rv, dict) or kv != kb or [norm_obs(x) for x in rv] != [norm_obs(x) for x in rb]:
                        problems.append(("client generated with naming overrides does not behave like the one without (import name / wire)",
                                         {"fatal": rv.get("fatal", "")[-300:] if isinstance(rv, dict) else None}))
                for note, detail in problems:
                    run.violation("oracle", {**case, "doc_json": doc, "note": note, "first_difference": detail, "documented": [project, pkg]})
            finally:
                os.chdir(old)
                shutil.rmtree(root, ignore_errors=True)
    finally:
        os.chdir(old)
        base.close()


def classify(f):
    """the finding id attached by the relation's exact structural test (none is broad): currently only numeric_alias
    (a JSON bool at an int-enum position; the two observations are equal once bools are read as ints)"""
    return f.get("finding")
