"""C05 — document text is only ever data, never code.
Stage B: (1) Names.escape_dq / PyLit.py_repr / lex_string / lex_docstring / safe_docstring / TOML guard vs the real
utils.remove_string_escapes / repr / tokenize + ast.literal_eval / the real helpers.jinja macro / tomllib on hostile strings (evaluated
inside Coq); (2) the regenerated site table (coq/gen/GenSites.v) vs the table derived from a second, differently shaped probe document.
Stage C: per slot x payload class (and multi-slot combinations) generate through the real generator; every generated file must
compile / parse, have the AST shape of the canary-only rendering, carry the payload marker only inside string constants or sanitised
identifiers, and reproduce run-time-meaningful text character for character - or the piece must have been rejected with a diagnostic.
Failures are classified by the Coq slot_guard of the sites of that slot in that file (Sites.v): outside the guard of a site whose
finding is listed -> KNOWN-FINDING, anything else -> VIOLATION with (slot, payload) as replay."""
import ast, io, json, os, re, sys, token, tokenize, warnings, concurrent.futures as cf
from lib.common import cstr, run_cases, coq_eval, VERIF, REPO
from lib import strings as S
from lib import probe

HDR = r"""From Coq Require Import String Ascii.
Require Import OPC.gen.GenTables OPC.Uni OPC.Names OPC.PyLit OPC.Sites OPC.gen.GenSites.
Open Scope N_scope.
Definition oeq (a b : option (str * str)) : bool :=
  match a, b with
  | Some (v, r), Some (v', r') => str_eqb v v' && str_eqb r r'
  | None, None => true
  | _, _ => false
  end.
Definition is_none (a : option (str * str)) : bool := match a with None => true | _ => false end.
Definition guard_hit (slot file fid : string) (p : str) : bool :=
  existsb (fun s => negb (slot_guard s p) && String.eqb (site_finding s p) fid) (sites_of gen_sites slot file).
Definition verbatim_hit (slot file fid : string) (p : str) : bool :=
  existsb (fun s => negb (slot_verbatim s p) && String.eqb (site_verbatim_finding s) fid) (sites_of gen_sites slot file).
Definition in_all_guards (slot file : string) (p : str) : bool :=
  forallb (fun s => slot_guard s p) (sites_of gen_sites slot file).
Definition has_site (slot file : string) : bool := negb (match sites_of gen_sites slot file with [] => true | _ => false end).
"""

MARK = "zvq"
# payload classes: suffix appended to the slot's canary (identifier remnants of every suffix are of the form ([_-]?é中)?[_-]?x?zvq)
PAYLOADS = {
    "single-quote": "'zvq",
    "double-quote": '"zvq',
    "triple-quote": '"""\nzvq = zvq\n"""',
    "backslash-quote": '\\"zvq',
    "trailing-backslash": "zvq\\",
    "newline": "\nzvq = zvq",
    "fstring-braces": "{zvq}",
    "hash": " # zvq",
    "dq-breakout": '" + zvq + "',
    "sq-breakout": "' + zvq + '",
    "toml-terminator": '"\nzvq = "zvq',
    "cooked-escape": "\\xzvq",
    "nul": "\x00zvq",
    "line-separator": "\u2028zvq",
    "symbols": ";#()=zvq",
    # thorough only
    "carriage-return": "\rzvq",
    "raw-doc-end": '\\"""zvq',
    "both-quotes": "'\"zvq",
    "unicode": " é中zvq",
    "triple-single": "'''zvq",
    "brace-open": "{zvq",
}
QUICK = list(PAYLOADS)[:15]
# payloads placed BEFORE the canary (prefix, suffix): the first character of the text is not a letter. EnumProperty.values_from_list sends
# such values through its positional-name branch (VALUE_<i>); every enum-value slot gets them under both enum renderings.
EXEC_MARK = "zvqpwned"
FIRSTCHAR = {
    "first-digit-breakout": ['1" + zvq + "', ""],
    "first-quote-breakout": ['" + zvq + "', ""],
    "first-backslash": ["\\", '"zvq'],
    "first-space": [" ", '" + zvq + "'],
    "first-brace": ["{zvq}", '"zvq'],
    "first-digit-import-exec": ['1" + str(__import__("sys").modules.setdefault("%s","yes")) + "' % EXEC_MARK, ""],
}


# validated-format default slots: whole-value templates that the kind's own validator ACCEPTS (or must reject) with one hostile character;
# {tok} is the slot's traceable token (a date / the 31-digit head of a uuid / a number)
_DT = {"dt-single-quote": "{tok}'10:20:30", "dt-double-quote": '{tok}"10:20:30', "dt-backslash": "{tok}\\10:20:30", "dt-newline": "{tok}\n10:20:30",
       "dt-nul": "{tok}\x0010:20:30", "dt-brace": "{tok}{10:20:30", "dt-hash": "{tok}#10:20:30", "dt-trailing-quote": "{tok}T10:20:30'"}
KIND_PAYLOADS = {
    "date": _DT, "datetime": _DT,
    "uuid": {"uuid-braces": "{{tok}d}", "uuid-urn": "urn:uuid:{tok}d", "uuid-newline": "\n{tok}", "uuid-trailing-newline": "{tok}\n", "uuid-linesep": "\u2028{tok}",
             "uuid-tab": "\t{tok}", "uuid-plus": "+{tok}", "uuid-single-quote": "'{tok}", "uuid-double-quote": '"{tok}', "uuid-backslash": "\\{tok}"},
    "int": {"num-space-newline": " {tok}\n", "num-plus": "+{tok}", "num-exponent": "{tok}e0", "num-dot": "{tok}.0", "num-quote": "{tok}'", "num-code": "{tok};zvq"},
    "float": {"num-space-newline": " {tok}.5\n", "num-plus": "+{tok}.5", "num-exponent": "{tok}.5e0", "num-quote": "{tok}.5'", "num-code": "{tok}.5;zvq"},
}


def _validator_reading(kind, text):
    """What the generator's own validator makes of a numeric default (parser/properties/int.py, float.py)."""
    v = float(text)
    if kind == "int" and v == int(v):
        return int(v)
    return v


def _ps(payload):
    """(prefix, suffix) of a payload spec."""
    if isinstance(payload, dict):
        return ("", payload["tpl"])
    return ("", payload) if isinstance(payload, str) else (payload[0], payload[1])

_REM = re.compile(r"(?i)([_-]?é中)?[_-]?x?zvq")


def cq(s: str) -> str:
    """Coq string literal (slot labels / file kinds are printable ASCII)."""
    return '"' + s.replace('"', '""') + '"%string'


def norm_name(s: str) -> str:
    prev = None
    while prev != s:
        prev, s = s, _REM.sub("", s)
    return s


# ------------------------------------------------------------------------------------------------ stage B: string functions
def _first_token(L: str):
    """(kind, text) of the first token of L as CPython reads a source file (lone CR acts as a newline); None on tokenizer error."""
    L2 = L.replace("\r", "\n")
    try:
        with warnings.catch_warnings():
            warnings.simplefilter("ignore")
            tok = next(tokenize.generate_tokens(io.StringIO(L2).readline))
    except (tokenize.TokenError, SyntaxError, IndentationError, StopIteration):
        return None
    if tok.type != token.STRING or tok.start != (1, 0):
        return None
    return L[: len(tok.string)]


def _eval_lit(text: str):
    try:
        with warnings.catch_warnings():
            warnings.simplefilter("ignore")
            v = ast.literal_eval(text)
        return v if isinstance(v, str) else None
    except (SyntaxError, ValueError):
        return "<error>"


_UNMOD = re.compile(r"\\[0-7xuUN\n\r]")


def _jinja_docstring():
    import jinja2
    env = jinja2.Environment(loader=jinja2.FileSystemLoader(str(REPO / "openapi_python_client" / "templates")), trim_blocks=True, lstrip_blocks=True,
                             extensions=["jinja2.ext.loopcontrols"], keep_trailing_newline=True)
    return env.get_template("helpers.jinja").module.safe_docstring


def lit_strings(run, tier):
    rng = run.rng
    n = 800 if tier == "quick" else 9000
    alpha = S.HOSTILE + ['"', '"', "'", "\\", "\\", "n", "x", "{", "}", "#", "\r"]
    out = ["", '"', "'", "\\", '\\"', '""', '"""', '\\"""', "a\\", "a\nb", "a\rb", "it's", 'say "hi"', "'\"", "\\n", "\\x41", "\\N{DASH}", "\\8", "\\\n", "a\x00b",
           '""" + x + """', "\\\\", '\\\\"', "{x}", "é\x7f\x80\xad\u2028"]
    for i in range(n):
        r = rng.random()
        if r < 0.55:
            out.append(S.rand_str(rng, alpha, 9))
        elif r < 0.8:
            out.append(S.rand_str(rng, list('ab"\\\'\n {}'), 7))
        else:
            out.append(S.rand_str(rng, None, 5))
    return out


def stage_b_strings(run, tier, only=None):
    from openapi_python_client import utils
    import tomllib
    macro = _jinja_docstring()
    strs = only if only is not None else lit_strings(run, tier)
    terms, meta = [], []

    def add(kind, s, term, impl):
        terms.append(term)
        meta.append({"fn": kind, "input": s, "impl": impl})
        run.note_case({"fn": kind, "input": s}, nontrivial=any(c in s for c in "\"'\\\n{}"), kind="B:" + kind)

    for s in strs:
        add("remove_string_escapes", s, f"str_eqb (escape_dq {cstr(s)}) {cstr(utils.remove_string_escapes(s))}", utils.remove_string_escapes(s))
        add("repr", s, f"str_eqb (py_repr {cstr(s)}) {cstr(repr(s))}", repr(s))
        # --- single-line literals: the string is used as the raw text after an opening quote
        for q in ('"', "'"):
            L = q + s
            if L[:3] == q * 3:
                continue    # a triple-quote opener: outside the domain of the single-line lexer model (such text is outside every lit_guard)
            if "\x00" in L and s != "a\x00b":
                continue    # CPython rejects the whole source line; only the NUL-inside-the-literal case is in the model
            tok = _first_token(L)
            val = _eval_lit(tok) if tok is not None else None
            if tok is not None and _UNMOD.search(tok):
                continue    # octal / \x / \u / \N / line continuation: decoding not modelled (the model answers None by design)
            if tok is not None and val != "<error>" and val is not None:
                add("lex_string", L, f"oeq (lex_string {cstr(L)}) (Some ({cstr(val)}, {cstr(L[len(tok):])}))", [val, L[len(tok):]])
            elif tok is None and not _UNMOD.search(L):
                add("lex_string", L, f"is_none (lex_string {cstr(L)})", None)
            elif tok is not None and val == "<error>":
                # CPython rejects the escape (malformed \x, \N, \u): the model must not claim a value
                add("lex_string", L, f"is_none (lex_string {cstr(L)})", "error")
        # --- docstrings through the REAL macro
        rendered = str(macro(s)).strip("\n")
        add("safe_docstring", s, f"str_eqb (safe_docstring {cstr(s)}) {cstr(rendered)}", rendered)
        D = rendered + " + x"
        tok = _first_token(D)
        if "\x00" in s:
            pass    # CPython rejects any source containing NUL; the site guard (Sites.no_nul) excludes it, lex_docstring does not model it
        elif tok is not None:
            val = _eval_lit(tok)
            if "\r" in s:
                add("lex_docstring", D, f"match lex_docstring {cstr(D)} with Some (_, r) => str_eqb r {cstr(D[len(tok):])} | None => false end", ["<cr>", D[len(tok):]])
            elif val == "<error>":
                pass  # cooked docstring with a malformed escape cannot arise from safe_docstring (raw form is chosen on backslash)
            elif rendered.startswith("r") or "\\" not in s:
                add("lex_docstring", D, f"oeq (lex_docstring {cstr(D)}) (Some ({cstr(val)}, {cstr(D[len(tok):])}))", [val, D[len(tok):]])
        else:
            add("lex_docstring", D, f"is_none (lex_docstring {cstr(D)})", None)
        # --- TOML basic string: whenever the model's guard admits the raw text, tomllib must read back exactly the model's value
        if "\r" not in s and "\n" not in s:
            try:
                tv = tomllib.loads('k = "' + s + '"')
                tv = tv["k"] if set(tv) == {"k"} and isinstance(tv.get("k"), str) else None
            except Exception:
                tv = None
            if tv is not None:
                add("toml", s, f"implb (toml_clean {cstr(s)} && lit_inert DQ {cstr(s)}) (lit_guard DQ {cstr(s)} {cstr(tv)})", tv)
            else:
                add("toml", s, f"negb (toml_clean {cstr(s)} && lit_inert DQ {cstr(s)})", None)
    bad = run_cases(HDR, terms)
    for i in bad[:8]:
        m = meta[i]
        model = coq_eval(HDR, terms[i])[-300:]
        run.violation("correspondence", {**m, "term": terms[i][:400], "model": model,
                                         "note": "the PyLit/Names model of %s no longer agrees with the implementation / CPython" % m["fn"]})
    return len(terms), len(bad)


# ------------------------------------------------------------------------------------------------ stage B: site table cross-check
def stage_b_table(run, table):
    rows_a = {tuple(r) for r in table["rows"]}
    rows_b, rep = probe.site_table("B")
    n = bad = 0
    for r in rows_b:
        n += 1
        run.note_case({"row": list(r)}, nontrivial=r[2] not in ("PATH", "IDENT"), kind="B:table-row")
        if tuple(r) not in rows_a:
            bad += 1
            run.violation("correspondence", {"row": list(r), "note": "a second, differently shaped probe document reaches a (slot, file, context, sanitiser) row that "
                          "the regenerated site table (shape A, proved all_sites_safe) does not contain: the table is incomplete"})
    # the table on disk must be the one the translator derives now (stage A regenerated it from this tree)
    rows_now, _ = probe.site_table("A", variants=probe.VARIANTS[:1])
    for r in rows_now:
        n += 1
        if tuple(r) not in rows_a:
            bad += 1
            run.violation("correspondence", {"row": list(r), "note": "row derived now is missing from coq/gen/GenSites.v"})
    return n, bad


# ------------------------------------------------------------------------------------------------ stage C workers
_BENIGN = {}


def _worker_init(cache_dir):
    """Template compilation dominates a generation (0.25 of 0.33 s); workers share a Jinja bytecode cache in a fresh directory.
    run() checks that a cached rendering is byte-identical to an uncached one."""
    import jinja2
    cache = jinja2.FileSystemBytecodeCache(cache_dir)
    orig = jinja2.Environment.__init__
    def init(self, *a, **k):
        k.setdefault("bytecode_cache", cache)
        orig(self, *a, **k)
    jinja2.Environment.__init__ = init


def _benign_digest(meta):
    import hashlib
    files, diag, exc = _render(probe.build("A", probe.Canaries()), meta, {})
    return hashlib.sha256(json.dumps(sorted(files.items())).encode()).hexdigest(), exc


def _render(doc, meta, cfg):
    from lib import impl
    with impl.Gen(doc, meta=meta, cfg=cfg) as g:
        files = {k: v.decode("utf-8", "replace") for k, v in g.files().items()}
        return files, [list(map(str, d)) for d in g.diag()], (repr(g.exc) if g.exc is not None else None)


def _norm_ident(v: str) -> str:
    return norm_name(v).lower() if probe.CAN_RE.search(v) else v


def _shape(src: str):
    """AST dump with string constants blanked, canary-derived identifiers normalised and import runs sorted; also the non-docstring str constants."""
    with warnings.catch_warnings():
        warnings.simplefilter("ignore")
        tree = ast.parse(src)
    consts = []
    nums = [n.value for n in ast.walk(tree) if isinstance(n, ast.Constant) and isinstance(n.value, (int, float)) and not isinstance(n.value, bool)]
    doc_nodes = set()
    for n in ast.walk(tree):
        if isinstance(n, (ast.Module, ast.ClassDef, ast.FunctionDef, ast.AsyncFunctionDef)) and n.body and isinstance(n.body[0], ast.Expr) \
                and isinstance(n.body[0].value, ast.Constant) and isinstance(n.body[0].value.value, str):
            doc_nodes.add(id(n.body[0].value))
        if isinstance(n, ast.Expr) and isinstance(n.value, ast.Constant) and isinstance(n.value.value, str):
            doc_nodes.add(id(n.value))          # attribute docstrings
        if isinstance(n, ast.JoinedStr):
            for v in n.values:
                doc_nodes.add(id(v))
    for n in ast.walk(tree):
        if isinstance(n, ast.Constant) and isinstance(n.value, str):
            if id(n) not in doc_nodes:
                consts.append(n.value)
            n.value = "S"
            n.kind = None
        for attr in ("id", "attr", "arg", "name", "module", "asname"):
            v = getattr(n, attr, None)
            if isinstance(v, str):
                setattr(n, attr, _norm_ident(v))
        body = getattr(n, "body", None)
        for fld in ("body", "orelse", "finalbody"):
            b = getattr(n, fld, None)
            if isinstance(b, list):
                i = 0
                while i < len(b):
                    j = i
                    while j < len(b) and isinstance(b[j], (ast.Import, ast.ImportFrom)):
                        j += 1
                    if j - i > 1:
                        b[i:j] = sorted(b[i:j], key=lambda x: ast.dump(x))
                    i = max(j, i + 1)
    for n in ast.walk(tree):
        if isinstance(n, (ast.Import, ast.ImportFrom)):
            for a in n.names:
                a.name = _norm_ident(a.name)
        # enum member NAMES derive from the value (letter-first) or from its position (VALUE_<i>) and members are emitted sorted by name:
        # neither the name nor the order is part of the shape; what each member is assigned is
        if isinstance(n, ast.ClassDef) and any(isinstance(b, ast.Name) and b.id in ("Enum", "IntEnum") for b in n.bases):
            mem = [st for st in n.body if isinstance(st, ast.Assign) and len(st.targets) == 1 and isinstance(st.targets[0], ast.Name)]
            for st in mem:
                st.targets[0].id = "MEMBER"
            rest = [st for st in n.body if st not in mem]
            n.body = sorted(mem, key=lambda x: ast.dump(x)) + rest
    return ast.dump(tree), consts, nums


def _enum_members_plain(src: str):
    """Every member of a generated Enum class, every element of a Literal[...] type and of a *_VALUES set must be a plain constant."""
    with warnings.catch_warnings():
        warnings.simplefilter("ignore")
        tree = ast.parse(src)
    for n in ast.walk(tree):
        if isinstance(n, ast.ClassDef) and any(isinstance(b, ast.Name) and b.id in ("Enum", "IntEnum") for b in n.bases):
            for st in n.body:
                if isinstance(st, ast.Assign) and not isinstance(st.value, ast.Constant):
                    return "enum member %s is not a plain literal: %s" % (ast.unparse(st.targets[0])[:40], ast.unparse(st.value)[:80])
        if isinstance(n, ast.Subscript) and isinstance(n.value, ast.Name) and n.value.id == "Literal":
            elts = n.slice.elts if isinstance(n.slice, ast.Tuple) else [n.slice]
            for e in elts:
                if not isinstance(e, ast.Constant):
                    return "Literal[...] element is not a plain literal: %s" % ast.unparse(e)[:80]
        if isinstance(n, ast.AnnAssign) and isinstance(n.value, ast.Set):
            for e in n.value.elts:
                if not isinstance(e, ast.Constant):
                    return "value-set element is not a plain literal: %s" % ast.unparse(e)[:80]
    return None


def _is_enum_module(src: str) -> bool:
    """Stand-alone enum modules (str_enum / int_enum / literal_enum templates): no relative imports."""
    head = src.lstrip()
    return (head.startswith("from enum import") or head.startswith("from typing import Literal")) and "from ." not in src


def _import_executes(src: str):
    """Execute a stand-alone enum module in a fresh interpreter; report if the payload's sentinel side effect happened."""
    import subprocess
    code = "import sys\nsrc = sys.stdin.read()\ntry:\n    exec(compile(src, 'm', 'exec'), {'__name__': 'm'})\nexcept BaseException as e:\n    print('EXC', type(e).__name__)\nprint('RAN' if %r in sys.modules else 'CLEAN')" % EXEC_MARK
    r = subprocess.run(["/venv/bin/python", "-I", "-c", code], input=src, capture_output=True, text=True, timeout=60)
    return "importing the module executed document text (sentinel %s set)" % EXEC_MARK if "RAN" in r.stdout else None


def _toml_shape(text: str):
    import tomllib
    def sh(x):
        if isinstance(x, dict):
            return {k: sh(v) for k, v in sorted(x.items())}
        if isinstance(x, list):
            return [sh(v) for v in x]
        return type(x).__name__
    return json.dumps(sh(tomllib.loads(text)), sort_keys=True)


def _benign(meta, cfg_key):
    key = (meta, cfg_key)
    if key not in _BENIGN:
        C = probe.Canaries()
        files, diag, exc = _render(probe.build("A", C), meta, json.loads(cfg_key))
        info = {}
        for p, s in files.items():
            if p.endswith(".py"):
                info[p] = _shape(s)
            elif p.endswith(".toml"):
                info[p] = (_toml_shape(s), [], [])
        _BENIGN[key] = (C, files, info, diag)
    return _BENIGN[key]


def check_case(case):
    """Worker: case = {slots: {label: suffix}, meta, cfg}. Returns {fails: [...], absent: [...], diag: n, exc}."""
    meta, cfg_key = case["meta"], json.dumps(case["cfg"], sort_keys=True)
    C0, files0, info0, diag0 = _benign(meta, cfg_key)
    sfx = case["slots"]
    def wrap_kind(label, tok, kind):
        base = probe.KIND_BASE[kind].replace("{tok}", tok)
        if label not in sfx:
            return base
        if isinstance(sfx[label], dict):
            return sfx[label]["tpl"].replace("{tok}", tok)
        return _ps(sfx[label])[0] + base + _ps(sfx[label])[1]
    C = probe.Canaries(lambda label, c: _ps(sfx[label])[0] + c + _ps(sfx[label])[1] if label in sfx else c, wrap_kind)
    files, diag, exc = _render(probe.build("A", C), meta, case["cfg"])
    res = {"fails": [], "absent": [], "diag": len(diag), "diag0": len(diag0), "exc": exc, "texts": {l: C.text[l] for l in sfx}}
    if exc is not None:
        return res
    alltext = "\n".join(files) + "\n" + "\n".join(files.values())
    low = alltext.lower()
    for label in sfx:
        if C.by_label[label] not in low:
            res["absent"].append(label)
    # "rejected with a diagnostic": the multiset of diagnostic kinds (level + start of the message) differs from the canary-only rendering
    dk = lambda ds: sorted((d[0], d[-1][:20]) for d in ds)
    diagnosed = dk(diag) != dk(diag0)
    norm0 = {p: p for p in files0}
    by_norm = {}
    for p in files:
        by_norm.setdefault(norm_name(p), []).append(p)

    def fail(kind, path, detail):
        kindf = probe.strip_pkg(probe.file_kind(norm_name(path)))
        cans = sorted({m.group().lower() for m in probe.CAN_RE.finditer(files.get(path, "") + path)} & {C.by_label[l] for l in sfx})
        res["fails"].append({"kind": kind, "file": path, "file_kind": kindf, "detail": str(detail)[:300], "slots": [C.by_canary[c] for c in cans] or sorted(sfx)})

    for p, src in files.items():
        np_ = norm_name(p)
        if p == np_ and files0.get(np_) == src:
            continue        # byte-identical to the canary-only rendering (which is checked once below): nothing of the payload is in this file
        comps = p.split("/")
        if any(c in ("", ".", "..") or "\\" in c or "\n" in c for c in comps):
            fail("path", p, "unsafe path component")
        if p.endswith(".py"):
            try:
                with warnings.catch_warnings():
                    warnings.simplefilter("ignore")
                    compile(src, p, "exec")
                sh, consts, nums = _shape(src)
            except (SyntaxError, ValueError) as e:
                fail("syntax", p, e)
                continue
            # marker may occur only inside string tokens or as part of a sanitised identifier that also carries the canary
            try:
                for t in tokenize.generate_tokens(io.StringIO(src).readline):
                    if MARK in t.string.lower() and t.type not in (token.STRING, token.FSTRING_MIDDLE):
                        if not (t.type == token.NAME and probe.CAN_RE.search(t.string)):
                            fail("injected-token", p, f"{token.tok_name[t.type]} {t.string[:60]!r} at {t.start}")
                            break
            except (tokenize.TokenError, SyntaxError, IndentationError) as e:
                fail("syntax", p, e)
                continue
            bad_member = _enum_members_plain(src)
            if bad_member:
                fail("enum-member", p, bad_member)
            if any(EXEC_MARK in _ps(v)[0] + _ps(v)[1] for v in sfx.values()) and EXEC_MARK in src and _is_enum_module(src):
                ran = _import_executes(src)
                if ran:
                    fail("import-exec", p, ran)
            if np_ in info0:
                sh0, consts0, nums0 = info0[np_]
                if sh != sh0:
                    if not diagnosed:
                        fail("shape", p, "AST shape differs from the canary-only rendering")
                    continue
                # run-time-meaningful text: character for character
                for label in sfx:
                    knd = C.kind.get(label)
                    if knd in ("date", "datetime", "uuid"):
                        # the literal handed to isoparse() / UUID() must be the document text itself: then it evaluates to the validator's reading
                        tok = C.by_label[label]
                        got = sorted(c for c in consts if tok in c)
                        exp = [C.text[label]] * len([c for c in consts0 if tok in c])
                        if got != exp:
                            fail("verbatim", p, f"slot {label}: literals {got!r} != document text {C.text[label]!r} x{len(exp)}")
                    elif knd in ("int", "float"):
                        tok = C.by_label[label]
                        got = [v for v in nums if tok in repr(v)]
                        n0 = len([v for v in nums0 if tok in repr(v)])
                        try:
                            want = _validator_reading(knd, C.text[label])
                        except ValueError:
                            want = None
                        if want is not None and (len(got) != n0 or any(v != want or type(v) is not type(want) for v in got)):
                            fail("verbatim", p, f"slot {label}: numbers {got!r} != validator's reading {want!r} x{n0}")
                    elif label in probe.RUNTIME_SLOTS:
                        can = C.by_label[label]
                        can0 = C0.by_label[label]
                        exp = sorted(c.replace(can0, C.core[label]) for c in consts0 if can0 in c)
                        # re-map every OTHER canary (identical in both renderings: same label order) - nothing to do
                        got = sorted(c for c in consts if can in c)
                        if exp != got:
                            fail("verbatim", p, f"slot {label}: constants {got!r} != expected {exp!r}")
            elif not diagnosed and not res["absent"]:
                fail("shape", p, "file has no counterpart in the canary-only rendering")
        elif p.endswith(".toml"):
            try:
                sh = _toml_shape(src)
            except Exception as e:
                fail("syntax", p, e)
                continue
            if np_ in info0 and sh != info0[np_][0]:
                fail("shape", p, "TOML key structure differs from the canary-only rendering")
            import tomllib
            if np_ in info0 and sh == info0[np_][0]:
                for label in sfx:
                    if label == "Info.version":
                        v = tomllib.loads(src)
                        got = (v.get("tool", {}).get("poetry") or v.get("project") or {}).get("version")
                        if got is not None and got != C.text[label]:
                            fail("verbatim", p, f"version {got!r} != {C.text[label]!r}")
    if not diagnosed and not res["absent"]:
        for np_ in info0:
            if np_ not in by_norm:
                res["fails"].append({"kind": "shape", "file": np_, "file_kind": probe.strip_pkg(probe.file_kind(np_)), "detail": "file of the canary-only rendering is missing", "slots": sorted(sfx)})
    return res


# ------------------------------------------------------------------------------------------------ stage C driver
def cfgs_for(label):
    base = [("none", {})]
    if label.startswith("Info."):
        return [("setup", {}), ("poetry", {}), ("pdm", {})]
    f = label.split("@")[0]
    if f in ("Schema.enum.item", "Schema.const", "Schema.description", "Schema.default", "Schema.example", "Schema.title") or label.endswith("@const") or "enum" in label.split("@")[-1]:
        base.append(("none", {"literal_enums": True, "docstrings_on_attributes": True}))
    return base


def build_cases(run, tier, table):
    rng = run.rng
    labels = table["labels"]
    emitted = set(table["emitted_slots"])
    quick = tier == "quick"
    classes = QUICK if quick else list(PAYLOADS)
    few = ["triple-quote", "double-quote", "trailing-backslash", "symbols"]
    cases = []
    # quick tier: slots with the same site signature (same rows in the table) go through the same template code; two representatives per
    # signature (chosen by the seed) get every class, the others the four classes that distinguish docstring / literal forms
    sig = {}
    for r in table["rows"]:
        sig.setdefault(r[0], set()).add((r[1], r[2], r[3]))
    groups = {}
    for label in labels:
        if label in emitted:
            groups.setdefault(frozenset(sig.get(label, ())), []).append(label)
    reps = set()
    for g in groups.values():
        reps.update(rng.sample(sorted(g), 1) if quick else g)
    kinds = table.get("kinds", {})
    for label in labels:
        k_ = kinds.get(label)
        if label in emitted and k_ in KIND_PAYLOADS:
            for name, tpl in KIND_PAYLOADS[k_].items():
                cases.append({"slots": {label: {"tpl": tpl}}, "classes": {label: name}, "meta": "none", "cfg": {}, "kind": "format-default"})
    for label in labels:
        if label not in emitted or kinds.get(label) in KIND_PAYLOADS:
            continue
        for (meta, cfg) in cfgs_for(label):
            full = label in reps
            if quick and cfg and label not in reps:
                continue          # option variants: representatives only
            if quick and cfg and not (label.split("@")[0] in ("Schema.enum.item", "Schema.const") or label.endswith("@const")):
                full = False      # option variant matters mostly for enum / const rendering; other slots: the classes that differ per docstring form
            if quick and meta == "pdm":
                full = False
            for k in (classes if full else few):
                cases.append({"slots": {label: PAYLOADS[k]}, "classes": {label: k}, "meta": meta, "cfg": cfg, "kind": "single"})
    for label in labels:
        if label in emitted and label.split("@")[0] == "Schema.enum.item":
            for (meta, cfg) in cfgs_for(label):
                have = {c["classes"][label] for c in cases if list(c["slots"]) == [label] and c["cfg"] == cfg}
                for k in few:       # option variant skipped above for non-representatives: enum values always get it
                    if k not in have:
                        cases.append({"slots": {label: PAYLOADS[k]}, "classes": {label: k}, "meta": meta, "cfg": cfg, "kind": "single"})
                for k, v in FIRSTCHAR.items():
                    cases.append({"slots": {label: v}, "classes": {label: k}, "meta": meta, "cfg": cfg, "kind": "first-char"})
    # slots that never reach the output are independent of each other: all of them at once, per class
    absent = [l for l in labels if l not in emitted]
    for k in (["triple-quote", "dq-breakout", "newline", "nul"] if quick else classes):
        for cfg in ({}, {"literal_enums": True, "docstrings_on_attributes": True}):
            cases.append({"slots": {l: PAYLOADS[k] for l in absent}, "classes": {"<all absent slots>": k}, "meta": "poetry", "cfg": cfg, "kind": "absent-packed"})
    ncombo = 40 if quick else 500
    em = sorted(l for l in emitted if kinds.get(l) not in KIND_PAYLOADS)
    for _ in range(ncombo):
        k = rng.randint(2, 4)
        ls = rng.sample(em, k)
        cs_ = {l: (rng.choice(list(FIRSTCHAR)) if l.split("@")[0] == "Schema.enum.item" and rng.random() < 0.5 else rng.choice(classes)) for l in ls}
        meta = rng.choice(["none", "poetry", "setup", "pdm"]) if any(l.startswith("Info.") for l in ls) else "none"
        cfg = rng.choice([{}, {"literal_enums": True, "docstrings_on_attributes": True}])
        cases.append({"slots": {l: (FIRSTCHAR.get(c) or PAYLOADS[c]) for l, c in cs_.items()}, "classes": cs_, "meta": meta, "cfg": cfg, "kind": "combo"})
    if not quick:
        for _ in range(300):     # '/' is left out: in a component key it is JSON-pointer structure (the class is named after the last segment), not text
            l = rng.choice(em)
            s = S.rand_str(rng, [ch for ch in S.HOSTILE if not re.match(r"\w", ch) and ch not in "\x00/"] + ['"', "'", "\\", "\n", "{", "}"], 6) + " " + MARK
            meta, cfg = rng.choice(cfgs_for(l))
            cases.append({"slots": {l: s}, "classes": {l: "random"}, "meta": meta, "cfg": cfg, "kind": "random"})
    return cases


def run(run, tier, replay=None):
    table = json.loads((VERIF / "coq" / "gen" / "GenSites.json").read_text())
    run.rule = ("stage B: hostile strings (quotes, backslashes, newlines, braces, all planes) through escape_dq / py_repr / lex_string / safe_docstring / lex_docstring / TOML guard; "
                "stage C: one document per (slot of the probe grammar x payload class x metadata flavour / option setting) plus random multi-slot combinations; a case is one generated tree "
                "checked file by file (compile/tomllib, AST shape vs canary-only rendering, marker tokens, verbatim constants); non-trivial = the slot is emitted into at least one file; "
                "distinct by hash of (slots, payloads, flavour, options)")
    run.assumptions += ["CPython tokenizer beyond string literals, Jinja wordwrap/indent (treated as whitespace-only), and the Jinja engine are not modelled: reached by the stage C oracle only",
                        "slot coverage = the probe grammar in harness/lib/probe.py; pydantic str fields it does not fill are listed in evidence (unreached_fields)",
                        "identifier validity for ClassName / enum keys rests on C09 (only the character-class theorem ident_image_inert is proved here)",
                        "stage C workers enable Jinja's FileSystemBytecodeCache (fresh directory per run); a cached rendering is checked byte-identical to an uncached one on every run"]
    run.extra["site_rows"] = len(table["rows"])
    run.extra["slots_probed"] = len(table["labels"])
    run.extra["slots_emitted"] = len(table["emitted_slots"])
    run.extra["slots_absent_from_output"] = table["absent_slots"]
    run.extra["unreached_fields"] = table["unreached_fields"]
    run.extra["fields_by_site"] = table.get("fields_by_site", {})
    rep_cases = rep_strs = None
    if replay:
        vs = json.load(open(replay))["violations"]
        rep_cases = [v["case"] for v in vs if "case" in v]
        rep_strs = [v["input"] for v in vs if "input" in v and "fn" in v]
    # ---------------- stage B
    if table.get("note"):
        run.violation("correspondence", {"note": "translator gen_sites.py could not derive a clean table: " + table["note"][:500]}, no_input=True)
    nb, bb = stage_b_strings(run, tier, only=rep_strs)
    nt = bt = 0
    if not replay:
        nt, bt = stage_b_table(run, table)
    run.corr = {"cases": nb + nt, "mismatches": bb + bt,
                "what": "escape_dq/py_repr/lex_string/lex_docstring/safe_docstring/TOML guard == utils.remove_string_escapes/repr/tokenize+literal_eval/helpers.jinja macro/tomllib; site table rows of probe shape B subset of GenSites"}
    # ---------------- stage C
    cases = rep_cases if rep_cases is not None else build_cases(run, tier, table)
    emitted = set(table["emitted_slots"])
    results = []
    import tempfile, shutil
    ctx = __import__("multiprocessing").get_context("fork")
    cache_dir = tempfile.mkdtemp(prefix="opc_c05_jinja_")
    try:
        ref = _benign_digest("setup")      # parent: no cache
        with cf.ProcessPoolExecutor(max_workers=14, mp_context=ctx, initializer=_worker_init, initargs=(cache_dir,)) as ex:
            d1 = ex.submit(_benign_digest, "setup").result()
            d2 = ex.submit(_benign_digest, "setup").result()
            if not (ref == d1 == d2):
                run.violation("harness-error", {"note": "rendering with the Jinja bytecode cache differs from the uncached rendering", "digests": [ref, d1, d2]}, no_input=True)
            results = list(ex.map(check_case, [{"slots": c["slots"], "meta": c["meta"], "cfg": c["cfg"]} for c in cases], chunksize=4))
    finally:
        shutil.rmtree(cache_dir, ignore_errors=True)
    fails = []   # (case, fail)
    for c, r in zip(cases, results):
        run.note_case({"slots": c["slots"], "meta": c["meta"], "cfg": c["cfg"]}, nontrivial=any(l in emitted for l in c["slots"]), kind="C:" + c.get("kind", "replay") + ":" + "+".join(sorted(set(c.get("classes", {}).values()))) [:40])
        if r["exc"] is not None:
            # a crash of the generator is C06's subject; for C05 nothing was emitted, so nothing can be code. Recorded in evidence.
            run.extra.setdefault("generator_exceptions", []).append({"slots": c["slots"], "exc": r["exc"][:200]})
            continue
        for f in r["fails"]:
            fails.append((c, r, f))
    # ---------------- classification by the Coq guards (one query per distinct (slot, file kind, payload, predicate))
    fids = sorted(run.known)
    qkeys, qterms = {}, []
    def query(pred, label, fk, fid, ptxt):
        key = (pred, label, fk, fid, ptxt)
        if key not in qkeys:
            qkeys[key] = len(qterms)
            qterms.append(f"negb ({pred} {cq(label)} {cq(fk)} {cq(fid)} {cstr(ptxt)})")
        return qkeys[key]
    wants = []
    for k, (c, r, f) in enumerate(fails):
        for label in f["slots"]:
            if label not in r["texts"]:
                continue
            for fid in fids:
                wants.append((k, label, fid, query("guard_hit", label, f["file_kind"], fid, r["texts"][label])))
                if f["kind"] == "verbatim":
                    wants.append((k, label, fid, query("verbatim_hit", label, f["file_kind"], fid, r["texts"][label])))
    hit = set(run_cases(HDR, qterms)) if qterms else set()    # indices whose negation is false = the finding applies
    explained = {}
    for k, label, fid, qi in wants:
        if qi in hit:
            explained.setdefault(k, []).append((label, fid))
    seen_v = set()
    summary = {}
    for k, (c, r, f) in enumerate(fails):
        payload = {l: r["texts"][l] for l in r["texts"]}
        if k in explained:
            label, fid = explained[k][0]
            key = "%s | %s | %s | %s" % (label, c.get("classes", {}).get(label, "?"), f["kind"], f["file_kind"])
            summary.setdefault(fid, {})
            summary[fid][key] = summary[fid].get(key, 0) + 1
            run.known_finding(fid, f"slot {label} payload {payload[label]!r}: {f['kind']} failure in {f['file_kind']} ({f['detail'][:120]}) - payload is outside the Coq slot_guard of that site")
        else:
            vk = (json.dumps(c["slots"], sort_keys=True), f["kind"], f["file_kind"])
            vsum = run.extra.setdefault("violation_summary", {})
            vkey = "%s | %s | %s" % ("+".join(sorted(set(c.get("classes", {}).values()))), f["kind"], f["file_kind"])
            vsum[vkey] = vsum.get(vkey, 0) + 1
            if vk in seen_v:
                continue
            seen_v.add(vk)
            run.violation("oracle", {"case": {"slots": c["slots"], "meta": c["meta"], "cfg": c["cfg"], "classes": c.get("classes")}, "failure": f, "payload_text": payload,
                                     "note": "generated file fails the data-only oracle although the payload is inside the slot_guard of every known site of this slot in this file "
                                             "(or the slot has no site there): document text escaped into code / syntax"})
    run.extra["known_failure_summary"] = {fid: dict(sorted(v.items())) for fid, v in sorted(summary.items())}
    run.extra["oracle_failures_total"] = len(fails)
    run.extra["oracle_failures_known"] = len(explained)
    # stage A broken (e.g. all_sites_safe false) and nothing found: name the unsafe rows so that the replay points at the slot
    if getattr(run, "stageA_failed", False) and not run.violations:
        bad_rows = coq_unsafe_rows(table)
        run.violation("proof-obligation", {"obligation": "SitesThm.all_sites_safe", "unsafe_rows": bad_rows[:20],
                                           "note": "regenerated site table contains rows for which Sites.site_safe is false (new raw interpolation / context / sanitiser)"}, no_input=not bad_rows)


def coq_unsafe_rows(table):
    """Rows of the regenerated table with site_safe = false (evaluated with Sites.v only, GenSites.v may not compile)."""
    from translate.gen_sites import CTX, SAN
    hdr = "From Coq Require Import String.\nRequire Import OPC.Sites.\n"
    rows = table["rows"]
    terms = ["site_safe {| s_slot := %s; s_file := %s; s_ctx := %s; s_san := %s |}" % (cq(r[0]), cq(r[1]), CTX.get(r[2], "CUnknown"), SAN.get(r[3], "SUnknown")) for r in rows]
    try:
        bad = run_cases(hdr, terms)
    except RuntimeError:
        return []
    return [rows[i] for i in bad]
