"""C12 -- same document, same bytes: deterministic (hash seed) and order-independent (components.schemas / paths order).

Stage A (check.py): gen_loops.py regenerates the table of set-to-order sites, OrderThm.all_loops_sorted_except_known re-checks it.
Stage B: (1) the Coq sort models (jinja_sort = stable sort on str.lower, py_sorted) against the real Jinja `sort` filter / sorted()
         on random string lists; (2) for every generated module the lines written by each loop site == Order.emit applied, with the
         site's `sorted` flag taken from the regenerated table, to the set in the order in which the generating process enumerated it.
Stage C: byte comparison of whole generated trees, each generation in a fresh interpreter: same document under several
         PYTHONHASHSEEDs; diagnostic-free documents under permutations of components.schemas and paths; thorough: also with the
         default ruff post-hooks.  A difference is a KNOWN-FINDING only if it is a pure reordering of lines that all belong to the
         lazy-import set of that very model while the table says those loops are unsorted (lazy_unsorted), or a pure reordering of
         import lines that tie case-insensitively (sort_case_tie); anything else is a VIOLATION."""
from __future__ import annotations
import concurrent.futures as cf
import hashlib, json, os, re, shutil, subprocess, tempfile, time
from pathlib import Path
from lib.common import REPO, VERIF, PY, cstr, run_cases, coq_eval
from gen import docs as gdocs

DRIVER = str(VERIF / "harness" / "lib" / "c12_driver.py")
F_MODEL = "openapi_python_client/templates/model.py.jinja"
F_ENDPOINT = "openapi_python_client/templates/endpoint_module.py.jinja"
F_INIT = "openapi_python_client/templates/models_init.py.jinja"

HDR = f"""Require Import OPC.Uni OPC.Order OPC.gen.GenLoops.
Open Scope N_scope.
Definition f_model : str := {cstr(F_MODEL)}.
Definition f_endpoint : str := {cstr(F_ENDPOINT)}.
Definition f_init : str := {cstr(F_INIT)}.
Definition nth_site (file iter : str) (k : nat) : option loop_site :=
  nth_error (filter (fun s => str_eqb (ls_file s) file && str_eqb (ls_iter s) iter) gen_loops) k.
Definition chk (file iter : str) (k : nat) (enum obs : list str) : bool :=
  match nth_site file iter k with Some s => list_str_eqb (emit (ls_sorted s) enum) obs | None => false end.
"""


FINDING_TEXT = {
    "lazy_unsorted": "tree differences located only in the lazy-import lines (set iteration order) of a model module",
    "sort_case_tie": "import lines that differ only in case are emitted in set / arrival order by `| sort` (case-insensitive, stable)",
    "addl_lazy_order": "from_dict of a model whose additionalProperties is a $ref carries the referenced model's lazy imports only when that model was processed first",
    "int_enum_twin_order": "two int enums resolve to one class name with the same values listed in different orders; int_enum.py.jinja emits the members of whichever declaration was registered last",
    "module_collision_order": "two classes share one module file; which one survives depends on the order of components.schemas",
}


def clstr(xs):
    return "[" + "; ".join(cstr(x) for x in xs) + "]" if xs else "(@nil str)"


# ------------------------------------------------------------------ running generations in fresh interpreters
_blob = {}


def _intern(b: bytes) -> str:
    h = hashlib.sha1(b).hexdigest()
    _blob.setdefault(h, b)
    return h


def read_tree(root: Path):
    out = {}
    if root.exists():
        for f in sorted(root.rglob("*")):
            if f.is_file():
                rel = str(f.relative_to(root))
                if rel.startswith(".ruff_cache"):
                    continue   # ruff's own cache (timestamps), not generator output
                out[rel] = _intern(f.read_bytes())
    return out


def run_batch(seed: int, docs: list, hooks: bool, literal=False):
    """One fresh interpreter with PYTHONHASHSEED=seed generating every document of `docs`; -> [(result, tree)]"""
    root = Path(tempfile.mkdtemp(prefix="opc_c12_"))
    try:
        jobs = []
        for i, d in enumerate(docs):
            p = root / f"doc{i}.json"
            p.write_text(json.dumps(d), encoding="utf-8")
            jobs.append({"id": i, "doc": str(p), "out": str(root / f"out{i}"), "hooks": hooks, "cfg": ({"literal_enums": True} if literal else {})})
        env = {k: v for k, v in os.environ.items()}
        env["PYTHONPATH"] = str(REPO)
        env["PYTHONHASHSEED"] = str(seed)
        if hooks:
            env["PATH"] = "/venv/bin:" + env.get("PATH", "")
        r = subprocess.run([PY, DRIVER], input=json.dumps({"jobs": jobs}), capture_output=True, text=True, env=env, timeout=600, cwd=str(root))
        if r.returncode != 0 or "\n@@RESULT@@\n" not in r.stdout:
            return [({"id": i, "exc": "driver failed: " + (r.stderr or r.stdout)[-1500:], "diag": [], "models": [], "endpoints": [], "init": None}, {}) for i in range(len(docs))]
        res = json.loads(r.stdout.split("\n@@RESULT@@\n", 1)[1])
        return [(res[i], read_tree(root / f"out{i}")) for i in range(len(docs))]
    finally:
        shutil.rmtree(root, ignore_errors=True)


# ------------------------------------------------------------------ classification of a difference
_CLASS_IMPORT = re.compile(r"from \.+(models)?\.?\w+ import \w+")


def _tied(lines):
    """the subset of `lines` that has a partner differing only in case - restricted to imports of generated CLASSES (`from ..models.ab import Ab` /
    `from .ab import Ab` / bare class names of __all__): the known finding sort_case_tie is about two classes whose names differ only in case.
    A tie between any other lines (e.g. two spellings of a fixed import line) is NOT that finding: OrderThm.import_pool_keys_distinct forbids it."""
    ls = {x for x in set(lines) if ("models." in x and _CLASS_IMPORT.fullmatch(x)) or re.fullmatch(r"from \.\w+ import \w+", x) or re.fullmatch(r"\w+", x)}
    return {x for x in ls if any(x != y and x.lower() == y.lower() for y in ls)}


def _explains(la, lb, X, reorder_only, free=frozenset()):
    """Removing the lines whose stripped text is in X makes both files equal; the removed lines are the same multiset on both sides
    (a pure reordering) except for lines in `free`, which may be present on one side only."""
    ra = [l for l in la if l.strip() not in X]
    rb = [l for l in lb if l.strip() not in X]
    if ra != rb:
        return False
    xa = sorted(l.strip() for l in la if l.strip() in X and l.strip() not in free)
    xb = sorted(l.strip() for l in lb if l.strip() in X and l.strip() not in free)
    return xa == xb if reorder_only else True


def classify_file(path, ha, hb, ia, ib, tbl):
    """-> ("same", "") | ([finding ids], detail) | ("violation", detail).  ia/ib: the driver's reports for the two generations."""
    if ha == hb:
        return "same", ""
    m = re.fullmatch(r"models/(\w+)\.py", path)
    mod = m.group(1) if m and m.group(1) != "__init__" else None
    if mod:
        for info in (ia, ib):
            if sum(1 for c in info.get("classes", []) if c[0] == mod) >= 2:
                return ["module_collision_order"], f"module {mod} is shared by several classes: " + ", ".join(c[1] for c in info["classes"] if c[0] == mod)
    if ha is None or hb is None:
        return "violation", "file exists in only one tree"
    la = _blob[ha].decode("utf-8", "replace").split("\n")
    lb = _blob[hb].decode("utf-8", "replace").split("\n")
    first = next((i for i in range(min(len(la), len(lb))) if la[i] != lb[i]), min(len(la), len(lb)))
    det = f"line {first + 1}: {(la[first].strip() if first < len(la) else '<eof>')!r} vs {(lb[first].strip() if first < len(lb) else '<eof>')!r}"
    cands = []   # (finding ids, X, reorder_only, free)
    lazy_fixed = tbl["lazy_fixed"]
    if mod and not tbl["int_enum_fixed"]:
        # an int enum (int_enum.py.jinja) whose member lines are merely re-ordered
        ea = next((x for x in ia.get("enums", []) if x["module"] == mod), None)
        eb = next((x for x in ib.get("enums", []) if x["module"] == mod), None)
        if ea and eb and ea["kind"] == eb["kind"] == "EnumProperty" and ea["value_type"] == eb["value_type"] == "int":
            members = {f"{k} = {v}" for k, v in ea["members"]} | {f"{k} = {v}" for k, v in eb["members"]}
            cands.append((["int_enum_twin_order"], members, True, frozenset()))
    if mod:
        ma = next((x for x in ia["models"] if x["module"] == mod), None)
        mb = next((x for x in ib["models"] if x["module"] == mod), None)
        if ma and mb:
            lazy = set(ma["lazy"]) | set(mb["lazy"])
            addl = set(ma["addl_lazy"]) | set(mb["addl_lazy"])
            tied = _tied(set(ma["relative"]) | set(mb["relative"]) | lazy | addl)
            addl_differs = set(ma["addl_lazy"]) != set(mb["addl_lazy"])
            if not lazy_fixed:
                cands.append((["lazy_unsorted"], lazy | addl, True, frozenset()))
            if tied:
                cands.append((["sort_case_tie"], tied, True, frozenset()))
            if addl_differs:
                # (with the ruff post-hooks the formatter also adds/removes a blank line around the extra import block)
                cands.append((["addl_lazy_order"], addl | {""}, False, frozenset(addl | {""})))
                if not lazy_fixed:
                    cands.append((["addl_lazy_order", "lazy_unsorted"], lazy | addl | {""}, True, frozenset(addl | {""})))
            if tied and not lazy_fixed:
                cands.append((["lazy_unsorted", "sort_case_tie"], lazy | addl | tied, True, frozenset()))
    m2 = re.fullmatch(r"api/(\w+)/(\w+)\.py", path)
    if m2:
        ea = next((x for x in ia["endpoints"] if x["tag"] == m2.group(1) and x["module"] == m2.group(2)), None)
        eb = next((x for x in ib["endpoints"] if x["tag"] == m2.group(1) and x["module"] == m2.group(2)), None)
        if ea and eb:
            tied = _tied(set(ea["relative"]) | set(eb["relative"]))
            if tied:
                cands.append((["sort_case_tie"], tied, True, frozenset()))
    if path == "models/__init__.py" and ia.get("init") and ib.get("init"):
        allowed = set(ia["init"]["imports"]) | set(ib["init"]["imports"])
        tied = _tied(allowed) | {f'"{a}",' for a in _tied(set(ia["init"]["alls"]) | set(ib["init"]["alls"]))}
        if tied:
            cands.append((["sort_case_tie"], tied, True, frozenset()))
    for fids, X, reorder_only, free in cands:
        if _explains(la, lb, X, reorder_only, free):
            return fids, det
    return "violation", det


def media_order_by_design(path, ha, hb, ia, ib):
    """The order of the media types of ONE request body is the order of the body branches in that operation's module (by design, stated):
    accepted iff the file is the module of an operation with >= 2 bodies and the two versions are a reordering of the same lines."""
    m = re.fullmatch(r"api/(\w+)/(\w+)\.py", path)
    if not m or ha is None or hb is None:
        return False
    ea = next((x for x in ia["endpoints"] if x["tag"] == m.group(1) and x["module"] == m.group(2)), None)
    eb = next((x for x in ib["endpoints"] if x["tag"] == m.group(1) and x["module"] == m.group(2)), None)
    if not ea or not eb or ea.get("n_bodies", 0) < 2 or eb.get("n_bodies", 0) != ea.get("n_bodies"):
        return False
    la = _blob[ha].decode("utf-8", "replace").split("\n")
    lb = _blob[hb].decode("utf-8", "replace").split("\n")
    def norm(ls):
        # the Union[...] of the body types in the signature is written in body order on one line: compare it as a set of members
        return sorted(",".join(sorted(re.split(r",\s*", x.strip()))) for x in ls)
    return norm(la) == norm(lb)


def compare(ta, tb, ia, ib, tbl):
    """-> list of (path, verdict, detail) for differing files"""
    out = []
    for p in sorted(set(ta) | set(tb)):
        v, d = classify_file(p, ta.get(p), tb.get(p), ia, ib, tbl)
        if v != "same":
            out.append((p, v, d))
    return out


# ------------------------------------------------------------------ emission correspondence (stage B2)
def _block_after(lines, start_pred, keep_pred):
    for i, l in enumerate(lines):
        if start_pred(l):
            out = []
            for x in lines[i + 1:]:
                if keep_pred(x):
                    out.append(x.strip())
                else:
                    break
            return out
    return None


def emission_terms(res, tree):
    """Coq boolean terms + descriptions for one generation (post-hooks off)."""
    terms = []
    def text(p):
        return _blob[tree[p]].decode("utf-8").split("\n") if p in tree else None
    for mi in res["models"]:
        p = f"models/{mi['module']}.py"
        L = text(p)
        if L is None:
            continue   # overwritten / not written: C07's business
        # relative imports: everything between the fixed header line and the TYPE_CHECKING block / TypeVar
        try:
            i0 = L.index("from ..types import UNSET, Unset")
        except ValueError:
            i0 = None
        if i0 is not None:
            obs = []
            for x in L[i0 + 1:]:
                if x.startswith("if TYPE_CHECKING:") or x.startswith("T = TypeVar"):
                    break
                if x.strip():
                    obs.append(x.strip())
            terms.append((f"chk f_model {cstr('model.relative_imports')} 0 {clstr(mi['relative'])} {clstr(obs)}", p, "model.relative_imports"))
        obs = _block_after(L, lambda l: l.startswith("if TYPE_CHECKING:"), lambda x: x.startswith("  ") and x.strip() != "") or []
        terms.append((f"chk f_model {cstr('model.lazy_imports')} 0 {clstr(mi['lazy'])} {clstr(obs)}", p, "model.lazy_imports@TYPE_CHECKING"))
        for k, head in ((1, "    def to_dict(self)"), (2, "    def from_dict(cls")):
            obs = _block_after(L, lambda l, h=head: l.startswith(h), lambda x: x.startswith("        from ") or x.startswith("        import "))
            if obs is None:
                obs = ["<def line not found>"]
            terms.append((f"chk f_model {cstr('model.lazy_imports')} {k} {clstr(mi['lazy'])} {clstr(obs)}", p, f"model.lazy_imports@{head.strip()}"))
    for ei in res["endpoints"]:
        p = f"api/{ei['tag']}/{ei['module']}.py"
        L = text(p)
        if L is None:
            continue
        obs = None
        for i, l in enumerate(L):
            if l.startswith("from ... import errors"):
                obs = []
                for x in L[i + 1:]:
                    if x.startswith("def "):
                        break
                    if x.strip():
                        obs.append(x.strip())
                break
        if obs is None:
            obs = ["<header line not found>"]
        terms.append((f"chk f_endpoint {cstr('endpoint.relative_imports')} 0 {clstr(ei['relative'])} {clstr(obs)}", p, "endpoint.relative_imports"))
    if res.get("init") and "models/__init__.py" in tree:
        L = text("models/__init__.py")
        imps = [x.strip() for x in L if x.startswith("from .")]
        alls = _block_after(L, lambda l: l.startswith("__all__ = ("), lambda x: x.strip().startswith('"')) or []
        alls = [a.strip('",') for a in alls]
        terms.append((f"chk f_init {cstr('imports')} 0 {clstr(res['init']['imports'])} {clstr(imps)}", "models/__init__.py", "imports"))
        if res["init"]["imports"]:
            terms.append((f"chk f_init {cstr('alls')} 0 {clstr(res['init']['alls'])} {clstr(alls)}", "models/__init__.py", "alls"))
    return terms


def sort_terms(rng, n):
    """Coq sort models against the real Jinja filter / sorted()."""
    import jinja2
    from jinja2.filters import do_sort
    env = jinja2.Environment()
    alpha = "abAB zZ._-09" + "éÉßİıǅσK"
    words = ["from ..models.ab import Ab", "from ..models.ab import AB", "from typing import Union", "from typing import cast", "import datetime",
             "from ..types import UNSET, Unset", "from ..models.a_b import AB", "from ..models.a import A", "from dateutil.parser import isoparse"]
    terms, meta = [], []
    for i in range(n):
        k = rng.randint(0, 6)
        l = []
        for _ in range(k):
            r = rng.random()
            if r < 0.3:
                l.append(rng.choice(words))
            elif r < 0.5 and l:
                w = rng.choice(l)
                l.append(w.swapcase() if rng.random() < 0.5 else w.upper())
            else:
                l.append("".join(rng.choice(alpha) for _ in range(rng.randint(0, 5))))
        l = [x for x in l if "\u03a3" not in x]   # final-sigma rule of str.lower() is not modelled (stated)
        if rng.random() < 0.7:
            l = list(dict.fromkeys(l))   # sets have no duplicates; keep some lists with duplicates too
        js = do_sort(env, l)
        ps = sorted(l)
        terms.append(f"list_str_eqb (jinja_sort {clstr(l)}) {clstr(js)} && list_str_eqb (py_sorted {clstr(l)}) {clstr(ps)}")
        meta.append({"list": l, "jinja_sort": js, "sorted": ps})
    return terms, meta


# ------------------------------------------------------------------ main
def table_state():
    """facts about the tables regenerated in stage A, evaluated inside Coq (None if they cannot be evaluated)."""
    out = coq_eval("Require Import OPC.Order OPC.Registry OPC.gen.GenLoops.",
                   "(lazy_fixed gen_loops, forallb loop_ok_or_known gen_loops, forallb loop_ok gen_loops, (int_enum_fixed gen_loops, forallb reg_ok gen_registrations, gen_recursion_test_exact))")
    m = re.search(r"=\s*\((true|false),\s*(true|false),\s*(true|false),\s*\((true|false),\s*(true|false),\s*(true|false)\)\)", out)
    if not m:
        return None, out
    k = ["lazy_fixed", "all_loops_sorted_except_known", "all_loops_sorted", "int_enum_fixed", "registrations_safe", "recursion_test_exact"]
    return {k[i]: m.group(i + 1) == "true" for i in range(6)}, out


def failed_attempt_traces(docs):
    """In-process: run the real parser on every document with update_schemas_with_data / process_model wrapped; for every FAILED attempt record the
    observable state of the Schemas object the caller keeps using (keys of classes_by_name, keys of classes_by_reference, identities of
    models_to_process, keys of dependencies) before and after.  -> [(doc index, phase, name, before, after)]"""
    import openapi_python_client.parser.properties as P
    from lib import impl
    log = []
    cur = [0]

    def snap(sc):
        return (sorted(map(str, sc.classes_by_name)), sorted(map(str, sc.classes_by_reference)), [f"{m.class_info.name}@{i}" for i, m in enumerate(sc.models_to_process)],
                sorted(map(str, sc.dependencies)))
    orig_u, orig_p = P.update_schemas_with_data, P.process_model

    def wu(*, ref_path, data, schemas, config):
        b = snap(schemas)
        r = orig_u(ref_path=ref_path, data=data, schemas=schemas, config=config)
        if isinstance(r, P.PropertyError):
            log.append((cur[0], "create", str(ref_path), b, snap(schemas)))
        return r

    def wp(model_prop, *, schemas, config):
        b = snap(schemas)
        r = orig_p(model_prop, schemas=schemas, config=config)
        if isinstance(r, P.PropertyError):
            log.append((cur[0], "process", str(model_prop.name), b, snap(schemas)))
        return r
    P.update_schemas_with_data, P.process_model = wu, wp
    try:
        for i, d in enumerate(docs):
            cur[0] = i
            try:
                impl.parse_doc(d)
            except Exception:   # a crash is C06's business
                pass
    finally:
        P.update_schemas_with_data, P.process_model = orig_u, orig_p
    return log


def all_orders(d, cap=24):
    """the document under EVERY order of components.schemas x every order of paths (when that product is <= cap; otherwise every order of the
    schemas, the paths alternately in original / reversed order).  First element: the document itself."""
    import copy, itertools
    sk = list(d["components"]["schemas"])
    pk = list(d.get("paths", {}))
    sperms = list(itertools.permutations(sk))
    pperms = list(itertools.permutations(pk))
    if len(sperms) * len(pperms) <= cap:
        combos = [(sp, pp) for sp in sperms for pp in pperms]
    else:
        combos = [(sp, (tuple(pk) if i % 2 == 0 else tuple(reversed(pk)))) for i, sp in enumerate(sperms[:cap])]
    out = []
    for sp, pp in combos:
        x = copy.deepcopy(d)
        x["components"]["schemas"] = {k: d["components"]["schemas"][k] for k in sp}
        x["paths"] = {k: d["paths"][k] for k in pp}
        out.append(x)
    return out


def run(run, tier, replay=None):
    rng = run.rng
    quick = tier == "quick"
    seeds = [0, 1, 2, 3, 4, 5] if quick else list(range(16))
    n_random = 10 if quick else 60
    n_perm = 5 if quick else 8            # orders of components.schemas/paths per document incl. the original one; one more variant permutes media types only
    order_seeds = seeds[:2] if quick else seeds[:6]   # hash seeds under which ALL orders are generated (the other seeds: original order only)
    hook_seeds = [] if quick else [0, 1, 2, 3]
    have_ruff = os.path.exists("/venv/bin/ruff")
    run.rule = ("documents = fixed corpus (minimal witnesses of the known findings, allOf chain with parents after children, one model shared as multipart/json/form body and response by "
                "operations on different paths, name pressure between schemas and between operations; corpus_order(): allOf child/parent pairs and chains whose child name is a suffix of the parent's, same-class-name twin "
                "string/int enums in schemas and query parameters, corpus_retry(): union / array-of-union / allOf components whose inline object member precedes a $ref to a later component - these under EVERY order of components.schemas x paths) + %d random structured documents (gen/docs.py: 3-12 schemas, 2-10 operations, several "
                "operations per path, forward refs, allOf parents after children, mutual refs, unions of models, hub models with >=2 lazy imports, models shared as bodies under different media types "
                "and as responses, request bodies with several media types, inline body schemas minting class names, suffix-named allOf families, twin string enums); each document x %d orders of components.schemas / paths / operations inside a "
                "path item (original, reversed, random) + 1 variant permuting only the media types inside request bodies, under PYTHONHASHSEED in %s (all orders) and the original order under %s, "
                "every generation in a fresh interpreter; a case = one (document, order, seed) tree compared byte-for-byte with the (original order, first seed) tree; non-trivial = the document "
                "has a model with >=2 lazy imports or the order differs from the original; distinct by hash of (document, order, seed)." % (n_random, n_perm, order_seeds, seeds))
    run.assumptions += ["CPython set iteration order is not modelled: the theorem quantifies over all enumeration orders, the oracle samples hash seeds",
                        "str.lower() final-sigma rule not modelled (jinja_sort key); .ruff_cache/ (ruff's own cache) is excluded from the tree comparison",
                        "gen_loops.py's set-typedness inference is name based over annotations (conservative: set-typed in any class => set); diagnostic text (EDiag sites) is outside the byte-tree statement",
                        "the abstract retry-loop model Retry.v is tied to the code only through the permutation oracle (no abstraction function is run)"]
    tbl, raw = table_state()
    run.extra["table"] = tbl
    if tbl is None:
        run.violation("proof-obligation", {"obligation": "gen/GenLoops.v / Order.v do not evaluate", "log": raw[-800:]}, no_input=True)
        tbl = {"lazy_fixed": True, "int_enum_fixed": True}   # be strict in the oracle
    elif tbl["all_loops_sorted_except_known"] is False:
        bad = coq_eval("Require Import OPC.Order OPC.gen.GenLoops.", "map (fun s => (ls_file s, ls_line s, ls_iter s)) (filter (fun s => negb (loop_ok_or_known s)) gen_loops)")
        from lib.common import decode_coq_str
        sites = ["".join(chr(int(x)) for x in re.findall(r"\d+", grp)) for grp in re.findall(r"\[([0-9; \n]*)\]", bad)]
        run.extra["unsafe_sites"] = sites
        print("C12: unsorted set-to-order site(s) outside the known finding:", sites)

    # ---- documents
    if replay:
        rp = json.loads(Path(replay).read_text())
        items = []
        for v in rp.get("violations", []):
            if "doc_a" in v:
                items.append(("replay", v["doc_a"], [v["doc_b"]], [], v.get("seed_a", 0), v.get("seed_b", 0), v.get("hooks", False)))
        return replay_items(run, items, tbl)
    doc_list = []   # (name, [variants], feats)
    def variants(d):
        return [d, gdocs.permute(d, rng, "reversed")] + [gdocs.permute(d, rng) for _ in range(n_perm - 2)] + [gdocs.permute(d, rng, "media")]
    for name, d in gdocs.corpus():
        doc_list.append((name, variants(d), ["corpus"]))
    tw = gdocs.case_twin_document()
    doc_list.append(("case-twins-distinct-modules", variants(tw), ["corpus", "case-twins"]))
    for name, d in gdocs.corpus_order() + gdocs.corpus_retry() + gdocs.corpus_retry2():
        doc_list.append((name, all_orders(d) + [gdocs.permute(d, rng, "media")], ["corpus", "all-permutations"]))
    # every property kind as an optional property / parameter next to another optional one (hash-seed part; also with literal_enums)
    kd = gdocs.kinds_optional_document()
    doc_list.append(("kinds-optional", [kd, gdocs.permute(kd, rng, "reversed"), gdocs.permute(kd, rng, "media")], ["corpus", "kinds"]))
    doc_list.append(("kinds-optional-literal-enums", [kd, gdocs.permute(kd, rng, "reversed"), gdocs.permute(kd, rng, "media")], ["corpus", "kinds", "literal-enums"]))
    for i in range(n_random):
        d, feats = gdocs.gen_document_c12b(rng, pressure=(i % 6 == 5))
        doc_list.append((f"rand{i}", variants(d), feats))

    # ---- generate everything (fresh interpreter per (document, seed))
    t0 = time.time()
    results = {}   # (di, seed, hooks) -> [(res, tree)] per variant
    with cf.ThreadPoolExecutor(max_workers=16) as ex:
        futs = {}
        for di, (name, vs, feats) in enumerate(doc_list):
            for s in seeds:
                all_perm = "all-permutations" in feats   # exhaustive orders: under the first hash seed only
                futs[ex.submit(run_batch, s, vs if (s in order_seeds and not (all_perm and s != seeds[0])) else vs[:1], False, "literal-enums" in feats)] = (di, s, False)
            if have_ruff:
                for s in hook_seeds:
                    futs[ex.submit(run_batch, s, vs[:3], True, "literal-enums" in feats)] = (di, s, True)   # original, reversed, one random order
        for f in cf.as_completed(futs):
            results[futs[f]] = f.result()
    run.extra["generation_wall_s"] = round(time.time() - t0, 1)
    run.extra["generations"] = sum(len(v) for v in results.values())

    # ---- stage C: tree comparison
    hits = {}
    clean_docs = 0
    for di, (name, vs, feats) in enumerate(doc_list):
        for hooks in (False, True):
            ss = [s for s in (hook_seeds if hooks else seeds) if (di, s, hooks) in results]
            if not ss:
                continue
            base_res, base_tree = results[(di, ss[0], hooks)][0]
            if base_res["exc"]:
                # a crash is C06's business; determinism of the crash itself is still checked below through equal (empty) trees
                pass
            if hooks:
                # a failing ruff hook (lint error it cannot fix) is reported as an ERROR diagnostic; it is a consequence of what was generated, so the
                # trees are still compared: the difference must then be explained (so far only addl_lazy_order: the injected import shadows the class, F823)
                for s in ss:
                    for res, _t in results[(di, s, hooks)]:
                        res["ruff_failed"] = [d for d in res["diag"] if d[1] == "ruff failed"]
                        res["diag"] = [d for d in res["diag"] if d[1] != "ruff failed"]
            clean = all(not results[(di, s, hooks)][0][0]["diag"] and not results[(di, s, hooks)][0][0]["exc"] for s in ss)
            if hooks and any(h == "Skipping Integration" for s in ss for (_, h, _) in results[(di, s, hooks)][0][0]["diag"]):
                run.violation("harness-error", {"note": "ruff not found on PATH in hook run"}, no_input=True)
            if not hooks and clean:
                clean_docs += 1
            if not clean:
                # the original order has diagnostics: if some OTHER order of the very same document has none, the set of diagnostics (and of
                # generated classes) depends on the order - that is an order dependence, not an excuse
                for s in ss:
                    for vi, (res, tree) in enumerate(results[(di, s, hooks)]):
                        if vi > 0 and not res["diag"] and not res["exc"] and not (results[(di, s, hooks)][0][0]["exc"]):
                            run.note_case({"doc": name, "order": vi, "seed": s, "hooks": hooks, "diagfree-only-in-some-order": True}, kind="order-diagnostics-differ")
                            run.violation("oracle", {"note": "the document generates WITHOUT diagnostics in one order of components.schemas/paths and WITH diagnostics in another",
                                                     "doc_name": name, "doc_a": vs[vi], "doc_b": vs[0], "seed_a": s, "seed_b": s, "hooks": hooks,
                                                     "first_differing_file": next(iter(sorted(set(tree) ^ set(results[(di, s, hooks)][0][1]))), None),
                                                     "diag": results[(di, s, hooks)][0][0]["diag"][:3]})
                            break
                    else:
                        continue
                    break
            big_lazy = any(len(m["lazy"]) >= 2 for m in base_res["models"])
            for s in ss:
                for vi in range(len(results[(di, s, hooks)])):
                    media_variant = (not hooks) and vi == len(vs) - 1
                    if vi > 0 and not clean:
                        continue   # order independence is claimed for diagnostic-free documents only
                    res, tree = results[(di, s, hooks)][vi]
                    case = {"doc": name, "order": vi, "seed": s, "hooks": hooks, "dochash": hashlib.sha1(json.dumps(vs[0], sort_keys=True).encode()).hexdigest()[:12]}
                    run.note_case(case, nontrivial=(big_lazy or vi > 0), kind=("hooks-" if hooks else "") + ("seed" if vi == 0 else ("media-order" if media_variant else "order")) + ("" if clean else "-with-diagnostics"))
                    if s == ss[0] and vi == 0:
                        continue
                    if vi > 0 and (bool(res["diag"]) or res["exc"]):
                        run.violation("oracle", {"note": "a reordering of a diagnostic-free document produced diagnostics", "doc_name": name, "doc_a": vs[0], "doc_b": vs[vi], "seed_a": ss[0], "seed_b": s,
                                                 "hooks": hooks, "diag": res["diag"][:3], "exc": res["exc"]})
                        continue
                    cmp = compare(base_tree, tree, base_res, res, tbl)
                    if bool(res.get("ruff_failed")) != bool(base_res.get("ruff_failed")) and not any(v != "violation" and "addl_lazy_order" in v for _, v, _ in cmp):
                        run.violation("oracle", {"note": "the ruff post-hook fails for one order / hash seed of the document and not for the other", "doc_name": name, "doc_a": vs[0], "doc_b": vs[vi],
                                                 "seed_a": ss[0], "seed_b": s, "hooks": hooks, "diag": (res.get("ruff_failed") or base_res.get("ruff_failed"))[:1]})
                    for path, verdict, det in cmp:
                        if media_variant and verdict == "violation" and media_order_by_design(path, base_tree.get(path), tree.get(path), base_res, res):
                            hits["media-type-order(by design)"] = hits.get("media-type-order(by design)", 0) + 1
                            continue
                        payload = {"doc_name": name, "first_differing_file": path, "detail": det, "doc_a": vs[0], "doc_b": vs[vi], "seed_a": ss[0], "seed_b": s, "hooks": hooks,
                                   "what": "hash seed" if vi == 0 else ("order of media types inside request bodies" if media_variant else "order of components.schemas/paths") + (" + hash seed" if s != ss[0] else "")}
                        if verdict == "violation":
                            run.violation("oracle", payload)
                            break
                        for fid in verdict:
                            hits[fid + ("@ruff-hooks" if hooks else "")] = hits.get(fid + ("@ruff-hooks" if hooks else ""), 0) + 1
                            if not run.known_finding(fid, f"{FINDING_TEXT[fid]}; e.g. document {name!r} ({payload['what']}: seed {ss[0]} vs {s}, order 0 vs {vi}): {path} {det}"):
                                run.violation("oracle", {**payload, "note": f"difference of class {fid}, which is not listed as an open finding"})
    run.extra["finding_differences"] = hits
    run.extra["diagnostic_free_documents"] = clean_docs
    if tbl["lazy_fixed"] is False and "lazy_unsorted" not in run.known:
        run.violation("proof-obligation", {"obligation": "OrderThm.all_loops_sorted (lazy_fixed gen_loops = false)", "note": "the lazy_imports loops of model.py.jinja are unsorted and lazy_unsorted is not listed as open"}, no_input=not hits.get("lazy_unsorted"))

    # ---- stage B: correspondence
    terms, meta = sort_terms(rng, 300 if quick else 2000)
    n_sort = len(terms)
    for di, (name, vs, feats) in enumerate(doc_list):
        for vi, (res, tree) in enumerate(results[(di, seeds[0], False)]):
            if res["exc"] or (quick and vi > 1):   # quick: original and reversed order only
                continue
            for t, p, site in emission_terms(res, tree):
                terms.append(t)
                meta.append({"doc_name": name, "order": vi, "file": p, "site": site, "doc": vs[vi], "seed": seeds[0]})
        # a second seed for the original order: other enumeration orders of the same sets
        if len(seeds) > 1:
            res, tree = results[(di, seeds[1], False)][0]
            if not res["exc"]:
                for t, p, site in emission_terms(res, tree):
                    terms.append(t)
                    meta.append({"doc_name": name, "order": 0, "file": p, "site": site, "doc": vs[0], "seed": seeds[1]})
    # a failed attempt of the fix-point loops hands back the pre-attempt state (Retry.round: a node that is not ready leaves `done` untouched):
    # classes_by_name / classes_by_reference / models_to_process unchanged; dependencies may only grow (it is extended in place, by design)
    n_emit = len(terms)
    fa_docs, fa_meta = [], []
    for di, (name, vs, feats) in enumerate(doc_list):
        for vi in range(len(vs) if "all-permutations" in feats else min(len(vs), 3)):
            fa_docs.append(vs[vi])
            fa_meta.append((name, vi))
    traces = failed_attempt_traces(fa_docs)
    run.extra["failed_attempts_observed"] = len(traces)
    for (i, phase, nm, b, a) in traces:
        t = " && ".join(f"list_str_eqb {clstr(b[k])} {clstr(a[k])}" for k in range(3)) + f" && forallb (fun x => mem_str x {clstr(a[3])}) {clstr(b[3])}"
        terms.append(t)
        meta.append({"doc_name": fa_meta[i][0], "order": fa_meta[i][1], "doc": fa_docs[i], "site": f"failed attempt of {phase} {nm}",
                     "before": {"classes_by_name": b[0], "classes_by_reference": b[1], "models_to_process": b[2]},
                     "after": {"classes_by_name": a[0], "classes_by_reference": a[1], "models_to_process": a[2]},
                     "note": "a failed attempt of _create_schemas/_process_models left a trace in the Schemas the retry starts from"})
        run.note_case({"doc": fa_meta[i][0], "order": fa_meta[i][1], "failed_attempt": f"{phase}:{nm}"}, nontrivial=True, kind="failed-attempt-trace")
    bad = run_cases(HDR, terms, shard=250)
    run.corr = {"cases": len(terms), "mismatches": len(bad), "sort_cases": n_sort,
                "failed_attempt_cases": len(terms) - n_emit,
                "what": "a failed attempt of update_schemas_with_data/process_model leaves classes_by_name, classes_by_reference, models_to_process as they were (dependencies only grow); jinja_sort/py_sorted == Jinja sort filter/sorted() on random lists; lines written by every loop site of every generated module == Order.emit (sorted flag from gen/GenLoops.v) applied to the set in the process's enumeration order"}
    for i in list(dict.fromkeys(bad[:5] + [j for j in bad if j >= n_emit][:5])):
        m = dict(meta[i])
        if i >= n_emit:
            run.violation("correspondence", m)
            continue
        if i >= n_sort:
            m["model"] = coq_eval(HDR, terms[i].replace("chk ", "(fun f i k e o => match nth_site f i k with Some s => Some (emit (ls_sorted s) e) | None => None end) ", 1))[-600:]
        run.violation("correspondence", {**m, "note": "implementation's emission differs from Order.emit/jinja_sort"})


def replay_items(run, items, tbl):
    for (name, da, dbs, _, sa, sb, hooks) in items:
        (ra, ta), = run_batch(sa, [da], hooks)
        for db in dbs:
            (rb, tb), = run_batch(sb, [db], hooks)
            run.note_case({"replay": True, "seed_a": sa, "seed_b": sb}, kind="replay")
            for path, verdict, det in compare(ta, tb, ra, rb, tbl):
                if verdict != "violation" and all(run.known_finding(fid, f"replay: {path} {det}") for fid in verdict):
                    continue
                run.violation("oracle", {"first_differing_file": path, "detail": det, "doc_a": da, "doc_b": db, "seed_a": sa, "seed_b": sb, "hooks": hooks})
                break
    run.corr = {"cases": 0, "mismatches": 0, "what": "replay"}
