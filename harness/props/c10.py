"""C10 — absent, null and present stay three distinct states.
Stage B: (a) the declared type of every property (get_type_string) vs Types.type_of on the abstracted kind, and the schema's
nullability as written in the DOCUMENT vs Types.nullable; (b) the generated from_dict/to_dict on the three states vs Codec.v.
Stage C: signatures (mandatory <-> required without default), absent -> UNSET -> not transmitted, null <-> None, annotation
admits None <-> nullable, for model properties and for query/header/cookie parameters of executed endpoint functions."""
import json, random, re, concurrent.futures as cf
from lib.common import cstr, run_cases, coq_eval
from lib import impl, absprop, tyabs, epwork
from gen.schemas import REF, obj, arr, any_of, NULL
from gen import ops as OPS

HDR = ("Require Import OPC.gen.GenKinds OPC.Uni OPC.Names OPC.Codec OPC.CodecObs OPC.Types OPC.TypesObs.\nOpen Scope N_scope.\n")

BASES = {
    "str": ({"type": "string"}, "hello", "dflt"), "int": ({"type": "integer"}, 7, 3), "float": ({"type": "number"}, 1.5, 2.5), "bool": ({"type": "boolean"}, True, False),
    "date": ({"type": "string", "format": "date"}, "2020-01-31", "2001-02-03"), "datetime": ({"type": "string", "format": "date-time"}, "2020-01-31T10:20:30", None),
    "uuid": ({"type": "string", "format": "uuid"}, "12345678-1234-5678-1234-567812345678", None),
    "enumstr": ({"type": "string", "enum": ["a", "b"]}, "a", "b"), "enumint": ({"type": "integer", "enum": [1, 2]}, 1, 2),
    "enumstrdup": ({"type": "string", "enum": ["low", "high", "high"]}, "low", "high"),      # a repeated member is not a null member
    # present-but-FALSY values must stay 'present': 0, "", False, {} and [] are not 'absent'
    "enumint0": ({"type": "integer", "enum": [0, 1]}, 0, None), "enumstr0": ({"type": "string", "enum": ["", "x"]}, "", None),
    "int0": ({"type": "integer"}, 0, None), "str0": ({"type": "string"}, "", None), "bool0": ({"type": "boolean"}, False, None),
    "model0": ({"$ref": REF + "Opt"}, {}, None), "listmodel0": (arr({"$ref": REF + "Sub"}), [], None), "listdate0": (arr({"type": "string", "format": "date"}), [], None),
    "model": ({"$ref": REF + "Sub"}, {"n": 1}, None), "liststr": (arr({"type": "string"}), ["x"], None), "listdate": (arr({"type": "string", "format": "date"}), ["2020-01-31"], None),
    "listmodel": (arr({"$ref": REF + "Sub"}), [{"n": 2}], None), "any": ({}, "anything", None),
    # an explicitly typed object composed by allOf of two components: nullability written on the TYPE must still reach the property
    "objallof": ({"type": "object", "allOf": [{"$ref": REF + "Sub"}, {"$ref": REF + "Opt"}]}, {"n": 1, "w": "x"}, None),
    # the same composition WITHOUT an explicit type (3.0 `nullable: true` next to a two-member allOf)
    "bareallof": ({"allOf": [{"$ref": REF + "Sub"}, {"type": "object", "properties": {"nick": {"type": "string"}}}]}, {"n": 1, "nick": "x"}, None),
}
NOTATIONS = ["plain", "n30", "n31", "anyof", "oneof", "enumnull"]


def with_notation(base, notation, kind):
    """(schema, nullable?) or None if the notation does not apply"""
    s = json.loads(json.dumps(base))
    if notation == "plain":
        return s, (kind == "any")
    if notation == "n30":
        if "$ref" in s:
            return {"allOf": [s], "nullable": True}, True
        if not s:
            return None
        s["nullable"] = True
        return s, True
    if notation == "n31":
        if "type" not in s or "enum" in s:
            return None
        s["type"] = [s["type"], "null"]
        return s, True
    if notation == "anyof":
        return any_of(s, NULL), True
    if notation == "oneof":
        return {"oneOf": [NULL, s]}, True
    if notation == "enumnull":
        if "enum" not in s:
            return None
        s["enum"] = s["enum"] + [None]
        if isinstance(s.get("type"), str):
            s["type"] = [s["type"], "null"]
        return s, True
    return None


def docs():
    out = []
    for notation, dup in [(n, False) for n in NOTATIONS] + [(n, True) for n in ("plain", "enumnull", "anyof")]:
        version = "3.0.3" if notation == "n30" else "3.1.0"
        S = {"Sub": obj({"n": {"type": "integer"}}, required=["n"]), "Opt": obj({"w": {"type": "string"}})}
        expect = {}
        if notation == "plain":
            # allOf refinement must not lose requiredness: `when`/`count` are required by Event and refined (not restated) by Dated
            S["Event"] = obj({"when": {"type": "string"}, "count": {"type": "number"}, "note": {"type": "string"}}, required=["when", "count"])
            S["Dated"] = {"allOf": [{"$ref": REF + "Event"}, obj({"when": {"type": "string", "format": "date"}, "count": {"type": "integer"}})]}
            S["DatedRev"] = {"allOf": [obj({"when": {"type": "string", "format": "date"}, "count": {"type": "integer"}}), {"$ref": REF + "Event"}]}
            # a member that carries ONLY `required` applies to the schema's own / other members' properties
            S["ReqOnly"] = {"type": "object", "properties": {"when": {"type": "string"}, "count": {"type": "integer"}, "note": {"type": "string"}}, "allOf": [{"required": ["when", "count"]}]}
            S["ReqOnly2"] = {"allOf": [obj({"when": {"type": "string"}, "count": {"type": "integer"}, "note": {"type": "string"}}), {"required": ["when"]}, {"type": "object", "required": ["count"]}]}
            for cn in ("Event", "Dated", "DatedRev", "ReqOnly", "ReqOnly2"):
                expect[cn] = {"kind": "allof", "nullable": False, "sample": None, "default": None, "mandatory": ["when", "count"], "optional": ["note"]}
        params_paths = {}
        for kind, (base, sample, dflt) in BASES.items():
            if kind == "enumstrdup" and not dup:
                continue          # a class-based enum with a repeated member aborts generation (known finding of C06); Literal enums accept it
            wn = with_notation(base, notation, kind)
            if wn is None:
                continue
            sch, nullable = wn
            props = {"r": sch, "o": sch}
            if dflt is not None:
                # the required property WITH a default is declared first: declaration order must not decide which constructor arguments are mandatory
                rd = dict(sch, default=dflt) if "anyOf" not in sch and "oneOf" not in sch and "allOf" not in sch else sch
                props = {"rd": rd, "r": sch, "o": sch, "od": rd}
            cname = f"C_{kind}"
            # every other class is CLOSED (additionalProperties: false): the decoder of a closed model keeps nothing left over
            S[cname] = obj(props, required=["r", "rd"] if "rd" in props else ["r"], addl=("absent" if len(S) % 2 else False))
            expect[cname] = {"kind": kind, "nullable": nullable, "sample": sample, "default": dflt if ("rd" in props and props["rd"] is not sch) else None}
            if kind in ("str", "int", "float", "bool", "enumstr", "enumint", "enumstrdup", "uuid", "date") and notation in ("plain", "n31", "anyof", "n30"):
                for loc in ("query", "header", "cookie"):
                    if loc == "header" and kind in ("date",):
                        continue
                    plist = [OPS.P("rq", loc, sch, True), OPS.P("op", loc, sch, False)]
                    if dflt is not None and "rd" in props and props["rd"] is not sch:
                        plist.append(OPS.P("od", loc, props["rd"], False))        # optional WITH a schema default: an explicit UNSET still suppresses it
                    params_paths[f"/p/{loc}/{kind}"] = {"get": OPS.op(f"p_{loc}_{kind}", plist)}
                    if loc == "query" and kind in ("str", "int", "date", "enumstr"):
                        # EVERY parameter of the operation required: a nullable one given None is still 'null', not 'present'
                        params_paths[f"/pr/{loc}/{kind}"] = {"get": OPS.op(f"pr_{loc}_{kind}", [OPS.P("rq", loc, sch, True), OPS.P("rz", loc, {"type": "integer"}, True)])}
        d = {"openapi": version, "info": {"title": "t", "version": "1"}, "paths": params_paths, "components": {"schemas": S}}
        out.append((notation + "+literal", d, expect, {"literal_enums": True}) if dup else (notation, d, expect, None))
    return out


def work(args):
    label, doc, expect, cfg, seed = args
    out = {"label": label, "doc": doc, "cfg": cfg, "error": None, "classes": [], "eps": []}
    try:
        with impl.Gen(doc, cfg=cfg) as g:
            if g.exc is not None:
                out["error"] = "generate raised " + repr(g.exc)
                return out
            out["diag"] = [d[1] + ": " + str(d[2])[:200] for d in g.diag()]
            data, config = impl.parse_doc(doc, cfg=cfg)
            ab = absprop.Abs(data)
            out["ctable"] = ab.ctable()
            models = {str(m.class_info.name): m for m in ab.models}
            ops, meta = [], []
            strings = set()
            from openapi_python_client.utils import ClassName
            for sname, ex in expect.items():
                cname = str(ClassName(sname, ""))
                m = models.get(cname)
                if m is None:
                    out["classes"].append({"schema": sname, "missing": True, "expect": ex})
                    continue
                rec = {"schema": sname, "cls": cname, "expect": ex, "props": {}}
                if ex["kind"] == "allof":
                    rec["trials"] = []
                    ops.append({"op": "signature", "module": "models", "name": cname})
                    meta.append(("sig", rec, None, None))
                    ops.append({"op": "roundtrip", "cls": cname, "data": {"note": "only the optional one"}})
                    meta.append(("allof_missing", rec, None, None))
                    out["classes"].append(rec)
                    continue
                for p in (m.required_properties or []) + (m.optional_properties or []):
                    k = ab.kind(p)
                    ent = {"required": p.required, "type_string": p.get_type_string(), "decl": p.to_string(), "ck": ab.ckind(k)}
                    try:
                        ent["cty"] = tyabs.cty(p.get_type_string(), ab)
                    except Exception as e:
                        ent["cty_error"] = repr(e)
                    rec["props"][p.name] = ent
                # three states through the generated code
                sample = ex["sample"]
                base_inst = {"r": sample}
                if "rd" in rec["props"]:
                    base_inst["rd"] = sample
                trials = [("absent", dict(base_inst))]
                t2 = dict(base_inst); t2["o"] = sample
                trials.append(("present", t2))
                t3 = dict(base_inst); t3["o"] = None; t3["r"] = None
                trials.append(("null", t3))
                rec["trials"] = []
                for tname, inst in trials:
                    absprop.strings_in(inst, strings)
                    ops.append({"op": "roundtrip", "cls": cname, "data": absprop.to_runner_json(inst)})
                    meta.append(("rt", rec, tname, inst))
                ops.append({"op": "signature", "module": "models", "name": cname})
                meta.append(("sig", rec, None, None))
                out["classes"].append(rec)
            for module, tag, ep in epwork.endpoints_of(data, config):
                erec = {"op": ep.name, "module": module, "params": []}
                for loc, plist in (("query", ep.query_parameters), ("header", ep.header_parameters), ("cookie", ep.cookie_parameters)):
                    for p in plist:
                        erec["params"].append({"loc": loc, "name": p.name, "py": str(p.python_name), "required": p.required, "type_string": p.get_type_string()})
                ops.append({"op": "signature", "module": module, "name": "sync_detailed"})
                meta.append(("epsig", erec, None, None))
                kind = ep.name.rsplit("_", 1)[1]
                sample = BASES[kind][1]
                val = {"str": ("j", sample), "int": ("j", sample), "float": ("j", sample), "bool": ("j", sample), "uuid": ("uuid", sample), "date": ("date", sample),
                       "enumstr": None, "enumint": None, "enumstrdup": None}[kind]
                if val is None:
                    cls = [p for p in ep.query_parameters + ep.header_parameters + ep.cookie_parameters][0]
                    kk = ab.kind(cls)
                    en = kk if kk[0] == "enum" else next((m for m in kk[1] if m[0] == "enum"), None) if kk[0] == "union" else None
                    val = ("enum", en[1], en[3][0]) if en else ("j", sample)
                # only the required argument given: the optional one must not be transmitted
                ops.append({"op": "call", "module": module, "variant": "sync_detailed", "kwargs": {"rq": OPS.to_marker(val)}, "response": {"status": 508}})
                meta.append(("call_omit", erec, val, None))
                if not any(p["py"] == "op" for p in erec["params"]):
                    # required-only operation: (value), and - when the parameter is nullable - None, which must not be transmitted
                    ops[-1]["kwargs"]["rz"] = 5
                    rqp = next(p for p in erec["params"] if p["py"] == "rq")
                    if admits_none_str(rqp["type_string"]):
                        ops.append({"op": "call", "module": module, "variant": "sync_detailed", "kwargs": {"rq": None, "rz": 5}, "response": {"status": 508}})
                        meta.append(("call_none", erec, val, None))
                    out["eps"].append(erec)
                    continue
                ops.append({"op": "call", "module": module, "variant": "sync_detailed", "kwargs": {"rq": OPS.to_marker(val), "op": OPS.to_marker(val)}, "response": {"status": 508}})
                meta.append(("call_both", erec, val, None))
                has_od = any(p["py"] == "od" for p in erec["params"])
                kw = {"rq": OPS.to_marker(val), "op": {"@unset": True}}
                if has_od:
                    kw["od"] = {"@unset": True}
                ops.append({"op": "call", "module": module, "variant": "sync_detailed", "kwargs": kw, "response": {"status": 508}})
                meta.append(("call_unset", erec, val, None))
                out["eps"].append(erec)
            res = impl.run_client(g.out, ops, timeout=600) if ops else []
            if isinstance(res, dict):
                out["error"] = "runner: " + res.get("fatal", "")[:1500]
                return out
            for (what, rec, a, b), r in zip(meta, res):
                if what == "rt":
                    ent = {"state": a, "inst": b, "res": r, "j": absprop.cjson(b)}
                    try:
                        if "dec_exc" in r:
                            ent["obs_obj"], ent["obs_out"] = "None", "None"
                        else:
                            ent["obs_obj"] = "(Some " + ab.cpv(r["obj"]) + ")"
                            ent["obs_out"] = "None" if "enc_exc" in r else "(Some " + absprop.cjson(absprop.from_jsonable(r["out"])) + ")"
                    except Exception as e:
                        ent["unrepresentable"] = repr(e)
                    ent["k"] = ab.ckind(("model", rec["cls"]))
                    rec["trials"].append(ent)
                elif what == "allof_missing":
                    rec["missing_required"] = r
                elif what == "sig":
                    rec["signature"] = r
                elif what == "epsig":
                    rec["signature"] = r
                else:
                    rec.setdefault(what, r)
                    rec["val"] = list(a)
            out["oracles"] = absprop.oracle_terms(strings)
    except BaseException as e:  # noqa
        import traceback
        out["error"] = "harness worker: " + repr(e) + traceback.format_exc()[-1500:]
    return json.loads(json.dumps(out, default=str))


SHARED_DOC = {"openapi": "3.1.0", "info": {"title": "t", "version": "1"},
              "paths": {"/things": {"parameters": [{"name": "order", "in": "query", "schema": {"type": ["string", "null"], "enum": ["asc", "desc", None]}}],
                                    "get": {"operationId": "list_things", "responses": {"200": {"$ref": "#/components/responses/ThingReply"}}},
                                    "post": {"operationId": "create_thing", "responses": {"200": {"$ref": "#/components/responses/ThingReply"}}},
                                    "put": {"operationId": "replace_thing", "responses": {"200": {"$ref": "#/components/responses/ThingReply"}}}}},
              "components": {"responses": {"ThingReply": {"description": "d", "content": {"application/json": {"schema": {
                  "type": "object", "required": ["state"], "properties": {"state": {"type": ["string", "null"], "enum": ["on", "off", None]},
                                                                           "mode": {"type": ["string", "null"], "enum": ["fast", "slow", None]}}}}}}}}}


def shared_nullable(run):
    """a schema OBJECT that the parser visits several times (a path-item parameter, an inline schema inside a shared component response):
    the nullable enum must keep its three states for EVERY operation that uses it, not only the first"""
    with impl.Gen(SHARED_DOC) as g:
        if g.exc is not None:
            run.violation("harness-or-generator", {"label": "shared", "error": repr(g.exc), "doc": SHARED_DOC})
            return
        ops = []
        for name in ("list_things", "create_thing", "replace_thing"):
            for order in (None, "asc", "@omit"):
                kw = {} if order == "@omit" else {"order": order}
                for body in ({"state": None}, {"state": "on", "mode": None}, {"state": "off", "mode": "fast"}, {"state": "on"}):
                    ops.append({"op": "call", "module": f"api.default.{name}", "variant": "sync_detailed", "kwargs": kw, "response": {"status": 200, "json": body}})
        res = impl.run_client(g.out, ops, timeout=300)
    if isinstance(res, dict):
        run.violation("harness-error", {"label": "shared", "error": res.get("fatal", "")[:800]})
        return
    for o, r in zip(ops, res):
        case = {"doc": "shared", "op": o["module"], "kwargs": o["kwargs"], "body": o["response"]["json"]}
        run.note_case(case, kind="shared_schema_object")
        if "exc" in r:
            run.violation("oracle", {"label": "shared", "doc": SHARED_DOC, **case, "impl": r["exc"], "note": "null / absent / present on a schema object shared by several operations: the call raised"})
            continue
        q = dict((k, v) for k, v in r["requests"][0]["query"])
        want_q = {} if o["kwargs"].get("order") in (None,) or "order" not in o["kwargs"] else {"order": o["kwargs"]["order"]}
        pj = (r["result"].get("parsed_json") or {})
        if q != want_q or pj != o["response"]["json"]:
            run.violation("oracle", {"label": "shared", "doc": SHARED_DOC, **case, "query_sent": q, "decoded": pj,
                                     "note": "the three states of a nullable enum differ between operations sharing one schema object"})


def admits_none_str(ts: str) -> bool:
    """does the annotation text admit None at top level"""
    t = ts.strip()
    inner = t[len("Union["):-1] if t.startswith("Union[") and t.endswith("]") else t
    depth, parts, cur = 0, [], ""
    for ch in inner:
        if ch == "[":
            depth += 1
        elif ch == "]":
            depth -= 1
        if ch == "," and depth == 0:
            parts.append(cur.strip()); cur = ""
        else:
            cur += ch
    parts.append(cur.strip())
    return any(p in ("None", "Any") for p in parts)


def known_class(label, rec):
    """the only listed C10 defect: OpenAPI 3.0 `nullable: true` written on an inline enum schema is ignored"""
    if label.startswith("n30") and rec["expect"]["kind"].startswith("enum"):
        return "enum_nullable30_ignored"
    return None


def report(run, label, rec, payload):
    cl = known_class(label, rec)
    if cl and run.known_finding(cl, f"class {rec['cls']}: {payload.get('note')} ({payload.get('type_string') or json.dumps(payload.get('impl', ''))[:120]})"):
        return
    run.violation("oracle", payload)


def run(run, tier, replay=None):
    rng = run.rng
    D = docs()
    run.rule = ("documents: every property kind (string, integer, number, boolean, date, date-time, uuid, string/integer enum, model reference, arrays, any) x "
                "{required, optional, required+default, optional+default} x nullable notation {none, 3.0 nullable flag, 3.1 type list, anyOf null, oneOf null, enum with null "
                "member} as model properties, and scalar kinds as required+optional query/header/cookie parameters. A case = one (class or operation, state): type "
                "annotation and nullability vs the Coq model; absent/null/present instances through generated from_dict/to_dict; constructor and endpoint "
                "signatures; requests captured with the optional argument omitted. Exhaustive over this finite grid; non-trivial = all of them.")
    run.exhaustive = True
    jobs = [(l, d, ex, cfg, rng.randrange(1 << 30)) for l, d, ex, cfg in D]
    with cf.ProcessPoolExecutor(max_workers=8) as ex:
        results = list(ex.map(work, jobs))
    hdr = HDR
    terms, meta = [], []
    for di, r in enumerate(results):
        if r["error"]:
            run.violation("harness-or-generator", {"label": r["label"], "error": r["error"], "doc": r["doc"], "cfg": r.get("cfg")})
            continue
        hdr += f"Definition T{di} : ctable := {r['ctable']}.\nDefinition O{di} : oracles := {r['oracles']}.\n"
        for rec in r["classes"]:
            if rec.get("missing"):
                # the schema was rejected: there must be a diagnostic (C07's business); no claim here
                run.note_case({"doc": r["label"], "schema": rec["schema"], "rejected": True}, nontrivial=False, kind="rejected")
                continue
            ex = rec["expect"]
            if ex["kind"] == "allof":
                run.note_case({"doc": r["label"], "cls": rec["cls"], "composed": True}, kind="allof_required")
                sig = rec.get("signature") or {}
                byname = {sp["name"]: sp for sp in sig.get("params", [])}
                for n in ex["mandatory"]:
                    if n not in byname or byname[n]["has_default"]:
                        run.violation("oracle", {"label": r["label"], "doc": r["doc"], "cfg": r.get("cfg"), "cls": rec["cls"], "param": byname.get(n), "note": f"property {n!r} is required by a member schema but is not a mandatory constructor argument of the composed class"})
                if "dec_exc" not in (rec.get("missing_required") or {"dec_exc": 1}):
                    run.violation("oracle", {"label": r["label"], "doc": r["doc"], "cfg": r.get("cfg"), "cls": rec["cls"], "impl": rec.get("missing_required"), "note": "an instance without the required properties is accepted by from_dict"})
                continue
            for pname, ent in rec["props"].items():
                run.note_case({"doc": r["label"], "cls": rec["cls"], "prop": pname, "type": ent["type_string"]}, kind="type")
                if "cty" in ent:
                    req = "true" if ent["required"] else "false"
                    terms.append(f"ty_same (type_of {ent['ck']} {req}) {ent['cty']}")
                    meta.append(("type", di, rec, pname, ent))
                    if pname in ("r", "o"):
                        terms.append(f"Bool.eqb (nullable {ent['ck']}) {'true' if ex['nullable'] else 'false'}")
                        meta.append(("nullable", di, rec, pname, ent))
                else:
                    run.violation("correspondence", {"label": r["label"], "cls": rec["cls"], "prop": pname, "type_string": ent["type_string"], "note": "annotation not parseable into Types.ty: " + ent["cty_error"]})
                # ---- stage C on the declaration text
                has_default = " = " in ent["decl"]
                want_default = (not ent["required"]) or (pname in ("rd", "od") and ex["default"] is not None)
                if has_default != want_default:
                    run.violation("oracle", {"label": r["label"], "doc": r["doc"], "cfg": r.get("cfg"), "cls": rec["cls"], "prop": pname, "decl": ent["decl"],
                                             "note": "declaration default does not match 'mandatory <-> required without default'"})
                if pname in ("r", "o") and admits_none_str(ent["type_string"]) != ex["nullable"]:
                    report(run, r["label"], rec, {"label": r["label"], "doc": r["doc"], "cfg": r.get("cfg"), "cls": rec["cls"], "prop": pname, "type_string": ent["type_string"], "nullable_in_document": ex["nullable"],
                                             "note": "the declared type admits None although the schema is not nullable, or vice versa"})
            for t in rec.get("trials", []):
                run.note_case({"doc": r["label"], "cls": rec["cls"], "state": t["state"], "instance": t["inst"]}, kind="state_" + t["state"])
                if "unrepresentable" in t:
                    run.violation("correspondence", {"label": r["label"], "cls": rec["cls"], "instance": t["inst"], "impl": t["res"], "note": t["unrepresentable"]})
                    continue
                terms.append(f"codec_case O{di} T{di} {t['k']} {t['j']} {t['obs_obj']} {t['obs_out']}")
                meta.append(("codec", di, rec, t["state"], t))
                # ---- stage C: the three states on the generated code
                res = t["res"]
                if res.get("input_mutated") or res.get("decode_twice_equal") is False:
                    run.violation("oracle", {"label": r["label"], "doc": r["doc"], "cfg": r.get("cfg"), "cls": rec["cls"], "instance": t["inst"], "impl": res,
                                             "note": "from_dict consumed / changed the caller's payload: decoding the same payload again reads present and null values back as absent"})
                if t["state"] == "absent":
                    if "dec_exc" in res or "enc_exc" in res:
                        run.violation("oracle", {"label": r["label"], "doc": r["doc"], "cfg": r.get("cfg"), "cls": rec["cls"], "instance": t["inst"], "impl": res, "note": "instance without the optional property is not accepted"})
                    else:
                        f = res["obj"]["fields"]
                        o = f.get("o")
                        if o is None or o["t"] != "unset":
                            run.violation("oracle", {"label": r["label"], "doc": r["doc"], "cfg": r.get("cfg"), "cls": rec["cls"], "instance": t["inst"], "impl": res, "note": "absent optional property does not read back as UNSET"})
                        if "o" in (res.get("out") or {}):
                            run.violation("oracle", {"label": r["label"], "doc": r["doc"], "cfg": r.get("cfg"), "cls": rec["cls"], "instance": t["inst"], "impl": res, "note": "UNSET property was transmitted"})
                elif t["state"] == "present":
                    if "dec_exc" not in res and "enc_exc" not in res:
                        o = res["obj"]["fields"].get("o")
                        if o is not None and o["t"] == "unset":
                            run.violation("oracle", {"label": r["label"], "doc": r["doc"], "cfg": r.get("cfg"), "cls": rec["cls"], "instance": t["inst"], "impl": res, "note": "a PRESENT optional value (possibly falsy: 0, '', False, {}, []) reads back as UNSET"})
                        if "o" not in (res.get("out") or {}):
                            run.violation("oracle", {"label": r["label"], "doc": r["doc"], "cfg": r.get("cfg"), "cls": rec["cls"], "instance": t["inst"], "impl": res, "note": "a PRESENT optional value was not transmitted"})
                elif t["state"] == "null" and ex["nullable"]:
                    if "dec_exc" in res or "enc_exc" in res:
                        report(run, r["label"], rec, {"label": r["label"], "doc": r["doc"], "cfg": r.get("cfg"), "cls": rec["cls"], "instance": t["inst"], "impl": res, "note": "null rejected although the schema is nullable"})
                    else:
                        f = res["obj"]["fields"]
                        for pn in ("r", "o"):
                            if not (f.get(pn, {}).get("t") == "j" and f[pn]["v"] is None):
                                run.violation("oracle", {"label": r["label"], "doc": r["doc"], "cfg": r.get("cfg"), "cls": rec["cls"], "prop": pn, "impl": res, "note": "JSON null is not decoded to None"})
                            if (res.get("out") or {}).get(pn, "missing") is not None:
                                run.violation("oracle", {"label": r["label"], "doc": r["doc"], "cfg": r.get("cfg"), "cls": rec["cls"], "prop": pn, "impl": res, "note": "None is not encoded as null"})
            sig = rec.get("signature") or {}
            if "params" in sig:
                for sp in sig["params"]:
                    if sp["name"] in ("r", "o", "rd", "od"):
                        want = sp["name"] != "r" and not (sp["name"] == "rd" and ex["default"] is None)
                        if sp["name"] == "rd" and ex["default"] is None:
                            want = False
                        if sp["has_default"] != want:
                            run.violation("oracle", {"label": r["label"], "doc": r["doc"], "cfg": r.get("cfg"), "cls": rec["cls"], "param": sp, "note": "constructor: mandatory <-> required without default violated"})
                        if sp["name"] == "o" and sp["has_default"] and (sp["default"] or {}).get("t") != "unset":
                            run.violation("oracle", {"label": r["label"], "doc": r["doc"], "cfg": r.get("cfg"), "cls": rec["cls"], "param": sp, "note": "optional property without default does not default to UNSET"})
        for erec in r["eps"]:
            run.note_case({"doc": r["label"], "op": erec["op"]}, kind="parameter")
            sig = erec.get("signature") or {}
            for sp in sig.get("params", []):
                if sp["name"] == "rq" and sp["has_default"]:
                    run.violation("oracle", {"label": r["label"], "doc": r["doc"], "cfg": r.get("cfg"), "op": erec["op"], "param": sp, "note": "required parameter without default is not a mandatory argument"})
                if sp["name"] == "op" and ((not sp["has_default"]) or (sp["default"] or {}).get("t") != "unset"):
                    run.violation("oracle", {"label": r["label"], "doc": r["doc"], "cfg": r.get("cfg"), "op": erec["op"], "param": sp, "note": "optional parameter does not default to UNSET"})
            loc = erec["params"][0]["loc"] if erec["params"] else None
            for which in ("call_omit", "call_both", "call_unset", "call_none"):
                call = erec.get(which)
                if not call:
                    continue
                if "exc" in call:
                    if which == "call_unset" and erec.get("call_omit") and "exc" not in erec["call_omit"]:
                        run.violation("oracle", {"label": r["label"], "doc": r["doc"], "cfg": r.get("cfg"), "op": erec["op"], "impl": call,
                                                 "note": "passing UNSET for the optional parameters raised although omitting them works: UNSET reached the request"})
                        continue
                    if loc in ("cookie", "header") and call["exc"]["type"] == "TypeError" and not call.get("requests"):
                        # httpx refuses the raw non-string value: C03's findings cookie_non_string / header_non_string / header_none; nothing is observable here
                        run.extra["parameter_calls_unobservable"] = run.extra.get("parameter_calls_unobservable", 0) + 1
                        continue
                    run.violation("oracle", {"label": r["label"], "doc": r["doc"], "cfg": r.get("cfg"), "op": erec["op"], "impl": call, "note": "calling with the optional argument %s raised" % {"call_omit": "omitted", "call_both": "given", "call_unset": "explicitly UNSET", "call_none": "None"}[which]})
                    continue
                req = (call.get("requests") or [{}])[0]
                names = {"query": [k for k, _ in req.get("query", [])], "header": [k.lower() for k, _ in req.get("headers", [])],
                         "cookie": [c.split("=")[0].strip() for k, v in req.get("headers", []) if k.lower() == "cookie" for c in v.split(";")]}[loc]
                present = ("op" in names)
                if which == "call_none":
                    if "rq" in names:
                        run.violation("oracle", {"label": r["label"], "doc": r["doc"], "cfg": r.get("cfg"), "op": erec["op"], "request": req,
                                                 "note": "a nullable query parameter given None was transmitted (as an empty value it is indistinguishable from the present value '')"})
                    continue
                if which == "call_unset" and (present or "od" in names):
                    run.violation("oracle", {"label": r["label"], "doc": r["doc"], "cfg": r.get("cfg"), "op": erec["op"], "request": req, "note": "an optional parameter passed as UNSET was transmitted"})
                if which == "call_omit" and present:
                    run.violation("oracle", {"label": r["label"], "doc": r["doc"], "cfg": r.get("cfg"), "op": erec["op"], "request": req, "note": "omitted optional parameter was transmitted"})
                if which == "call_both" and not present:
                    run.violation("oracle", {"label": r["label"], "doc": r["doc"], "cfg": r.get("cfg"), "op": erec["op"], "request": req, "note": "given optional parameter was not transmitted"})
                if "rq" not in names:
                    run.violation("oracle", {"label": r["label"], "doc": r["doc"], "cfg": r.get("cfg"), "op": erec["op"], "request": req, "note": "required parameter was not transmitted"})
    shared_nullable(run)
    bad = run_cases(hdr, terms, shard=300)
    run.corr = {"cases": len(terms), "mismatches": len([i for i in bad if meta[i][0] != "nullable"]), "what": "get_type_string == Types.type_of (as sets); document nullability == Types.nullable; generated from_dict/to_dict on absent/present/null instances == Codec.dec/enc"}
    for i in bad[:8]:
        what, di, rec, x, ent = meta[i]
        payload = {"label": results[di]["label"], "doc": results[di]["doc"], "cls": rec["cls"], "what": what, "item": x}
        if what == "type":
            payload.update({"impl_type": ent["type_string"], "model": coq_eval(hdr, f"type_of {ent['ck']} {'true' if ent['required'] else 'false'}")[-300:]})
        elif what == "nullable":
            payload.update({"impl_type": ent["type_string"], "document_says_nullable": rec["expect"]["nullable"], "model_kind": ent["ck"][:200],
                            "note": "the parsed property tree is (not) nullable although the document says otherwise"})
            report(run, results[di]["label"], rec, dict(payload, kind_="document-vs-parse"))
            continue
        else:
            payload.update({"instance": ent["inst"], "impl": ent["res"]})
        # rejected notations are known limitations only if the schema itself produced a diagnostic; otherwise a correspondence failure
        run.violation("correspondence", dict(payload, note="the implementation no longer agrees with the model on which C10's theorems are proved"))
    run.assumptions += ["harness/lib/tyabs.py (annotation text -> Types.ty)", "the document generator's own bookkeeping of which notation makes a schema nullable"]
